#!/usr/bin/env python3
"""check.py <Cxx> [--tier quick|thorough] [--root DIR] [--replay FILE]

Static verification of one property of /verif/properties.jsonl on the source
tree under --root (default /repo).  Nothing under the root is imported or run.
exit 0 = every rule instance holds (known findings are printed and tolerated)
exit 1 = VIOLATION property=<id> replay=<path>
exit 2 = ANALYSIS-ERROR (the engine could not decide; never an accusation)
"""
import argparse
import importlib
import json
import os
import sys
import traceback

HERE = os.path.dirname(os.path.abspath(__file__))
sys.path.insert(0, HERE)
sys.dont_write_bytecode = True

from sa.report import Ctx  # noqa: E402
from sa.model import AnalysisError  # noqa: E402

LEVELS = {"C15": "proof"}


def selfcheck():
    """setup_cmd: nothing to build; verify the interpreter can load the engine and parse the repository"""
    from sa.model import Program
    from sa.bits import selftest
    n = selftest(0, 300)
    p = Program("/repo")
    print("selfcheck ok: python %s, %d files parsed, %d functions, %d bit-domain cases" % (
        sys.version.split()[0], len(p.files), len(p.funcs), n))
    return 0


def calibrate(ctx):
    """thorough tier: run this property's slice of the mutation / refactor corpus on scratch copies of the current tree.
    Calibration of the checker (is its silence meaningful, does it stay silent on equivalent code) - it never changes
    the verdict on the tree itself."""
    if ctx.findings or ctx.unknowns:
        ctx.extra_cov["selftest"] = "skipped: the tree itself is not clean, variants would be meaningless"
        return "Calibration corpus skipped (tree not clean)."
    from selftest.run import run, run_patches
    res = run({ctx.pid}, root=ctx.root)
    pres = run_patches({ctx.pid}, root=ctx.root)
    ok = [r for r in res if r[2] == "ok"]
    bad = [r for r in res if r[2] in ("MISMATCH", "broken-variant")]
    from selftest.corpus import V
    kinds = {v["id"]: v["kind"] for v in V}
    ctx.extra_cov["selftest"] = {
        "variants_run": len(res), "as_expected": len(ok), "skipped_anchor_moved": sum(1 for r in res if r[2] == "skipped"),
        "breaking_detected": sum(1 for r in ok if kinds[r[0]] == "break"), "preserving_silent": sum(1 for r in ok if kinds[r[0]] == "keep"),
        "mismatches": ["%s %s" % (r[0], r[3]) for r in bad],
        "seeded_changes_run": sum(1 for r in pres if r[0].startswith("seeded") and r[2] != "skipped"),
        "seeded_changes_reported": sum(1 for r in pres if r[0].startswith("seeded") and r[2] == "ok"),
        "refactorings_run": sum(1 for r in pres if r[0].startswith("refactor") and r[2] != "skipped"),
        "refactorings_not_reported": sum(1 for r in pres if r[0].startswith("refactor") and r[2] == "ok"),
        "refactorings_undecided": sum(1 for r in pres if r[0].startswith("refactor") and r[3] == "undecided"),
        "patch_mismatches": ["%s %s" % (r[0], r[3]) for r in pres if r[2] == "MISMATCH"],
    }
    bad = bad + [r for r in pres if r[2] == "MISMATCH"]
    for r in bad:
        print("SELFTEST-MISMATCH %s %s: %s" % (r[0], r[1], r[3]))
    return ("Calibration: %d corpus variants of this property analysed on scratch copies: %d breaking edits detected, %d behaviour-preserving "
            "rewrites silent, %d skipped; %d/%d independently seeded breaking changes of this property reported; %d/%d independently written "
            "behaviour-preserving refactorings not reported; %d not as expected." % (
                len(res), ctx.extra_cov["selftest"]["breaking_detected"], ctx.extra_cov["selftest"]["preserving_silent"],
                ctx.extra_cov["selftest"]["skipped_anchor_moved"], ctx.extra_cov["selftest"]["seeded_changes_reported"],
                ctx.extra_cov["selftest"]["seeded_changes_run"], ctx.extra_cov["selftest"]["refactorings_not_reported"],
                ctx.extra_cov["selftest"]["refactorings_run"], len(bad)))


def _isolate_rules():
    """one rule that cannot be evaluated (vanished anchor, unsupported construct, a bug in the rule) must not silence the others:
    every public rule function (first parameter `ctx`) reports its own failure as UNKNOWN and returns None"""
    import functools
    import inspect
    import pkgutil
    import rules
    from sa.report import Ctx
    for m in pkgutil.iter_modules(rules.__path__):
        mod = importlib.import_module("rules." + m.name)
        for name, fn in list(vars(mod).items()):
            if not inspect.isfunction(fn) or fn.__module__ != mod.__name__ or name.startswith("_") or getattr(fn, "_isolated", False):
                continue
            params = list(inspect.signature(fn).parameters)
            if not params or params[0] != "ctx":
                continue

            def wrap(fn):
                @functools.wraps(fn)
                def inner(ctx, *a, **k):
                    if not isinstance(ctx, Ctx) or getattr(ctx, "_depth", 0) > 0:
                        return fn(ctx, *a, **k)      # nested calls between rules propagate to the outermost one
                    ctx._depth = 1
                    try:
                        return fn(ctx, *a, **k)
                    except AnalysisError as e:
                        ctx.unknown(k.get("rule") or inspect.signature(fn).parameters.get("rule", inspect.Parameter("r", 1, default="engine")).default or "engine",
                                    "%s: %s" % (fn.__name__, e))
                    except Exception as e:   # a bug in one rule is an analysis error of that rule, never a violation
                        traceback.print_exc()
                        ctx.unknown("engine", "internal error in %s: %s: %s" % (fn.__name__, type(e).__name__, e))
                    finally:
                        ctx._depth = 0
                    return None
                inner._isolated = True
                return inner
            setattr(mod, name, wrap(fn))


def main():
    if len(sys.argv) > 1 and sys.argv[1] == "--selfcheck":
        return selfcheck()
    ap = argparse.ArgumentParser()
    ap.add_argument("prop")
    ap.add_argument("--tier", default=os.environ.get("VERIF_TIER", "quick"), choices=["quick", "thorough"])
    ap.add_argument("--root", default="/repo")
    ap.add_argument("--replay")
    a = ap.parse_args()
    try:
        seed = int(os.environ.get("VERIF_SEED", "0"))
    except ValueError:
        seed = 0
    pid = a.prop
    ctx = Ctx(pid, os.path.abspath(a.root), a.tier, seed, LEVELS.get(pid, "other"))
    if a.replay:
        with open(a.replay) as fh:
            rp = json.load(fh)
        ctx.replay_key = rp["key"]
        print("replaying %s on %s" % (rp["key"], ctx.root))
    try:
        mod = importlib.import_module("props.%s" % pid)
    except ModuleNotFoundError:
        print("ANALYSIS-ERROR property=%s no check implemented" % pid)
        return 2
    _isolate_rules()
    try:
        expl = mod.run(ctx)
        if a.tier == "thorough" and hasattr(mod, "thorough"):
            expl2 = mod.thorough(ctx)
            if expl2:
                expl = expl + " " + expl2
        if a.tier == "thorough" and not a.replay:
            expl = expl + " " + calibrate(ctx)
    except AnalysisError as e:
        ctx.unknown("engine", str(e))
        expl = "analysis aborted: %s" % e
    except Exception as e:  # a bug in the checker is an analysis error, never a violation
        traceback.print_exc()
        ctx.unknown("engine", "internal error %s: %s" % (type(e).__name__, e))
        expl = "analysis aborted by internal error"
    code = ctx.finish(expl, trusted_base=getattr(mod, "TRUSTED_BASE", None),
                      checker_cmd="python3 check.py %s --tier %s" % (pid, a.tier))
    if a.replay and code == 0:
        print("replay: the recorded finding does not occur on this tree")
    return code


if __name__ == "__main__":
    sys.exit(main())
