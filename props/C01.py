"""C01 - J1939-21 transport delivers every accepted message intact, exactly once (structural clauses)."""
from rules import transport as T
from rules import session as S
from rules import flow as F
from rules import dm14 as D


def run(ctx):
    L = T.Layer(ctx, fd=False)
    ctx.rule("R-SEG-CEIL", "packet count = ceil(len/7) in the quotient/remainder domain", floor=2)
    T.seg_ceil(ctx, L)
    ctx.rule("R-SEG-CONST", "DT packets: offset 7*index, 7 data bytes, truncate or pad with 0xFF", floor=2)
    ctx.rule("R-SEQ-BASE", "sequence byte = packet index + 1", floor=2)
    S.seg_const(ctx, L)
    ctx.rule("R-HASH-INJ", "session key is injective on (source, destination)", floor=1)
    T.hash_inj(ctx, L)
    ctx.rule("R-KEY-ROLE", "session tables are keyed by (originator, responder) in the roles the frame implies", floor=5)
    S.key_role(ctx, L)
    ctx.rule("R-DELIVER-GUARD", "delivery: complete -> truncate -> once -> remove -> ack iff destination-specific", floor=3)
    S.deliver_guard(ctx, L)
    ctx.rule("R-BAM-FRESH", "a new broadcast announcement never inherits the data of an unfinished one (no mixed message)", floor=1)
    S.bam_fresh(ctx, L)
    ctx.rule("R-RTS-ACCEPT", "an RTS is refused only when its own receive key is occupied (crossing transfers are both served)", floor=1)
    S.rts_accept(ctx, L)
    from rules import ecu as _E
    ctx.rule("R-WAKE-NONBLOCK", "posting a wake-up token never blocks (any number of CTS windows)", floor=1)
    _E.wake_nonblocking(ctx)
    ctx.rule("R-REFRESH", "each appended, non-completing data packet re-arms the receive deadline", floor=2)
    S.refresh(ctx, L)
    ctx.rule("R-ORDER-SEND", "state advanced before RTS / connection-mode DT is handed to the bus", floor=2)
    S.order_send(ctx, L)
    ctx.rule("R-CTS-BORDER", "responder window bookkeeping is mutually consistent (no stall for unequal windows)", floor=2)
    F.cts_border(ctx, L)
    ctx.rule("R-GRANT-MIN", "grants and the announced window are min-closures over own maximum, peer limit, remaining", floor=3)
    F.grant_min(ctx, L)
    ctx.rule("R-WINDOW-AFFINE", "packets sent per CTS = granted count", floor=2)
    F.window_affine(ctx, L)
    ctx.rule("R-FORWARD-NAMES", "ECU.send_pgn / notify forward their parameters by name", floor=2)
    D.forward_names(ctx, classes=("ElectronicControlUnit",))
    from rules import layout as LY
    ctx.rule("R-SINGLE-FRAME", "single frames carry the arguments in the identifier and the payload unchanged", floor=1)
    LY.single_frame(ctx, L)
    ctx.rule("R-DELIVER-ARGS", "single-frame delivery hands listeners the frame's own priority, PGN, source, destination, data", floor=2)
    LY.deliver_args(ctx, L)
    ctx.rule("R-ANNOUNCED-PGN", "RTS/BAM and the send session carry data page | PF | (PS or 0) of the arguments", floor=4)
    from rules import layout as _LY
    _LY.announced_pgn(ctx, L)
    ctx.rule("R-DEST-CLASS", "BAM iff PS==255 or PDU2, RTS/CTS to PS otherwise; single frame iff len<=8", floor=3)
    T.dest_class(ctx, L)
    ctx.rule("R-REFUSE", "send_pgn returns False only when the pair is busy, without effects", floor=1)
    T.refuse(ctx, L)
    ctx.rule("R-DISPATCH", "notify routes TP.CM/TP.DT by SAE PGN; every control byte has a branch", floor=7)
    T.dispatch(ctx, L)
    from rules import robust as _R
    ctx.rule("R-PAIR-ORDER", "state / deadline pair: written state-first by the receive path, read deadline-first by the job scan (no spurious time-out of a healthy session)", floor=3)
    _R.pair_order(ctx, L)
    ctx.rule("R-SESSION-FRESH", "each receive session starts with its own empty reassembly buffer (nothing shared between sessions)", floor=2)
    S.session_fresh(ctx, L)
    ctx.rule("R-REPLY-ARMS", "CTS with a grant stores window end, sending state, immediate deadline and wakes the job thread; the end-of-message acknowledge tells the listeners and finishes the session", floor=2)
    S.reply_arms(ctx, L)
    ctx.rule("R-BURST-BOUND", "a data packet is sent only while its index is below the packet count (strict test)", floor=1)
    F.burst_bound(ctx, L)
    return "structural necessary conditions of C01 decided on j1939_21.py"
