"""C02 - J1939-22 (FD) transport delivers intact, exactly once; capacity refusal is clean (structural clauses)."""
from rules import transport as T
from rules import session as S
from rules import timing as TM
from rules import flow as F
from rules import fdseg


def run(ctx):
    L = T.Layer(ctx, fd=True)
    ctx.rule("R-SEG-CEIL", "segment count = ceil(len/60) in the quotient/remainder domain", floor=2)
    T.seg_ceil(ctx, L)
    ctx.rule("R-SEG-CONST-FD", "payload is split into 60-byte chunks, remainder last; DT builder keeps 60 data bytes", floor=3)
    fdseg.seg_const_fd(ctx, L)
    ctx.rule("R-HASH-INJ", "session keys are injective on (session, source, destination); multi-PG hash invertible", floor=3)
    T.hash_inj(ctx, L)
    ctx.rule("R-KEY-ROLE", "session tables are keyed by (session, originator, responder) in the roles the frame implies", floor=5)
    S.key_role(ctx, L)
    ctx.rule("R-DELIVER-GUARD", "delivery on EOM status: announced sizes agree and the buffer is complete; in-order append", floor=3)
    S.deliver_guard(ctx, L)
    ctx.rule("R-BAM-FRESH", "a new broadcast announcement never inherits the data of an unfinished one (no mixed message)", floor=1)
    S.bam_fresh(ctx, L)
    ctx.rule("R-RTS-ACCEPT", "an RTS is refused only when its own receive key is occupied", floor=1)
    S.rts_accept(ctx, L)
    ctx.rule("R-REFRESH", "each appended, non-completing data packet re-arms the receive deadline", floor=2)
    S.refresh(ctx, L)
    ctx.rule("R-ANNOUNCED-PGN", "RTS/BAM and the send session carry data page | PF | (PS or 0) of the arguments", floor=4)
    from rules import layout as _LY
    _LY.announced_pgn(ctx, L)
    ctx.rule("R-DEST-CLASS", "BAM iff PS==255 or PDU2, RTS/CTS to PS otherwise", floor=3)
    T.dest_class(ctx, L)
    ctx.rule("R-REFUSE", "send_pgn returns False only when the pool is empty, without effects", floor=4)
    T.refuse(ctx, L)
    ctx.rule("R-DISPATCH", "notify routes FD.TP.CM/FD.TP.DT by SAE PGN; every control type has a branch", floor=8)
    T.dispatch(ctx, L)
    ctx.rule("R-LAYOUT", "FD TP.CM / TP.DT builders and parsers agree bit by bit with the SAE layout (24-bit segment numbers, sizes)", floor=20)
    _LY.builders(ctx, L)
    _LY.parsers(ctx, L)
    ctx.rule("R-POOL-PAIR", "session numbers are taken on send and returned on every deletion of the send session", floor=10)
    TM.pool_pair(ctx, L)
    ctx.rule("R-POOL-OWNER", "session numbers are released only where an outbound session is deleted", floor=5)
    TM.pool_owner(ctx, L)
    ctx.rule("R-CTS-BORDER", "responder window bookkeeping is mutually consistent", floor=2)
    F.cts_border(ctx, L)
    ctx.rule("R-GRANT-MIN", "grants and the announced window are min-closures over own maximum, peer limit, remaining", floor=3)
    F.grant_min(ctx, L)
    ctx.rule("R-WINDOW-AFFINE", "segments sent per CTS = granted count", floor=2)
    F.window_affine(ctx, L)
    from rules import dm14 as D
    ctx.rule("R-FORWARD-NAMES", "ECU.send_pgn / notify forward their parameters by name", floor=2)
    D.forward_names(ctx, classes=("ElectronicControlUnit",))
    ctx.rule("R-ORDER-SEND", "the send session is stored / advanced before RTS / connection-mode DT is handed to the bus (a reply processed inside the send call finds it)", floor=2)
    S.order_send(ctx, L)
    from rules import robust as _R
    ctx.rule("R-PAIR-ORDER", "state / deadline pair: written state-first by the receive path, read deadline-first by the job scan (no spurious time-out of a healthy session)", floor=3)
    _R.pair_order(ctx, L)
    ctx.rule("R-SESSION-FRESH", "each receive session starts with its own empty reassembly buffer (nothing shared between sessions)", floor=2)
    S.session_fresh(ctx, L)
    ctx.rule("R-DT-MINLEN", "FD.TP.DT frames with header + 1..60 data bytes are not dropped by the length test", floor=1)
    S.dt_minlen(ctx, L)
    S.cm_minlen(ctx, L)
    ctx.rule("R-REPLY-ARMS", "CTS with a grant stores window end, sending state, immediate deadline and wakes the job thread; the end-of-message acknowledge tells the listeners and finishes the session", floor=2)
    S.reply_arms(ctx, L)
    ctx.rule("R-FD-SENDER", "job pass: each segment sent advances the index; the end-of-message status follows the last segment / ends a broadcast", floor=3)
    fdseg.fd_sender_steps(ctx, L)
    return "structural necessary conditions of C02 decided on j1939_22.py"
