"""C03 - wire format interoperates with an independent SAE J1939-21/-22 implementation (byte image of each frame kind)."""
from rules import transport as T
from rules import session as S
from rules import layout as LY
from rules import fdseg
from rules import flow as F
from rules import timing as TM

TRUSTED_BASE = ["/verif/spec/sae.py (tables transcribed from SAE J1939-21/-22)", "/verif/sa/bits.py transfer functions"]


def run(ctx):
    ctx.rule("R-LAYOUT", "every TP.CM/TP.DT builder and parser agrees bit by bit with the SAE tables", floor=40)
    ctx.rule("R-PAD", "padding: 0xFF to 7 data bytes (J1939-21); FD frames padded to the smallest legal length", floor=1)
    ctx.rule("R-SEG-CONST", "J1939-21 DT packets carry 7 data bytes at offset 7*index, padded with 0xFF", floor=2)
    ctx.rule("R-SEQ-BASE", "sequence numbers are 1-based and in order", floor=2)
    ctx.rule("R-SEG-CONST-FD", "FD segments carry 60 data bytes, remainder last, padded with 0xFF", floor=3)
    ctx.rule("R-CTS-BORDER", "as responder: CTS at the border the announced windows imply (a conforming originator is never left waiting)", floor=4)
    ctx.rule("R-GRANT-MIN", "as responder: grants bounded by the peer's RTS limit, own maximum and the remaining count", floor=6)
    ctx.rule("R-DISPATCH", "PGN and control-byte constants equal the SAE values", floor=15)
    ctx.rule("R-SEG-CEIL", "announced packet / segment count = ceil(len/7) resp. ceil(len/60): exactly the data packets that follow", floor=4)
    ctx.rule("R-WAKEUP-COVER", "a paced / re-armed session's new deadline reaches the job pass's next wake-up (DT spacing stays within the peer's T1)", floor=6)
    ctx.rule("R-ANNOUNCED-PGN", "the PGN bytes of RTS/BAM are data page | PF | PS-or-0 of the message's parameter group", floor=8)
    ctx.rule("R-REFRESH", "as responder: every data packet of a conforming (slow but legal) peer re-arms the receive deadline, broadcasts included", floor=4)
    ctx.rule("R-WINDOW-AFFINE", "as originator: packets sent per CTS = granted count (clamps test the granted count)", floor=4)
    ctx.rule("R-SESSION-FRESH", "as responder: a session's reassembly buffer is its own (the EndOfMsgACK is not sent before this message's packets arrived)", floor=4)
    ctx.rule("R-DT-MINLEN", "as responder: FD.TP.DT frames with header + 1..60 data bytes are accepted (a conforming peer's short last segment)", floor=1)
    for fd in (False, True):
        L = T.Layer(ctx, fd=fd)
        LY.builders(ctx, L)
        LY.parsers(ctx, L)
        T.dispatch(ctx, L)
        F.cts_border(ctx, L)
        F.grant_min(ctx, L)
        T.seg_ceil(ctx, L)
        S.refresh(ctx, L)
        F.window_affine(ctx, L)
        LY.announced_pgn(ctx, L)
        TM.wakeup_cover(ctx, L)
        S.session_fresh(ctx, L)
        if fd:
            LY.lut_legal(ctx, L)
            S.dt_minlen(ctx, L)
            S.cm_minlen(ctx, L)
            fdseg.seg_const_fd(ctx, L)
        else:
            S.seg_const(ctx, L)
    ctx.assume("inputs to the builders are non-negative integers; frame data bytes are 0..255")
    return "byte image of every transport frame kind decided against the independent SAE tables (known-bits domain)"
