"""C04 - address claiming: unique addresses; lowest NAME keeps a contested one (decision table + comparison)."""
from rules import ca, codec


def run(ctx):
    ctx.rule("R-CLAIM-TABLE", "decision table of the claim handler equals the J1939-81 table", floor=5)
    ctx.rule("R-CLAIM-CMP", "arbitration compares the 64-bit NAME values; higher yields", floor=1)
    ctx.rule("R-CLAIM-BCAST", "address-claimed frames reach every CA of the stack", floor=2)
    ctx.rule("R-CLAIM-TIMER", "veto wait for 128..247 (250 ms), immediate otherwise; the claim timer re-arms itself", floor=4)
    ctx.rule("R-CLAIM-ONLY", "claims go to the global address with the NAME as payload", floor=2)
    ca.claim_table(ctx)
    codec.claim_cmp(ctx)
    ctx.rule("O-NAME", "the compared 64-bit values are the J1939-81 NAME of both sides (fields, value and byte views agree)", floor=50)
    codec.name(ctx)
    ca.claim_bcast(ctx, "J1939_21")
    ca.claim_bcast(ctx, "J1939_22")
    ctx.rule("R-CA-LOOPS", "the loops handing claims to the CAs serve every CA (no early exit)", floor=4)
    ca.ca_loops(ctx, "J1939_21")
    ca.ca_loops(ctx, "J1939_22")
    ca.claim_timer(ctx)
    ctx.rule("R-CLAIM-ORDER", "the starting CA leaves NONE before its first claim is sent (a synchronous veto is not ignored)", floor=2)
    ca.claim_order(ctx)
    ctx.rule("R-LOSE-ORDER", "a losing CA has left NORMAL / recorded the new announcement before its next frame is sent", floor=2)
    ca.lose_order(ctx)
    ctx.rule("R-CLAIM-TRACK", "every claim handed to the bus names the address held or recorded as announced at that moment", floor=4)
    ca.claim_track(ctx)
    ctx.rule("R-NORMAL-ANNOUNCED", "entering NORMAL keeps announced == held (the losing branch claims announced + 1)", floor=2)
    ca.normal_announced(ctx)
    ca.claim_only(ctx)
    from rules import generic as GN
    ctx.rule("R-LOCAL-DEFINED", "no path of a ControllerApplication function reads a local before assigning it (the claim timer callback runs in the job thread)", floor=15)
    GN.local_defined(ctx, [f for f in ctx.prog.funcs.values() if f.cls is not None and f.cls.name == "ControllerApplication"],
                     why=" - raised in the claim timer callback it ends the job thread: the claim is never completed / defended")
    return "J1939-81 decision table, comparison direction, broadcast and veto-timer shape of the claim procedure"
