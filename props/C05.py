"""C05 - messages reach only the addressed applications; foreign traffic is ignored."""
from rules import ca


def run(ctx):
    ctx.rule("R-LISTENER-GATE", "only running, non-error, non-remote, extended-ID frames are processed", floor=1)
    ctx.rule("R-FILTER-FIRST", "destination filter dominates every PDU1 dispatch, is effect-free when rejecting, never hits PDU2", floor=8)
    ctx.rule("R-SUBSCRIBER-RULE", "per-listener delivery formula; CA predicate; ECU-level address listeners", floor=4)
    ca.listener_gate(ctx)
    ca.filter_first(ctx, "J1939_21")
    ca.filter_first(ctx, "J1939_22")
    ca.subscriber_rule(ctx)
    from rules import ecu as _E
    ctx.rule("R-REMOVE-ALL", "unsubscribe removes every binding of the callback (no address stays `owned` by a removed listener)", floor=2)
    _E.remove_all(ctx)
    ctx.rule("R-CA-LOOPS", "filter and dispatch loops over the stack's CAs consult every CA (no early exit)", floor=4)
    ca.ca_loops(ctx, "J1939_21")
    ca.ca_loops(ctx, "J1939_22")
    from rules import codec
    ctx.rule("O-PGN", "PDU1/PDU2 classification used by the filter is exact and complementary on 0..255", floor=10)
    codec.pgn(ctx)
    from rules import transport as T, layout as LY
    ctx.rule("R-DELIVER-ARGS", "single-frame delivery hands listeners the frame's own fields (destination decides who is addressed)", floor=4)
    for fd in (False, True):
        LY.deliver_args(ctx, T.Layer(ctx, fd=fd))
    from rules import ca as _CA2
    ctx.rule("R-CA-REGISTRY", "add_ca / remove_ca of both data link layers maintain the CA list the destination filter consults", floor=4)
    _CA2.layer_ca_list(ctx, "J1939_21")
    _CA2.layer_ca_list(ctx, "J1939_22")
    return "listener gate, destination filter dominance and the per-listener delivery formula decided for all 256 addresses"
