"""C06 - lost frames or a vanished peer end a transfer cleanly, never with corrupt data (structural clauses)."""
from rules import transport as T
from rules import session as S
from rules import timing as TM


def run(ctx):
    ctx.rule("R-DELIVER-GUARD", "exact payload or nothing: delivery only from a complete, in-order reassembly", floor=6)
    ctx.rule("R-TIMEOUT-CONST", "timeouts and abort reasons equal the SAE values", floor=12)
    ctx.rule("R-DEADLINE-FINITE", "every stored deadline is now (+ SAE timeout <= 1.25 s / 3 s, or a configured interval)", floor=10)
    ctx.rule("R-EXPIRY-SHAPE", "expiry: abort(TIMEOUT) in the right direction iff destination-specific, session removed", floor=10)
    ctx.rule("R-REARM", "every expiry path deletes the session or re-arms it in the future", floor=16)
    ctx.rule("R-WAKE", "a new/immediate deadline wakes the job thread", floor=10)
    ctx.rule("R-WAKEUP-MIN", "the job pass keeps the earliest session deadline as its next wake-up (timeouts are served on time)", floor=8)
    ctx.rule("R-REFUSE", "the pair / pool becomes usable again: refusal condition is exactly busy / exhausted", floor=5)
    ctx.rule("R-WAKEUP-COVER", "a deadline set by a job pass reaches that pass's next wake-up, so the timeout is noticed when it expires", floor=6)
    ctx.rule("R-FINISH-NOW", "acknowledged / aborted send sessions are due for removal immediately (pair usable again)", floor=3)
    ctx.rule("R-BAM-FRESH", "a new broadcast announcement never inherits the data of an unfinished one (no mixed message)", floor=2)
    ctx.rule("R-REFRESH", "every appended data packet re-arms the receive deadline (a live transfer is never timed out)", floor=4)
    ctx.rule("R-RTS-ACCEPT", "after a failed transfer the next RTS on the pair is accepted: refusal only while its own receive key is occupied", floor=2)
    ctx.rule("R-SESSION-FRESH", "a new receive session starts with its own empty buffer (nothing of a lost transfer is mixed in)", floor=4)
    for fd in (False, True):
        L = T.Layer(ctx, fd=fd)
        S.deliver_guard(ctx, L)
        S.bam_fresh(ctx, L)
        S.refresh(ctx, L)
        S.rts_accept(ctx, L)
        S.session_fresh(ctx, L)
        TM.timeout_const(ctx, L)
        TM.deadline_finite(ctx, L)
        TM.expiry_shape(ctx, L)
        TM.rearm(ctx, L)
        TM.wake(ctx, L)
        T.refuse(ctx, L)
        TM.wakeup_min(ctx, L.job, tag=L.tag + " ")
        TM.wakeup_cover(ctx, L)
        TM.finish_now(ctx, L)
    return "loss/timeout clauses of C06 decided on both data link layers"
