"""C07 - no sequence of received frames can stop, stall or permanently clog the stack (structural clauses)."""
from rules import transport as T
from rules import timing as TM
from rules import robust as R


def run(ctx):
    ctx.rule("R-REARM", "every expiry path deletes the session or re-arms its deadline in the future", floor=16)
    ctx.rule("R-STATE-EXHAUSTIVE", "every stored send state has a job-thread branch", floor=8)
    ctx.rule("R-IDX", "fixed-length list fields are never indexed out of range", floor=3)
    ctx.rule("R-JOB-SUBSCRIPT", "no unprotected job-thread subscript on a table the receive path deletes from", floor=6)
    ctx.rule("R-SNAPSHOT", "job-thread scans iterate a snapshot", floor=5)
    ctx.rule("R-LISTENER-CONTAIN", "exceptions from frame handling are contained at the bus listener", floor=1)
    ctx.rule("R-RAISE-CONFINED", "explicit raises of the data link layer are not reachable from the job thread", floor=2)
    ctx.rule("R-PEER-255", "control frames from the illegal source address 255 never reach the stack's own broadcast sessions", floor=6)
    ctx.rule("R-DEADLINE-FINITE", "no receive session is ever given the `no timer` deadline 0: each one expires", floor=4)
    for fd in (False, True):
        L = T.Layer(ctx, fd=fd)
        TM.rearm(ctx, L)
        R.state_exhaustive(ctx, L)
        R.idx(ctx, L)
        R.job_subscript(ctx, L)
        R.snapshot(ctx, L)
        R.raise_confined(ctx, L)
        R.bam_key_guard(ctx, L)
        TM.deadline_finite(ctx, L)
    R.listener_contain(ctx)
    from rules import ecu as _E
    ctx.rule("R-WAKE-NONBLOCK", "posting a wake-up token never blocks: no burst of frames can stop the job thread on its own queue", floor=1)
    _E.wake_nonblocking(ctx)
    ctx.rule("R-LOOP-PROGRESS", "every way round a while-loop of the stack changes something its exit tests read (no frame can make a thread spin)", floor=5)
    R.loop_progress(ctx, ("J1939_21", "J1939_22", "ElectronicControlUnit", "ControllerApplication"))
    from rules import generic as GN
    ctx.rule("R-LOCAL-DEFINED", "no path of a data-link-layer / ECU function reads a local before assigning it (an UnboundLocalError in the job pass ends the job thread)", floor=40)
    GN.local_defined(ctx, [f for f in ctx.prog.funcs.values() if f.cls is not None and f.cls.name in ("J1939_21", "J1939_22", "ElectronicControlUnit", "MessageListener")],
                     why=" - raised in the job thread it ends the background processing")
    return "liveness-shaped structural clauses of C07 decided on both data link layers and the bus listener"
