"""C08 - transfer outcome does not depend on where reception pre-empts the job thread (structural clauses)."""
from rules import transport as T
from rules import session as S
from rules import robust as R
from rules import timing as TM


def run(ctx):
    ctx.rule("R-JOB-SUBSCRIPT", "no unprotected job-thread subscript on a table another role deletes from", floor=6)
    ctx.rule("R-SNAPSHOT", "job-thread scans iterate a snapshot of the keys", floor=5)
    ctx.rule("R-ORDER-SEND", "send state is advanced before RTS / connection-mode DT is put on the bus (both layers)", floor=4)
    ctx.rule("R-ROLE-WRITERS", "which role structurally modifies which session table (insert/delete)", floor=4)
    ctx.rule("R-REFUSE", "a new transfer is refused while the pair's previous session entry still exists (any state)", floor=5)
    ctx.rule("R-POOL-PAIR", "FD: the session number goes back to the pool only after the session entry is deleted", floor=10)
    ctx.rule("R-PAIR-ORDER", "state / deadline pair: written state-first by the receive path, read deadline-first by the job scan", floor=6)
    ctx.rule("R-SCRATCH-OWN", "methods shared by the job thread and the receive path build their frames in containers of their own", floor=3)
    for fd in (False, True):
        L = T.Layer(ctx, fd=fd)
        dele = R.job_subscript(ctx, L)
        R.snapshot(ctx, L)
        for t, lst in (dele or {}).items():
            who = sorted({f.name for f, _ in lst})
            ctx.holds("R-ROLE-WRITERS", "%s %s: deleters outside the job thread = %s" % (L.tag, t, who or "none"))
            if t == "_snd_buffer" and lst:
                f, n = lst[0]
                ctx.violated("R-ROLE-WRITERS", f, "%s _snd_buffer deleted outside the job thread" % L.tag,
                             "send sessions are deleted by %s: the job thread's burst loop keeps sending from / re-arming a session that "
                             "no longer exists, and its own del raises KeyError" % f.name, n)
        S.order_send(ctx, L)
        R.pair_order(ctx, L)
        R.scratch_own(ctx, L)
        # a pair / session number must stay occupied until the job thread has removed the old entry: otherwise a send_pgn that
        # runs between the two steps creates a session under the key the job thread then deletes
        T.refuse(ctx, L)
        if fd:
            TM.pool_pair(ctx, L)
    from rules import ecu as _E
    ctx.rule("R-WAKE-CONSUME", "wake-up tokens posted during a job pass survive until the pass's blocking wait (a reply that pre-empts the pass is served at once)", floor=1)
    _E.wake_consume(ctx)
    ctx.assume("CPython: dict get/pop/in on a key are atomic with respect to the other thread; a thread switch can occur between any two bytecodes")
    return "raise-on-interleave and ordering clauses of C08 decided on both data link layers"
