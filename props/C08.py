"""C08 - transfer outcome does not depend on where reception pre-empts the job thread (structural clauses)."""
from rules import transport as T
from rules import session as S
from rules import robust as R


def run(ctx):
    ctx.rule("R-JOB-SUBSCRIPT", "no unprotected job-thread subscript on a table another role deletes from", floor=6)
    ctx.rule("R-SNAPSHOT", "job-thread scans iterate a snapshot of the keys", floor=5)
    ctx.rule("R-ORDER-SEND", "send state is advanced before RTS / connection-mode DT is put on the bus (both layers)", floor=4)
    ctx.rule("R-ROLE-WRITERS", "which role structurally modifies which session table (insert/delete)", floor=4)
    for fd in (False, True):
        L = T.Layer(ctx, fd=fd)
        dele = R.job_subscript(ctx, L)
        R.snapshot(ctx, L)
        for t, lst in dele.items():
            who = sorted({f.name for f, _ in lst})
            ctx.holds("R-ROLE-WRITERS", "%s %s: deleters outside the job thread = %s" % (L.tag, t, who or "none"))
            if t == "_snd_buffer" and lst:
                f, n = lst[0]
                ctx.violated("R-ROLE-WRITERS", f, "%s _snd_buffer deleted outside the job thread" % L.tag,
                             "send sessions are deleted by %s: the job thread's burst loop keeps sending from / re-arming a session that "
                             "no longer exists, and its own del raises KeyError" % f.name, n)
        S.order_send(ctx, L)
    ctx.assume("CPython: dict get/pop/in on a key are atomic with respect to the other thread; a thread switch can occur between any two bytecodes")
    return "raise-on-interleave and ordering clauses of C08 decided on both data link layers"
