"""C09 - originator obeys flow control and pacing; responder never over-grants (structural clauses)."""
from rules import transport as T
from rules import flow as F


def run(ctx):
    for fd in (False, True):
        L = T.Layer(ctx, fd=fd)
        F.grant_min(ctx, L)
        F.cts_border(ctx, L)
        F.dt_typestate(ctx, L)
        F.hold(ctx, L)
        F.window_affine(ctx, L)
        F.bam_pace(ctx, L)
        from rules import timing as TM
        TM.wakeup_min(ctx, L.job, tag=L.tag + " ")
        TM.wakeup_cover(ctx, L)
    from rules import dm14 as _D
    ctx.rule("R-FORWARD-NAMES", "the ECU hands the configured pacing intervals and window to the data link layer under their own names", floor=2)
    _D.forward_names(ctx, classes=("ElectronicControlUnit",))
    ctx.rule("R-GRANT-MIN", "CTS grant = min(own maximum, RTS window, remaining)", floor=6)
    ctx.rule("R-CTS-BORDER", "responder window bookkeeping is mutually consistent", floor=4)
    ctx.rule("R-DT-TYPESTATE", "DT only in a sending state entered by a non-zero CTS", floor=8)
    ctx.rule("R-HOLD", "zero-packet CTS only extends the wait", floor=2)
    ctx.rule("R-WINDOW-AFFINE", "packets per CTS = granted count", floor=4)
    ctx.rule("R-WAKEUP-MIN", "the job pass wakes for the earliest pending packet time (upper pacing bound)", floor=8)
    ctx.rule("R-WAKEUP-COVER", "every new packet time set by a job pass reaches that pass's next wake-up (no path skips the recalculation)", floor=6)
    ctx.rule("R-BAM-PACE", "one BAM DT per expiry, spaced by the configured interval", floor=8)
    from rules import ecu as _E9
    ctx.rule("R-CONFIG-RANGE", "every packets-per-CTS setting 1..255 is accepted by the constructor", floor=1)
    _E9.config_range(ctx)
    return "flow-control and pacing clauses of C09 decided on both data link layers"
