"""C10 - transport capacity is conserved over any history (structural clauses)."""
from rules import transport as T
from rules import timing as TM
from rules import session as S


def run(ctx):
    ctx.rule("R-POOL-PAIR", "FD session numbers: acquired numbers label their session; every deletion returns the number", floor=10)
    ctx.rule("R-POOL-OWNER", "pool numbers are released only where an outbound session is deleted", floor=5)
    ctx.rule("R-REFUSE", "refusal is effect-free and its condition is exactly busy / exhausted", floor=5)
    ctx.rule("R-KEY-ROLE", "the busy test and the session use the key of the pair the transfer really occupies", floor=10)
    ctx.rule("R-REARM", "every send session is eventually deleted or re-armed", floor=16)
    ctx.rule("R-WAKE", "state changes that request immediate action wake the job thread", floor=6)
    ctx.rule("R-PEER-255", "a frame from source address 255 cannot finish a broadcast session (its number would go to the wrong pool)", floor=6)
    ctx.rule("R-STATE-OWN", "session tables, session-number pools and the CA list are created per stack object (not shared through a class attribute)", floor=8)
    ctx.rule("R-REPLY-ARMS", "a peer abort / end-of-message acknowledge finishes the send session at once (the pair is usable again)", floor=6)
    from rules import robust as R
    for fd in (False, True):
        L = T.Layer(ctx, fd=fd)
        T.refuse(ctx, L)
        S.key_role(ctx, L)
        TM.rearm(ctx, L)
        TM.wake(ctx, L)
        R.bam_key_guard(ctx, L)
        R.state_own(ctx, L)
        S.reply_arms(ctx, L)
        if fd:
            TM.pool_pair(ctx, L)
            TM.pool_owner(ctx, L)
    return "capacity-conservation clauses of C10 decided on both data link layers"
