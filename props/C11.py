"""C11 - FD multi-PG packing preserves every group and honours frame and time limits (structural clauses)."""
from rules import transport as T
from rules import timing as TM
from rules import mpg, layout


def run(ctx):
    L = T.Layer(ctx, fd=True)
    ctx.rule("R-MPG-FIT", "fill accounting implies an assembled frame of at most 64 bytes", floor=2)
    ctx.rule("R-MPG-HDR", "per-group header size agrees between builder, accounting and parser", floor=1)
    ctx.rule("R-LAYOUT", "C-PG header vs the SAE table; decoder reads the same fields; frame identifier", floor=5)
    ctx.rule("R-HASH-INJ", "buffers keyed injectively by (format, counter, source, destination); unhash inverts hash", floor=3)
    ctx.rule("R-KEY-ROLE", "buffer key arguments", floor=1)
    ctx.rule("R-PAD", "legal FD length LUT; padding content skip-compatible with the decoder", floor=3)
    ctx.rule("R-MPG-FBFF", "base-format groups to a specific destination are refused without effect", floor=1)
    ctx.rule("R-MPG-MIN-DEADLINE", "a buffer's deadline is only ever lowered", floor=2)
    ctx.rule("R-WAKE", "buffering a group with a time limit wakes the job thread", floor=2)
    ctx.rule("R-MPG-FLUSH", "expired buffers are sent once and deleted; full buffers are flushed early", floor=2)
    from rules import codec
    ctx.rule("O-PGN", "PDU1/PDU2 classification used to address contained groups is exact and complementary", floor=10)
    codec.pgn(ctx)
    mpg.fit(ctx, L)
    mpg.header_layout(ctx, L)
    T.hash_inj(ctx, L)
    layout.lut_legal(ctx, L)
    ctx.rule("R-DELIVER-ARGS", "single-frame (non multi-PG) delivery on the FD stack hands listeners the frame's own fields", floor=2)
    layout.deliver_args(ctx, L)
    mpg.misc(ctx, L)
    from rules import dm14 as _D
    ctx.rule("R-FORWARD-NAMES", "send_pgn of the CA and the ECU pass every parameter (time limit, frame format) on to the layer below", floor=2)
    _D.forward_names(ctx, classes=("ControllerApplication", "ElectronicControlUnit"))
    from rules import ca
    ctx.rule("R-CA-LOOPS", "the FD destination filter rejects a frame only after every CA was asked", floor=2)
    ca.ca_loops(ctx, "J1939_22")
    ctx.rule("R-MPG-COPY", "a buffered group holds its own copy of the payload and its length", floor=1)
    mpg.copy_rule(ctx, L)
    TM.wake(ctx, L, tables=("_multi_pg_snd_buffer",), funcs=(L.send_pgn,))
    ctx.rule("R-WAKEUP-MIN", "the job pass keeps the earliest pending deadline as its next wake-up", floor=6)
    TM.wakeup_min(ctx, L.job, tag="22 ")
    TM.wakeup_min(ctx, ctx.prog.func("ElectronicControlUnit", "_async_job_thread"), tag="ECU ")
    ctx.rule("R-MPG-STEPS", "an assembled multi-PG frame is sent on every path; received multi-PG frames are dispatched to the decoder", floor=2)
    mpg.mpg_steps(ctx, L)
    return "multi-PG packing arithmetic, header layout, keying, padding and deadline handling decided on j1939_22.py"
