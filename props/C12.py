"""C12 - timers fire when due and callback registrations mean what they say (structural clauses)."""
from rules import ecu


def run(ctx):
    ctx.rule("R-ITER-MUT", "no loop iterates a live registry list while its body can shrink it (interprocedural)", floor=6)
    ctx.rule("R-REMOVE-ALL", "remove_timer / unsubscribe remove every matching registration", floor=2)
    ctx.rule("R-TIMER-FIRST", "first deadline = now + delta", floor=1)
    ctx.rule("R-TIMER-PERIOD", "periodic re-arm adds whole periods; catch-up loop exit implies 'not due'", floor=2)
    ctx.rule("R-TIMER-ONESHOT", "a callback not returning True is removed", floor=1)
    ctx.rule("R-WAKE", "add_timer and remove_timer wake the job thread", floor=2)
    ctx.rule("R-LIVE-CHECK", "snapshot dispatch re-checks liveness; job-side removal tolerates concurrent removal", floor=1)
    ctx.rule("R-SLEEP-FRESH", "the job thread's sleep is computed against a clock reading taken after the callbacks", floor=1)
    ecu.iter_mut(ctx)
    ecu.remove_all(ctx)
    ecu.timer_rules(ctx)
    ctx.rule("R-WAKE-NONBLOCK", "add_timer / remove_timer from inside a timer callback cannot block the job thread on its own wake-up queue", floor=1)
    ecu.wake_nonblocking(ctx)
    ctx.rule("R-TIMER-SCAN-ALL", "the timer pass examines every registered timer (no early exit from the scan over an unordered list)", floor=1)
    ecu.timer_scan_all(ctx)
    ctx.rule("R-WAKE-CONSUME", "a timer added while a pass is running keeps its wake-up token (it is not drained before the sleep)", floor=1)
    ecu.wake_consume(ctx)
    from rules import timing as TM
    ctx.rule("R-WAKEUP-MIN", "the timer pass keeps the earliest pending deadline as its next wake-up", floor=1)
    TM.wakeup_min(ctx, ctx.prog.func("ElectronicControlUnit", "_async_job_thread"), tag="ECU ")
    from rules import generic as GN
    ctx.rule("R-LOCAL-DEFINED", "no path of an ECU function reads a local before assigning it (an exception in the timer pass ends the job thread)", floor=15)
    GN.local_defined(ctx, [f for f in ctx.prog.funcs.values() if f.cls is not None and f.cls.name == "ElectronicControlUnit"],
                     why=" - raised in the timer pass it ends the job thread and no timer fires any more")
    from rules import ca as _CA
    ctx.rule("R-CA-REGISTRY", "the CA's add_timer / remove_timer / subscribe / unsubscribe hand their callback on to the ECU", floor=4)
    _CA.ca_registry_steps(ctx, which=("add_timer", "remove_timer", "subscribe", "unsubscribe"))
    return "registry iteration/removal discipline and timer arithmetic of ElectronicControlUnit"
