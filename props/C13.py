"""C13 - a controller application sends application data only from an address it holds."""
from rules import ca


def run(ctx):
    ctx.rule("R-SEND-SINKS", "who may hand frames to the ECU: four guarded CA entry points; services only through them", floor=10)
    ctx.rule("R-SEND-GUARD", "every bus sink is dominated by state == NORMAL (or the address-claim request exception)", floor=3)
    ctx.rule("R-SEND-SRC", "the source address that reaches the sink is the held address (254 for the claim request)", floor=4)
    ctx.rule("R-CLAIM-ONLY", "the unguarded sender can emit nothing but address-claimed / cannot-claim frames", floor=2)
    ctx.rule("R-NORMAL-PAIR", "state NORMAL and the held address are stored together; losing the address leaves NORMAL", floor=4)
    from rules import dm14 as D
    ctx.rule("R-FORWARD-NAMES", "CA.send_pgn forwards its parameters by name (held address in the source slot)", floor=1)
    D.forward_names(ctx, classes=("ControllerApplication",))
    ca.send_sinks(ctx)
    ca.send_guard(ctx)
    ca.claim_only(ctx)
    ca.normal_pair(ctx)
    ctx.rule("R-LOSE-ORDER", "on every losing path the state leaves NORMAL before a frame is sent", floor=2)
    ca.lose_order(ctx)
    ctx.rule("R-CLAIM-TABLE", "a contending claim for the held address from a lower NAME is acted on in every operational CA (the address is lost then)", floor=5)
    ca.claim_table(ctx)
    ctx.rule("R-NORMAL-ANNOUNCED", "entering NORMAL keeps announced == held (the losing branch claims announced + 1)", floor=2)
    ca.normal_announced(ctx)
    # below the CA: the data link layers put the source address they were given into the identifier - directly, or (FD multi-PG
    # buffers) after recovering it from the buffer key
    from rules import transport as T, layout as LY
    ctx.rule("R-HASH-INJ", "FD deferred multi-PG buffers: the source address recovered from the buffer key is the one that was keyed", floor=3)
    ctx.rule("R-SINGLE-FRAME", "J1939-21 single frames carry the given source address in the identifier", floor=1)
    T.hash_inj(ctx, T.Layer(ctx, fd=True))
    LY.single_frame(ctx, T.Layer(ctx, fd=False))
    return "guard dominance, who-may-call and argument provenance of every send entry point of ControllerApplication"
