"""C14 - PGN requests reach exactly the addressed operational CAs; claims are answered."""
from rules import ca


def run(ctx):
    ctx.rule("R-LAYOUT", "request = 3 bytes PGN little-endian to PF 0xEA / PS destination; decoder reads the same bytes", floor=3)
    ctx.rule("R-REQ-DISPATCH", "requests are dispatched to every CA accepting the destination", floor=1)
    ctx.rule("R-REQ-GUARD", "claim answer and callbacks dominated by state == NORMAL and (address == dest or dest == GLOBAL)", floor=2)
    ctx.rule("R-REQ-FANOUT", "each callback once with (requester, dest, pgn); claim PGN answered from the held address, no callbacks", floor=2)
    ctx.rule("R-CLAIM-ONLY", "the answer is an address-claimed frame with the CA's NAME", floor=2)
    ca.request_layout(ctx)
    ca.req_dispatch(ctx, "J1939_21")
    ca.req_guard(ctx)
    ctx.rule("R-CA-LOOPS", "the destination filter and the request dispatch loop consult every CA of the stack (no early exit)", floor=2)
    ca.ca_loops(ctx, "J1939_21")
    ctx.rule("R-SUBSCRIBER-RULE", "the dispatch predicate: message_acceptable <=> NORMAL and (dest == GLOBAL or held address == dest)", floor=1)
    ca.message_acceptable_rule(ctx)
    ca.claim_only(ctx)
    ctx.rule("R-NORMAL-PAIR", "a CA that reads as operational already holds its address (address stored before the state; answers come from that address)", floor=3)
    ca.normal_pair(ctx)
    ctx.rule("R-CA-REGISTRY", "subscribe_request records the callback in the list the request handler walks", floor=1)
    ca.ca_registry_steps(ctx, which=("subscribe_request",))
    ca.layer_ca_list(ctx, "J1939_21")
    return "request encoding/decoding, dispatch guard, handler guard formula and fan-out decided for all PGNs and addresses"
