"""C15 - identifier and NAME codecs are exact inverses on their whole domain (proof in the known-bits domain)."""
from rules import codec

TRUSTED_BASE = ["/verif/sa/bits.py known-bits transfer functions (self-tested against Python integer semantics in the thorough tier)",
                "/verif/sa/objeval.py, sym.py, paths.py (straight-line evaluation of the codec classes)",
                "/verif/spec/sae.py: CAN_ID, PGN_VALUE, NAME tables (SAE J1939-21 / -81)",
                "inputs are non-negative Python integers"]


def run(ctx):
    ctx.rule("O-MESSAGEID", "29-bit identifier compose/parse: positions and both inverse directions", floor=8)
    ctx.rule("O-PGN", "PGN fields, value, from_message_id, PDU1/PDU2 classification", floor=10)
    ctx.rule("O-NAME", "NAME: widths, J1939-81 positions, value/bytes setters and getters, inverses", floor=50)
    ctx.rule("R-CLAIM-CMP", "address arbitration compares these 64-bit values in the right direction", floor=1)
    codec.message_id(ctx)
    codec.pgn(ctx)
    codec.name(ctx)
    codec.claim_cmp(ctx)
    ctx.rule("R-GETTER-FRESH", "a codec getter stores nothing, or every writer of its inputs resets what it memoises", floor=20)
    codec.getter_fresh(ctx)
    ctx.assume("codec inputs are non-negative integers (bytes 0..255 for the byte view)")
    ctx.extra_cov["exhaustive"] = True
    return ("every obligation is discharged by abstract evaluation of the codec's expression trees in an exact bit-provenance domain: "
            "each covers the whole input domain (all 2^29 identifiers, all 2^64 NAME values, all in-range field tuples, all 2^18 PGN values) at once")


def thorough(ctx):
    from sa.bits import selftest
    n = selftest(ctx.seed, 20000)
    ctx.extra_cov["bit_domain_selftest_cases"] = n
    return "known-bits transfer functions re-tested against Python integers on %d random/boundary cases." % n
