"""C16 - diagnostic trouble codes and lamp states arrive exactly as sent (DM1, DTC, DM22) - layouts and registration keys."""
from rules import dm_diag as D

TRUSTED_BASE = ["/verif/spec/sae.py: DTC, LAMPS, LAMP_CODES, DM22 tables (SAE J1939-73)", "/verif/sa/bits.py"]


def run(ctx):
    ctx.rule("R-LAYOUT", "DTC / DM1 / DM22 builders and parsers agree bit by bit with J1939-73", floor=14)
    ctx.rule("R-LAMP", "lamp bit pairs, code table and its inverse decision tree", floor=15)
    ctx.rule("R-REG-KEY", "every deregistration names the callable that was registered", floor=6)
    ctx.rule("R-DM1-CYCLE", "the DM1 timer callback sends through the CA and keeps itself registered", floor=1)
    ctx.rule("R-FRESH-PAYLOAD", "the DM1 payload handed to the transport is a new list each cycle", floor=1)
    D.dtc_layout(ctx)
    D.dm1_layout(ctx)
    D.lamps(ctx)
    D.dm22_layout(ctx)
    D.reg_key(ctx)
    ctx.rule("R-SUBSCRIBE-HOOK", "Dm1.subscribe leaves this object's receive hook registered with its CA (per-object state)", floor=2)
    D.subscribe_once(ctx)
    from rules import generic as GN
    ctx.rule("R-LOCAL-DEFINED", "no path of a DM1 / DTC / DM22 function reads a local before assigning it (the DM1 sender runs as a timer callback)", floor=15)
    GN.local_defined(ctx, [f for f in ctx.prog.funcs.values() if f.cls is not None and f.cls.name in ("Dm1", "DTC", "DtcLamp", "Dm22")],
                     why=" - raised in the cyclic sender it ends the job thread: no further DM1 is sent")
    ctx.rule("R-DM1-STEPS", "receive: store, parse afresh, fan out; send: ask the callback each cycle; stop_send / unsubscribe remove; DM22 requests are sent", floor=10)
    D.dm1_steps(ctx)
    return "bit layouts of DTC/DM1/DM22 against the J1939-73 tables and registration/deregistration key agreement"
