"""C17 - DM14 memory access returns and stores exactly the addressed data (layouts, thresholds, slicing, idle reset)."""
from rules import dm14 as D

TRUSTED_BASE = ["/verif/spec/sae.py: DM14_COMMAND, DM15_STATUS, DM16_SINGLE_FRAME_MAX (SAE J1939-73)", "/verif/sa/bits.py"]


def run(ctx):
    ctx.rule("R-LAYOUT", "DM14 and DM15 frames: sibling composition decode o encode = identity, J1939-73 constants", floor=20)
    ctx.rule("R-DM16-PREFIX", "DM16 count prefix and payload extraction on both sides", floor=4)
    ctx.rule("R-DM16-THRESH", "every DM16 size comparison splits at the single-frame boundary n <= 7 | n >= 8", floor=3)
    ctx.rule("R-CHUNK-SLICE", "value <-> byte conversion slices [k*i, k*i+k) little-endian", floor=2)
    ctx.rule("R-DM14-TOLD", "the proceed callback is told the decoded frame fields", floor=2)
    ctx.rule("R-IDLE-RESET", "every return to IDLE clears the transaction identity the admission guard tests", floor=3)
    ctx.rule("R-FORWARD-NAMES", "facade methods pass each parameter to the same-named parameter of the component they forward to", floor=3)
    D.forward_names(ctx)
    D.dm14_layout(ctx)
    D.dm15_layout(ctx)
    D.dm16(ctx)
    D.chunk_slice(ctx)
    D.told(ctx)
    D.idle_reset(ctx)
    ctx.rule("R-QUEUE-TYPESTATE", "producer and consumer of the server's data queue agree on the write transaction", floor=3)
    D.queue_typestate(ctx)
    ctx.rule("R-LISTEN-FIRST", "reply handlers are registered before the frame that provokes the reply is sent (client and server)", floor=4)
    D.listen_first(ctx)
    ctx.rule("R-TXN-FRESH", "the value/byte converters read only fields the current transaction has set", floor=2)
    D.txn_fresh(ctx)
    # back-to-back transactions: the DM16 transfer of one transaction must not keep the pair busy for the next one
    from rules import transport as T, timing as TM
    ctx.rule("R-FINISH-NOW", "an acknowledged J1939-21 send session is released at once (the next multi-packet DM16 is not refused)", floor=2)
    TM.finish_now(ctx, T.Layer(ctx, fd=False))
    from rules import session as _S
    ctx.rule("R-REPLY-ARMS", "the J1939-21 end-of-message acknowledge is reported to the originator's listeners (the DM14 server completes a multi-packet read on it)", floor=2)
    _S.reply_arms(ctx, T.Layer(ctx, fd=False))
    ctx.rule("R-EOM-COMPLETE", "multi-packet read: every legal end-of-message acknowledge (8..255 data bytes) completes the transaction", floor=1)
    D.eom_complete(ctx)
    ctx.assume("DM14 fields are passed in range: object count 0..255, pointer < 2^32, key/user level < 2^16, direct in {0,1}")
    ctx.rule("R-SETTLE-FIRST", "the handler of an expected reply finds the transaction state already stored (client and server; slow driver write or pre-empted sender)", floor=4)
    D.settle_first(ctx)
    from rules import generic as GN
    ctx.rule("R-LOCAL-DEFINED", "no path of a DM14 client / server / facade function reads a local before assigning it", floor=30)
    GN.local_defined(ctx, [f for f in ctx.prog.funcs.values() if f.cls is not None and f.cls.name in ("Dm14Query", "DM14Server", "MemoryAccess")],
                     why=" - the operation ends with an exception instead of its result")
    ctx.rule("R-DM14-STEPS", "every step of a read / write transaction that brings both sides back to idle is taken (server, client, facade)", floor=12)
    D.dm14_steps(ctx)
    return "DM14/DM15/DM16 layouts by sibling composition, size thresholds, chunk slicing, told arguments and idle reset"
