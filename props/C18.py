"""C18 - DM14 serves no data without the right key, surfaces errors, and recovers."""
from rules import dm14 as D


def run(ctx):
    ctx.rule("R-KEY-DOM", "application callbacks and serving are dominated by key verification", floor=5)
    ctx.rule("R-ERR-XLATE", "error DM15 wakes the caller and becomes an exception naming the code; facade error constants", floor=5)
    ctx.rule("R-TIMEOUT-RAISE", "the blocking wait is bounded by the caller's timeout and raises on silence", floor=2)
    ctx.rule("R-RESTORE", "state / subscriptions are restored on every exit, exceptional ones included", floor=5)
    ctx.rule("R-SIBLING-RESET", "sibling failure branches perform the same restoring effects", floor=3)
    D.key_dom(ctx)
    D.err_xlate(ctx)
    D.timeout_raise(ctx)
    D.restore(ctx)
    D.facade_listening(ctx)
    ctx.rule("R-IDLE-RESET", "after a failed operation the server's transaction identity is cleared (reset_query and every return to IDLE)", floor=3)
    D.idle_reset(ctx)
    ctx.rule("R-SEED-ANY", "client: a seed response is answered with the key whatever the 16-bit seed (0xFFFF included)", floor=1)
    D.seed_any(ctx)
    ctx.rule("R-QUEUE-TYPESTATE", "server respond() blocks on the data queue only in the write transaction's WAIT_FOR_DM16 state (a refused write returns)", floor=3)
    D.queue_typestate(ctx)
    ctx.rule("R-SEED-BIND", "server: the stored seed changes only when a seed message carrying it is sent", floor=1)
    D.seed_bind(ctx)
    ctx.rule("R-SETTLE-FIRST", "the seed a key is checked against, and the transaction state, are stored before the frame that is answered goes out", floor=4)
    D.settle_first(ctx)
    ctx.rule("R-DM14-STEPS", "refusals are answered through the server's busy path and everything is reset; respond() stores what it is given; reset_query returns to IDLE", floor=12)
    D.dm14_steps(ctx)
    return "key-check dominance, error translation, bounded wait and restore-on-all-exits of the DM14 facade, client and server"
