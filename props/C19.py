"""C19 - a second DM14 requester never disturbs or joins a running transaction."""
from rules import dm14 as D


def run(ctx):
    ctx.rule("R-ADMIT-FIRST", "the admission guard is evaluated first and is (requester differs) or (pointer differs) or busy", floor=1)
    ctx.rule("R-BUSY-BRANCH", "busy answer goes to the frame's sender and touches nothing of the running transaction", floor=1)
    ctx.rule("R-FACADE-BUSY", "requests arriving while the facade queries are wrapped in a busy answer; none reaches the application in WAIT_RESPONSE", floor=2)
    ctx.rule("R-IDLE-RESET", "transaction identity is cleared on every return to IDLE", floor=3)
    D.admit(ctx)
    D.facade_busy(ctx)
    ctx.rule("R-FACADE-TRACK", "the facade's own state machine advances only for a DM14 it found the server idle for", floor=1)
    D.facade_track(ctx)
    D.idle_reset(ctx)
    ctx.rule("R-SETTLE-FIRST", "requester address, pointer and state are stored before the seed message goes out (an intruding DM14 processed meanwhile is refused)", floor=4)
    D.settle_first(ctx)
    return "admission guard formula and dominance, effect set of the busy branch, facade busy wrapping"
