"""Quotient/remainder case domain for segment-count expressions (R-SEG-CEIL)."""
import math
from fractions import Fraction
from sa.sym import is_const


class Unk(Exception):
    pass


class QR:
    """value = a*q + [lo, hi]  (Fractions), for n = k*q + r in one remainder case"""
    __slots__ = ("a", "lo", "hi", "isbool")

    def __init__(self, a, lo, hi, isbool=False):
        self.a, self.lo, self.hi, self.isbool = Fraction(a), Fraction(lo), Fraction(hi), isbool

    def __repr__(self):
        return "%s*q+[%s,%s]" % (self.a, self.lo, self.hi)


def qr_eval(s, nsym, k, rlo, rhi):
    def list_len(l):
        """number of elements of a list expression built from displays, concatenation and the numpy chunking idiom"""
        if l[0] == "cat":
            tot = QR(0, 0, 0)
            for part in l[1]:
                v = list_len(part)
                tot = QR(tot.a + v.a, tot.lo + v.lo, tot.hi + v.hi)
            return tot
        if l[0] == "list":
            if any(i[0] == "star" for i in l[1]):
                raise Unk("starred display")
            return QR(0, len(l[1]), len(l[1]))
        # np.reshape(np.split(arr, [cut])[0], (-1, w)).tolist() has cut / w rows (arr one-dimensional)
        NP = ("glob", "np")
        if l[0] == "call" and l[1][0] == "attr" and l[1][2] == "tolist" and not l[2]:
            h = l[1][1]
            if h[0] == "call" and h[1] == ("attr", NP, "reshape") and len(h[2]) == 2:
                src, shape = h[2]
                if shape[0] == "tuple" and len(shape[1]) == 2 and shape[1][0] == ("c", -1) and is_const(shape[1][1]) and \
                        src[0] == "sub" and src[2] == ("c", 0) and src[1][0] == "call" and src[1][1] == ("attr", NP, "split") and \
                        len(src[1][2]) == 2 and src[1][2][1][0] == "list" and len(src[1][2][1][1]) == 1:
                    w = shape[1][1][1]
                    c = ev(src[1][2][1][1][0])
                    if isinstance(w, int) and w > 0 and (c.a / w).denominator == 1 and c.lo == c.hi and (c.lo / w).denominator == 1:
                        return QR(c.a / w, c.lo / w, c.hi / w)
                    raise Unk("rows of reshape not integral")
        raise Unk("len() of unrecognised list expression")

    def ev(x):
        if x == nsym:
            return QR(k, rlo, rhi)
        t = x[0]
        if t == "c":
            v = x[1]
            if isinstance(v, bool):
                return QR(0, int(v), int(v), True)
            if isinstance(v, (int, float)):
                return QR(0, Fraction(v), Fraction(v))
            raise Unk("constant %r" % (v,))
        if t == "bin":
            op = x[1]
            a, b = ev(x[2]), ev(x[3])
            if op == "+":
                return QR(a.a + b.a, a.lo + b.lo, a.hi + b.hi)
            if op == "-":
                return QR(a.a - b.a, a.lo - b.hi, a.hi - b.lo)
            if op == "*":
                for u, v in ((a, b), (b, a)):
                    if v.a == 0 and v.lo == v.hi:
                        c = v.lo
                        lo, hi = sorted((u.lo * c, u.hi * c))
                        return QR(u.a * c, lo, hi)
                raise Unk("non-linear product")
            if op in ("/", "//", "%"):
                if not (b.a == 0 and b.lo == b.hi and b.lo != 0):
                    raise Unk("division by non-constant")
                c = b.lo
                if op == "/":
                    lo, hi = sorted((a.lo / c, a.hi / c))
                    return QR(a.a / c, lo, hi)
                if c <= 0 or (a.a / c).denominator != 1:
                    raise Unk("floor division with non-integral quotient coefficient")
                if op == "//":
                    return QR(a.a / c, math.floor(a.lo / c), math.floor(a.hi / c))
                blk = math.floor(a.lo / c)
                if math.floor(a.hi / c) != blk:
                    raise Unk("modulo range crosses a block boundary")
                return QR(0, a.lo - c * blk, a.hi - c * blk)
            raise Unk("operator %s" % op)
        if t == "un" and x[1] == "-":
            a = ev(x[2])
            return QR(-a.a, -a.hi, -a.lo)
        if t == "call":
            f = x[1]
            if f == ("glob", "int") and len(x[2]) == 1:
                a = ev(x[2][0])
                if a.a.denominator != 1:
                    raise Unk("int() of non-integral coefficient")
                # truncation toward zero; only used on non-negative values here
                if a.lo < 0 and a.a == 0:
                    return QR(0, math.ceil(a.lo) if a.lo < 0 else math.floor(a.lo), math.floor(a.hi) if a.hi >= 0 else math.ceil(a.hi))
                return QR(a.a, math.floor(a.lo), math.floor(a.hi))
            if f in (("attr", ("glob", "math"), "ceil"), ("glob", "ceil")) and len(x[2]) == 1:
                a = ev(x[2][0])
                if a.a.denominator != 1:
                    raise Unk("ceil of non-integral coefficient")
                return QR(a.a, math.ceil(a.lo), math.ceil(a.hi))
            if f in (("attr", ("glob", "math"), "floor"),) and len(x[2]) == 1:
                a = ev(x[2][0])
                if a.a.denominator != 1:
                    raise Unk("floor of non-integral coefficient")
                return QR(a.a, math.floor(a.lo), math.floor(a.hi))
            if f == ("glob", "bool") and len(x[2]) == 1:
                a = ev(x[2][0])
                if a.a == 0 and a.lo == a.hi:
                    return QR(0, int(a.lo != 0), int(a.lo != 0), True)
                if a.a == 0 and (a.lo > 0 or a.hi < 0):
                    return QR(0, 1, 1, True)
                raise Unk("bool() undetermined")
            if f == ("glob", "len") and len(x[2]) == 1:
                return list_len(x[2][0])
            if f == ("glob", "divmod"):
                raise Unk("divmod")
            raise Unk("call %r" % (f,))
        if t == "cmp":
            a, b = ev(x[2]), ev(x[3])
            d = QR(a.a - b.a, a.lo - b.hi, a.hi - b.lo)
            if d.a != 0:
                raise Unk("comparison depends on q")
            if x[1] == "<":
                if d.hi < 0:
                    return QR(0, 1, 1, True)
                if d.lo >= 0:
                    return QR(0, 0, 0, True)
            elif x[1] == "==":
                if d.lo == d.hi == 0:
                    return QR(0, 1, 1, True)
                if d.lo > 0 or d.hi < 0:
                    return QR(0, 0, 0, True)
            raise Unk("comparison undetermined in this case")
        if t == "not":
            a = ev(x[1])
            if a.a == 0 and a.lo == a.hi:
                v = int(a.lo == 0)
                return QR(0, v, v, True)
            raise Unk("not undetermined")
        if t == "ife":
            c = ev(x[1])
            if c.a == 0 and c.lo == c.hi:
                return ev(x[2]) if c.lo != 0 else ev(x[3])
            if c.a == 0 and (c.lo > 0 or c.hi < 0):
                return ev(x[2])     # truthy throughout this remainder case
            raise Unk("conditional undetermined")
        raise Unk("construct %s" % t)
    return ev(s)


def _guard_value(g, nsym, k, rlo, rhi):
    """truth of a path guard in one remainder case: True / False / None (depends on q, or not about n at all)"""
    try:
        v = qr_eval(g, nsym, k, rlo, rhi)
    except Unk:
        return None
    if v.a != 0:
        return None
    if v.lo == v.hi:
        return v.lo != 0
    if v.lo > 0 or v.hi < 0:
        return True
    return None


def ceil_div_check(s, nsym, k, guards=()):
    """-> (ok, detail).  s must be q when r == 0 and q+1 when 1 <= r <= k-1 (n = k*q + r).
    `guards` = [(sym, polarity)] of the path the expression was computed on: a remainder case the path excludes is not judged
    (the sibling path covers it)."""
    res = []
    judged = 0
    for (rlo, rhi, want) in ((0, 0, 0), (1, k - 1, 1)):
        if any(_guard_value(g, nsym, k, rlo, rhi) is (not p) for g, p in guards):
            continue
        judged += 1
        v = qr_eval(s, nsym, k, rlo, rhi)
        res.append((rlo, rhi, v))
        if not (v.a == 1 and v.lo == v.hi == want):
            return False, "for n = %d*q + r with r in [%d,%d] the expression evaluates to %r, expected q+%d" % (
                k, rlo, rhi, v, want)
    if judged == 0:
        raise Unk("the path excludes every remainder case")
    return True, "r=0 -> q ; r in [1,%d] -> q+1" % (k - 1) if judged == 2 else "the remainder case of this path"
