"""ControllerApplication / addressing rules (C04, C05, C13, C14)."""
import ast
from sa.sym import SELF, is_const, cval, pretty, walk, contains, root_field, mk_cmp, mk_not, mk_bool, mk_bin
from sa.model import AnalysisError
from sa import guards as G
from sa.bits import BV, BitEval
from .common import mname, is_self_call, lensym, sub, field, affine_diff, bind_args, runs, lits, loc, Sinks
from .layout import resolve_objects, check_id, param_leaf

CA = "ControllerApplication"
NORMAL, NONE_, WAIT_VETO, CANNOT = 2, 0, 1, 3
GLOBAL, NULL = ("c", 255), ("c", 254)
STATE_F = field("_device_address_state")
ADDR_F = field("_device_address")
ANN_F = field("_device_address_announced")
PREF_F = field("_device_address_preferred")


def ca_consts(ctx):
    P = ctx.prog
    st = P.cls("ControllerApplication.State").consts
    want = {"NONE": 0, "WAIT_VETO": 1, "NORMAL": 2, "CANNOT_CLAIM": 3}
    for k in want:
        if k not in st:
            raise AnalysisError("anchor vanished: ControllerApplication.State.%s" % k)
    if len(set(st[k] for k in want)) != 4:
        raise AnalysisError("ControllerApplication.State members are not distinct")
    return st


def inline_props(ctx, func, s):
    """self.state -> self._device_address_state etc. (trivial getters only)"""
    P, cg = ctx.prog, ctx.cg

    def fn(x):
        if x[0] == "attr":
            ts = cg.types_of(x[1], func)
            tgt = set()
            for t in ts:
                g = P.top_classes[t].getters.get(x[2])
                if g is None:
                    return None
                body = [st for st in g.node.body if not (isinstance(st, ast.Expr) and isinstance(st.value, ast.Constant))]
                if len(body) == 1 and isinstance(body[0], ast.Return) and isinstance(body[0].value, ast.Attribute) \
                        and isinstance(body[0].value.value, ast.Name) and body[0].value.value.id == "self":
                    tgt.add(body[0].value.attr)
                else:
                    return None
            if len(tgt) == 1:
                return ("attr", x[1], tgt.pop())
        return None
    return G.renorm(G.subst(s, fn))


def iguards(ctx, func, run, upto=None):
    return [(inline_props(ctx, func, g), p) for g, p in run.guards(upto)]


def _sink_calls(ctx, func, run):
    """calls on `run` that go to the ECU's send_message / send_pgn"""
    P = ctx.prog
    qs = {P.func("ElectronicControlUnit", "send_message").qual, P.func("ElectronicControlUnit", "send_pgn").qual}
    out = []
    for i, e in run.effects():
        if e.kind == "call":
            t, _ = ctx.cg.resolve(e.value, func)
            if any(x.qual in qs for x in t):
                out.append((i, e, [x for x in t if x.qual in qs][0]))
    return out


# --------------------------------------------------------------------------- C13
def send_sinks(ctx, rule="R-SEND-SINKS"):
    P = ctx.prog
    ecu_send = {P.func("ElectronicControlUnit", "send_message").qual, P.func("ElectronicControlUnit", "send_pgn").qual}
    allowed = {"send_message", "send_pgn", "send_request", "_send_address_claimed"}
    found = set()
    n_service = 0
    for fn in P.all_funcs():
        if fn.cls is None:
            continue
        owner = fn.cls.name
        for s in ctx.cg.sites.get(fn.qual, []):
            if any(t.qual in ecu_send for t in s.targets):
                if owner == CA:
                    found.add(fn.name)
                    if fn.name not in allowed:
                        ctx.violated(rule, fn, "bus sink reached from ControllerApplication.%s" % fn.name,
                                     "a method outside the guarded send entry points hands a frame to the ECU", s.node)
                elif owner in ("ElectronicControlUnit", "J1939_21", "J1939_22", "MessageListener"):
                    pass
                else:
                    ctx.violated(rule, fn, "%s.%s sends through the ECU directly" % (owner, fn.name),
                                 "a service bypasses the controller application's state guard", s.node)
            # services must go through the CA's guarded entry points
            if owner not in (CA, "ElectronicControlUnit", "J1939_21", "J1939_22", "MessageListener"):
                if any(t.cls is not None and t.cls.name == CA and t.name in ("send_pgn", "send_request", "send_message") for t in s.targets):
                    n_service += 1
                    ctx.holds(rule, "service %s.%s sends through ca.%s" % (owner, fn.name, [t.name for t in s.targets][0]))
        if owner not in (CA, "ElectronicControlUnit", "J1939_21", "J1939_22", "MessageListener"):
            for n in ast.walk(fn.node):
                if isinstance(n, ast.Attribute) and n.attr in ("_ecu", "j1939_dll"):
                    ctx.violated(rule, fn, "%s.%s reaches below the controller application (%s)" % (owner, fn.name, n.attr),
                                 "a service touches the ECU / data link layer directly, bypassing the claim-state guard", n)
    for a in allowed:
        if a in found:
            ctx.holds(rule, "ControllerApplication.%s is a guarded send entry point" % a)
        else:
            ctx.unknown(rule, "send entry point ControllerApplication.%s no longer reaches the bus" % a)
    if n_service < 6:
        ctx.unknown(rule, "only %d service send sites found" % n_service)


def send_guard(ctx, rule="R-SEND-GUARD", rule_src="R-SEND-SRC"):
    P = ctx.prog
    st = ca_consts(ctx)
    normal = mk_cmp("==", STATE_F, ("c", st["NORMAL"]))
    claim = mk_cmp("==", ("p", "pgn"), ("c", 0xEE00))
    for name in ("send_message", "send_pgn", "send_request"):
        f = P.func(CA, name)
        n = 0
        for r in runs(ctx, f):
            sk = _sink_calls(ctx, f, r)
            if not sk:
                if r.term not in ("raise",):
                    ctx.violated(rule, f, "%s path without send" % name, "a path neither sends nor raises", f.node)
                continue
            n += 1
            i, e, tgt = sk[0]
            F = G.conj(iguards(ctx, f, r, i))
            want = normal if name != "send_request" else mk_bool("or", [normal, claim])
            ok, cex = G.implies(F, want)
            inst = "ControllerApplication.%s: bus sink dominated by %s" % (name, "state == NORMAL" if name != "send_request" else "state == NORMAL or pgn == ADDRESSCLAIM")
            if ok:
                ctx.holds(rule, inst)
            else:
                ctx.violated(rule, f, inst, "a frame can be sent while the CA holds no address; counterexample %s" % cex, e.node, witness=cex)
            # source address provenance
            if tgt.name == "send_pgn":
                a = bind_args(e.value, tgt)
                srcv = a.get("src_address")
            else:
                idsym = e.value[2][0] if e.value[2] else None
                srcv = None
                if idsym is not None and idsym[0] == "attr" and idsym[1][0] == "call":
                    srcv = dict(idsym[1][3]).get("source_address")
                elif idsym is not None:
                    # the identifier composed arithmetically: its bits 0..7 in the bit-provenance domain
                    def _leaf(x):
                        if x == ADDR_F:
                            return BV.input("HELD")
                        if x[0] == "p":
                            return BV.input("p_" + x[1])
                        return None
                    try:
                        bv = BitEval(_leaf).ev(idsym)
                        BitEval.pop_lossy()
                        low = bv.window(0, 8)
                        if low == [("b", "HELD", i) for i in range(8)]:
                            srcv = ADDR_F
                        elif all(b in (0, 1) for b in low):
                            srcv = ("c", sum(b << i for i, b in enumerate(low)))
                        elif BV(low, 0).has_top():
                            ctx.unknown(rule_src, "ControllerApplication.%s: source address bits of the identifier %s not interpretable" % (name, pretty(idsym)[:60]))
                            continue
                    except AnalysisError:
                        pass
            inst2 = "ControllerApplication.%s: source address is the held address" % name
            if name == "send_request":
                is_norm, _ = G.implies(F, normal)
                not_norm, _ = G.implies(F, mk_not(normal))
                if not is_norm and not not_norm and srcv is not None and srcv[0] == "ife":
                    # one path for both cases, the source chosen by a conditional expression: decide each case under its condition
                    from .common import resolve_under
                    sv = inline_props(ctx, f, srcv)
                    s_n = resolve_under(sv, mk_bool("and", [F, normal]))
                    s_o = resolve_under(sv, mk_bool("and", [F, mk_not(normal)]))
                    if s_n == ADDR_F and s_o == NULL:
                        ctx.holds(rule_src, inst2 + " (operational)")
                        ctx.holds(rule_src, "ControllerApplication.send_request: request for address claim goes out from the null address 254")
                    else:
                        ctx.violated(rule_src, f, inst2, "request sent from %s when operational and from %s otherwise (expected the held address / 254)" % (
                            pretty(s_n), pretty(s_o)), e.node)
                elif is_norm:
                    if srcv == ADDR_F:
                        ctx.holds(rule_src, inst2 + " (operational)")
                    else:
                        ctx.violated(rule_src, f, inst2 + " (operational)", "request sent from %s" % pretty(srcv), e.node)
                else:
                    if srcv == NULL:
                        ctx.holds(rule_src, "ControllerApplication.send_request: request for address claim goes out from the null address 254")
                    else:
                        ctx.violated(rule_src, f, "send_request (not operational)", "request for address claim sent from %s, expected 254" % pretty(srcv), e.node)
            else:
                if srcv == ADDR_F:
                    ctx.holds(rule_src, inst2)
                else:
                    ctx.violated(rule_src, f, inst2, "frame carries source address %s, not self._device_address" % pretty(srcv), e.node)
        if n == 0:
            ctx.unknown(rule, "no sending path in %s" % f.qual)


def claim_only(ctx, rule="R-CLAIM-ONLY"):
    """_send_address_claimed emits exactly PGN (0, 238, 255) with the NAME bytes"""
    P = ctx.prog
    f = P.func(CA, "_send_address_claimed")
    for r in runs(ctx, f):
        for i, e, tgt in _sink_calls(ctx, f, r):
            idsym = e.value[2][0]
            check_id(ctx, rule, f, "address-claimed frame", idsym, (6, 238, 255, "address"), {}, e.node)
            data = e.value[2][2] if len(e.value[2]) > 2 else None
            if data == ("attr", field("_name"), "bytes"):
                ctx.holds(rule, "address-claimed payload = NAME bytes")
            else:
                ctx.violated(rule, f, "address-claimed payload", "payload is %s, expected self._name.bytes" % pretty(data), e.node)


def normal_pair(ctx, rule="R-NORMAL-PAIR"):
    """state NORMAL is always stored together with the held address; losing the address leaves NORMAL"""
    P = ctx.prog
    st = ca_consts(ctx)
    n = 0
    for name in ("__init__", "_process_claim_async", "_process_addressclaim"):
        f = P.func(CA, name)
        for r in runs(ctx, f):
            ss = [(i, e) for i, e in r.effects() if e.kind == "store" and e.target == STATE_F]
            aa = [(i, e) for i, e in r.effects() if e.kind == "store" and e.target == ADDR_F]
            for i, e in ss:
                if e.value[0] == "ife" and ("c", st["NORMAL"]) in (e.value[2], e.value[3]):
                    # state chosen by a conditional expression: decide the NORMAL case under its condition
                    from .common import resolve_under
                    cnd = e.value[1] if e.value[2] == ("c", st["NORMAL"]) else mk_not(e.value[1])
                    n += 1
                    inst = "%s: NORMAL stored together with the held address" % name
                    vals = [resolve_under(x.value, cnd) for _, x in aa]
                    if vals and vals[-1] not in (NULL, ("c", None)) and (vals[-1] in (ANN_F, PREF_F, ("p", "device_address_preferred")) or vals[-1][0] != "c"):
                        ctx.holds(rule, inst)
                    else:
                        ctx.violated(rule, f, inst, "state becomes NORMAL under %s while the held address is %s" % (pretty(cnd)[:50], pretty(vals[-1]) if vals else "not set"), e.node)
                    continue
                if e.value == ("c", st["NORMAL"]):
                    n += 1
                    inst = "%s: NORMAL stored together with the held address" % name
                    good = [x for _, x in aa if x.value in (ANN_F, PREF_F, ("p", "device_address_preferred"))
                            or (x.value[0] not in ("c",) and x.value != NULL)]
                    if good and aa[-1][1].value not in (NULL, ("c", None)):
                        # readers on the other thread test the state first and then use the address: outside the constructor the
                        # address has to be in place before the state says NORMAL
                        late = [j for j, x in aa if j > i and x.value not in (NULL, ("c", None))]
                        early = [j for j, x in aa if j < i and x.value not in (NULL, ("c", None))]
                        if name != "__init__" and late and not early:
                            ctx.violated(rule, f, inst + " (address first)", "the state becomes NORMAL before the held address is stored: a request or an "
                                         "application send handled by another thread in between sees an operational CA that still holds the null address "
                                         "(answers from 254 / drops a request to the address just won)", e.node)
                        else:
                            ctx.holds(rule, inst)
                    else:
                        ctx.violated(rule, f, inst, "state becomes NORMAL on a path that does not set the held address to the announced one", e.node)
            if name == "_process_addressclaim":
                cleared = [x for _, x in aa if x.value in (NULL, ("c", None))]
                if cleared:
                    inst = "_process_addressclaim: losing the address leaves NORMAL"
                    last = ss[-1][1].value if ss else None
                    if last in (("c", st["CANNOT_CLAIM"]), ("c", st["WAIT_VETO"])):
                        ctx.holds(rule, inst + " (-> %s)" % ("CANNOT_CLAIM" if last == ("c", st["CANNOT_CLAIM"]) else "WAIT_VETO"))
                    else:
                        ctx.violated(rule, f, inst, "the held address is cleared but the state stays %s: sends are still allowed, now from the null address" % (
                            pretty(last) if last else "unchanged (NORMAL)"), cleared[0].node)
    if n < 3:
        ctx.unknown(rule, "only %d NORMAL stores found" % n)


# --------------------------------------------------------------------------- C14
def request_layout(ctx, rule="R-LAYOUT"):
    P = ctx.prog
    f = P.func(CA, "send_request")
    be = BitEval(param_leaf())
    done = False
    for r in runs(ctx, f):
        for i, e, tgt in _sink_calls(ctx, f, r):
            if done:
                continue
            done = True
            a = bind_args(e.value, tgt)
            data = a.get("data")
            inst = "request payload = 3 bytes PGN little-endian"
            if data is None or data[0] != "list" or len(data[1]) != 3:
                ctx.violated(rule, f, inst, "payload is %s" % pretty(data), e.node)
            else:
                pr = []
                for k, b in enumerate(data[1]):
                    bv = be.ev(b)
                    if bv.window(0, 8) != [("b", "pgn", 8 * k + j) for j in range(8)] or bv.width() is None or bv.width() > 8:
                        pr.append("byte %d = %s" % (k, bv.describe()))
                if pr:
                    ctx.violated(rule, f, inst, "; ".join(pr), e.node)
                else:
                    ctx.holds(rule, inst)
            pf, ps, prio = a.get("pdu_format"), a.get("pdu_specific"), a.get("priority")
            inst = "request goes to PF 0xEA with the destination in PS, priority 6"
            psb = be.ev(ps) if ps else None
            if pf == ("c", 0xEA) and prio == ("c", 6) and psb is not None and psb.window(0, 8) == [("b", "destination", j) for j in range(8)] and psb.width() == 8:
                ctx.holds(rule, inst)
            else:
                ctx.violated(rule, f, inst, "PF=%s PS=%s priority=%s" % (pretty(pf), pretty(ps), pretty(prio)), e.node)
            if a.get("data_page") != ("p", "data_page"):
                ctx.violated(rule, f, "request data page", "data page argument is %s" % pretty(a.get("data_page")), e.node)
    # decoder
    g = P.func(CA, "_process_request")
    dec = _decoded_pgn(ctx, g)
    inst = "request decoder reads the same three bytes little-endian"
    if dec is None:
        ctx.unknown(rule, "decoded PGN not found in %s" % g.qual)
    else:
        def leaf(s):
            if s[0] == "sub" and s[1] == ("p", "data") and is_const(s[2]):
                return BV.input("d%d" % s[2][1], 8)
            return None
        bv = BitEval(leaf).ev(dec)
        want = [("b", "d%d" % (k // 8), k % 8) for k in range(24)]
        if bv.window(0, 24) == want and bv.width() is not None and bv.width() <= 24:
            ctx.holds(rule, inst)
        else:
            ctx.violated(rule, g, inst, "decoded as %s" % bv.describe(), g.node)


def _decoded_pgn(ctx, g):
    for r in runs(ctx, g):
        for i, e in r.effects():
            if e.kind == "call" and e.value[1][0] == "iter" and len(e.value[2]) == 3:
                return e.value[2][2]
    return None


def ca_elem(obj):
    """classify a receiver as an element of the stack's CA list:
       ("all", None)        - iterates every CA (direct, through list()/tuple()/copy/slice, or by index over range(len))
       ("filtered", conds)  - iterates a comprehension over the CA list with the given filter conditions (comp var = iter(_cas))
       None                 - something else"""
    CAS = field("_cas")

    def whole(x):
        if x == CAS:
            return True
        if x[0] == "call" and x[1][0] == "glob" and x[1][1] in ("list", "tuple", "reversed") and len(x[2]) == 1:
            return x[1][1] != "reversed" and whole(x[2][0])
        if x[0] == "call" and x[1][0] == "attr" and x[1][2] == "copy" and not x[2]:
            return whole(x[1][1])
        if x[0] == "sub" and x[2][0] == "slice" and x[2][1:] == (None, None, None):
            return whole(x[1])
        return False
    if obj[0] == "iter":
        src = obj[1]
        if whole(src):
            return ("all", None)
        if src[0] == "comp" and len(src[2]) == 1 and whole(src[2][0][0]) and src[1][0] == "iter" and whole(src[1][1]):
            return ("filtered", tuple(src[2][0][1])) if src[2][0][1] else ("all", None)
        return None
    if obj[0] == "sub" and whole(obj[1]) and obj[2][0] == "iter":
        rng = obj[2][1]
        if rng[0] == "call" and rng[1] == ("glob", "range") and len(rng[2]) == 1 and rng[2][0][0] == "call" and rng[2][0][1] == ("glob", "len") and \
                len(rng[2][0][2]) == 1 and whole(rng[2][0][2][0]):
            return ("all", None)
    return None


def req_dispatch(ctx, cls, rule="R-REQ-DISPATCH"):
    P = ctx.prog
    f = P.func(cls, "notify")
    n = 0
    for r in runs(ctx, f):
        for i, e in r.effects():
            if e.kind == "call" and mname(e.value) == "_process_request":
                n += 1
                caobj = e.value[1][1]
                inst = "%s.notify: request dispatched to every CA that accepts the destination" % cls
                acc = ("call", ("attr", caobj, "message_acceptable"), (_dest_of(r),), ())
                gl = lits(r.guards(i))
                kind = ca_elem(caobj)
                ok = kind is not None and kind[0] == "all" and (acc, True) in gl
                if kind is not None and kind[0] == "filtered":
                    # the list iterated is already restricted to the accepting CAs
                    ok = kind[1] == (("call", ("attr", ("iter", field("_cas")), "message_acceptable"), (_dest_of(r),), ()),)
                a = e.value[2]
                okargs = len(a) >= 3 and a[0][0] == "call" and a[0][1] == ("clsref", "MessageId") and a[1] == _dest_of(r) and a[2] == ("p", "data")
                if ok and okargs:
                    ctx.holds(rule, inst)
                else:
                    ctx.violated(rule, f, inst, "request handler call is not guarded by ca.message_acceptable(dest) over all CAs, or is not given (mid, dest, data)", e.node)
    if n == 0:
        ctx.violated(rule, f, "%s.notify request branch" % cls, "requests are never dispatched to the controller applications", f.node)


def _dest_of(run):
    """Sym of dest_address in notify (pgn.pdu_specific)"""
    return ("attr", ("call", ("clsref", "ParameterGroupNumber"), (), ()), "pdu_specific")


def req_guard(ctx, rule="R-REQ-GUARD", rule_fan="R-REQ-FANOUT"):
    P = ctx.prog
    st = ca_consts(ctx)
    f = P.func(CA, "_process_request")
    dest = ("p", "dest_address")
    normal = mk_cmp("==", STATE_F, ("c", st["NORMAL"]))
    want = mk_bool("and", [normal, mk_bool("or", [mk_cmp("==", ADDR_F, dest), mk_cmp("==", dest, GLOBAL)])])
    sa = ("attr", ("p", "mid"), "source_address")
    n = 0
    for r in runs(ctx, f, unroll=2):
        cbs = [(i, e) for i, e in r.effects() if e.kind == "call" and e.value[1][0] == "iter" and e.value[1][1] == field("_subscribers_request")]
        ans = [(i, e) for i, e in r.effects() if e.kind == "call" and e.value[1] == ("attr", SELF, "_send_address_claimed")]
        if not cbs and not ans:
            continue
        n += 1
        i = (cbs or ans)[0][0]
        F = G.conj(iguards(ctx, f, r, i))
        ok, cex = G.implies(F, want)
        inst = "_process_request: %s dominated by state == NORMAL and (held address == dest or dest == GLOBAL)" % ("claim answer" if ans else "callback fan-out")
        if ok:
            ctx.holds(rule, inst)
        else:
            ctx.violated(rule, f, inst, "a CA that does not own the destination (or holds no address) reacts to the request; counterexample %s" % cex,
                         (cbs or ans)[0][1].node, witness=cex)
        dec = None
        if cbs:
            dec = cbs[0][1].value[2][2] if len(cbs[0][1].value[2]) == 3 else None
        decoded = _decoded_pgn(ctx, f)
        claimlit = [(g, p) for g, p in lits(r.guards(i)) if g[0] == "cmp" and g[1] == "==" and ("c", 0xEE00) in (g[2], g[3])]
        loose = [g for g, p in claimlit if decoded is not None and decoded not in (g[2], g[3])]
        if loose:
            ctx.violated(rule_fan, f, "claim-answer test compares the whole requested PGN", "the address-claim branch is selected by %s, not by "
                         "requested PGN == 0xEE00: other PGNs are answered with a claim and never reach the callbacks" % pretty(loose[0])[:100],
                         (cbs or ans)[0][1].node)
            continue
        if ans:
            inst = "_process_request: address-claim request answered from the held address, no callbacks"
            if cbs:
                ctx.violated(rule_fan, f, inst, "request callbacks are invoked for the address-claim PGN", cbs[0][1].node)
            elif not claimlit or not claimlit[0][1]:
                ctx.violated(rule_fan, f, inst, "claim answer is not conditioned on pgn == ADDRESSCLAIM", ans[0][1].node)
            elif ans[0][1].value[2] != (ADDR_F,):
                ctx.violated(rule_fan, f, inst, "address-claimed frame sent from %s" % pretty(ans[0][1].value[2][0]), ans[0][1].node)
            else:
                ctx.holds(rule_fan, inst)
        else:
            inst = "_process_request: each request callback called once with (requester, destination, pgn)"
            ids = [e.value[1] for _, e in cbs]
            bad = None
            if len(set(ids)) != len(ids):
                bad = "a callback is invoked twice for one request"
            for _, e in cbs:
                a = e.value[2]
                if len(a) != 3 or a[0] != sa or a[1] != dest:
                    bad = "callback arguments are (%s)" % ", ".join(pretty(x)[:30] for x in a)
            if claimlit and claimlit[0][1]:
                bad = "callbacks run on the address-claim branch"
            if bad:
                ctx.violated(rule_fan, f, inst, bad, cbs[0][1].node)
            else:
                ctx.holds(rule_fan, inst)
    # converse: an operational CA that owns the destination does react - no path that neither answers nor reaches the callback
    # fan-out is compatible with the guard (requesters hold an address 0..253 or use the null address 254)
    if n >= 2:
        inst = "_process_request: every operational CA owning the destination reacts (requester 0..254)"
        req_alias = {t.id for x in ast.walk(f.node) if isinstance(x, ast.Assign) and any(
            isinstance(y, ast.Attribute) and y.attr == "_subscribers_request" for y in ast.walk(x.value)) for t in x.targets if isinstance(t, ast.Name)}
        badp = None
        for r in runs(ctx, f, unroll=2):
            if r.term in ("raise", "exc"):
                continue
            reacts = any(e.kind == "call" and e.value[1] == ("attr", SELF, "_send_address_claimed") for _, e in r.effects()) or any(
                rec.ev.kind == "for" and isinstance(rec.ev.node, ast.For) and any(
                    (isinstance(x, ast.Attribute) and x.attr == "_subscribers_request") or (isinstance(x, ast.Name) and x.id in req_alias)
                    for x in ast.walk(rec.ev.node.iter)) for rec in r.recs) or any(
                e.kind == "call" and e.value[1][0] == "iter" and e.value[1][1] == field("_subscribers_request") for _, e in r.effects())
            if reacts:
                continue
            F = mk_bool("and", [want, G.conj(iguards(ctx, f, r)), mk_cmp("<", sa, ("c", 255))])
            try:
                sat = G.satisfiable(F)
            except AnalysisError as ex:
                ctx.unknown(rule, "converse of the request guard: %s" % ex)
                badp = "?"
                break
            if sat:
                badp = r
                break
        if badp is None:
            ctx.holds(rule, inst)
        elif badp != "?":
            gl = [pretty(g if p else mk_not(g))[:70] for g, p in iguards(ctx, f, badp)]
            ctx.violated(rule, f, inst, "a path leaves the handler without answer or callback although the CA is operational and owns the destination: "
                         "it is taken when %s" % " and ".join(gl[:4]), f.node)
    if n < 2:
        ctx.unknown(rule, "reaction paths not found in %s (%d)" % (f.qual, n))


# --------------------------------------------------------------------------- C05
def listener_gate(ctx, rule="R-LISTENER-GATE"):
    P = ctx.prog
    f = P.func("MessageListener", "on_message_received")
    msg = ("p", "msg")
    want = mk_bool("and", [mk_not(field("stopped")), mk_not(("attr", msg, "is_error_frame")), mk_not(("attr", msg, "is_remote_frame")),
                           ("attr", msg, "is_extended_id")])
    n = 0
    for r in runs(ctx, f):
        for i, e in r.effects():
            if e.kind == "call" and mname(e.value) == "notify":
                n += 1
                F = G.conj(r.guards(i))
                ok, cex = G.implies(F, want)
                inst = "bus listener processes only running, non-error, non-remote, extended-ID frames"
                if ok:
                    ctx.holds(rule, inst)
                else:
                    ctx.violated(rule, f, inst, "a frame reaches the stack although %s" % cex, e.node, witness=cex)
                a = e.value[2]
                if a != (("attr", msg, "arbitration_id"), ("attr", msg, "data"), ("attr", msg, "timestamp")):
                    ctx.violated(rule, f, "listener hands over (id, data, timestamp)", "arguments are %s" % [pretty(x) for x in a], e.node)
    if n == 0:
        ctx.unknown(rule, "notify call not found in %s" % f.qual)


def _pdu_norm(s):
    def fn(x):
        if x[0] == "attr" and x[2] == "is_pdu1_format":
            return mk_not(("attr", x[1], "is_pdu2_format"))
        return None
    return G.renorm(G.subst(s, fn))


def filter_first(ctx, cls, rule="R-FILTER-FIRST"):
    P = ctx.prog
    f = P.func(cls, "notify")
    dest = _dest_of(None)
    pdu2 = ("attr", ("call", ("clsref", "ParameterGroupNumber"), (), ()), "is_pdu2_format")
    handlers = {"_process_tp_cm", "_process_tp_dt", "_process_multi_pg", "_process_addressclaim", "_process_request", "__notify_subscribers"}
    n = 0
    rej = 0
    for r in runs(ctx, f):
        ng = [(_pdu_norm(g), p) for g, p in r.guards()]
        gl = lits(ng)
        calls = [(i, e) for i, e in r.effects() if e.kind == "call" and mname(e.value) in handlers]
        is_global = (mk_cmp("==", dest, GLOBAL), True) in gl
        def is_acc(x):
            return x[0] == "call" and mname(x) in ("__ecu_is_message_acceptable", "message_acceptable") and x[2] == (dest,)
        acc_atoms = []
        for g, _ in ng:
            for a in G.atoms(g):
                if is_acc(a):
                    acc_atoms.append(a)
                elif a[0] == "call" and a[1] == ("glob", "any") and len(a[2]) == 1 and a[2][0][0] == "comp" and is_acc(a[2][0][1]):
                    acc_atoms.append(a)     # any(ca.message_acceptable(dest) for ca in ...): some CA accepts
        if calls:
            n += 1
            i, e = calls[0]
            inst = "%s.notify: dispatch is dominated by the destination filter (or the frame is PDU2)" % cls
            Fi = G.conj([(_pdu_norm(g), p) for g, p in r.guards(i)])
            want = mk_bool("or", [mk_cmp("==", dest, GLOBAL), pdu2] + acc_atoms)
            ok, cex = G.implies(Fi, want)
            if ok:
                ctx.holds(rule, inst)
            else:
                ctx.violated(rule, f, inst, "%s is reached for a destination-specific frame nobody here owns; counterexample %s" % (mname(e.value), cex), e.node, witness=cex)
            if G.implies(Fi, pdu2)[0] and mname(e.value) == "__notify_subscribers":
                a = bind_args(e.value, P.func("ElectronicControlUnit", "_notify_subscribers"))
                if a.get("dest") != GLOBAL:
                    ctx.violated(rule, f, "%s.notify PDU2 delivery" % cls, "a PDU2 frame is delivered with destination %s instead of GLOBAL" % pretty(a.get("dest")), e.node)
                else:
                    ctx.holds(rule, "%s.notify: PDU2 frames are delivered as broadcasts" % cls)
        elif r.term == "return" and not is_global and acc_atoms:
            # the rejecting exit
            rej += 1
            eff = [e for _, e in r.effects() if e.kind in ("store", "aug", "del") or (e.kind == "call" and mname(e.value) in handlers)]
            inst = "%s.notify: rejecting exit is effect-free" % cls
            if eff:
                ctx.violated(rule, f, inst, "the filter's rejecting path has an effect (%s)" % pretty(eff[0].target or eff[0].value)[:60], eff[0].node)
            else:
                ctx.holds(rule, inst)
            inst = "%s.notify: a PDU2 frame is never filtered by its PS byte" % cls
            if G.implies(G.conj(ng), mk_not(pdu2))[0]:
                ctx.holds(rule, inst)
            else:
                ctx.violated(rule, f, inst, "the destination filter is applied before the PDU2 test: for PF >= 240 the PS byte is a group "
                             "extension, not a destination, and such broadcasts are dropped unless PS happens to be a local address",
                             r.recs[-1].ev.node)
    if n < 4 or rej < 1:
        ctx.unknown(rule, "dispatch/reject paths not found in %s (%d/%d)" % (f.qual, n, rej))


def subscriber_rule(ctx, rule="R-SUBSCRIBER-RULE"):
    P = ctx.prog
    st = ca_consts(ctx)
    f = P.func("ElectronicControlUnit", "_notify_subscribers")
    dest = ("p", "dest")
    n = 0
    # reaching condition of the callback call within one loop iteration = OR over the paths that make the call
    reach, miss, item, node = [], [], None, None
    for r in runs(ctx, f):
        iters = [j for j, rec in enumerate(r.recs) if rec.ev.kind == "for" and rec.ev.pol == "iter"]
        if len(iters) != 1:
            continue
        j0 = iters[0]
        calls = [(i, e) for i, e in r.effects() if i > j0 and e.kind == "call" and e.value[1][0] == "sub" and e.value[1][2] == ("c", "cb")]
        conds = [(rec.cond, rec.pol) for rec in r.recs[j0:] if rec.cond is not None and rec.pol is not None]
        if calls:
            n += 1
            i, e = calls[0]
            item, node = e.value[1][1], e.node
            reach.append(G.conj([(g, p) for k, (g, p) in enumerate(conds)
                                 if r.recs.index(next(rec for rec in r.recs[j0:] if rec.cond is g)) < i]))
            a = e.value[2]
            if a != (("p", "priority"), ("p", "pgn"), ("p", "sa"), ("p", "timestamp"), ("p", "data")):
                ctx.violated(rule, f, "listener arguments", "callback arguments are %s" % [pretty(x) for x in a], e.node)
            if len(calls) > 1:
                ctx.violated(rule, f, "listener called once per message", "a listener is called %d times for one message" % len(calls), e.node)
        else:
            miss.append(G.conj(conds))
    if n == 0 or item is None:
        ctx.unknown(rule, "callback call not found in %s" % f.qual)
    else:
        dev = ("sub", item, ("c", "dev_adr"))
        want = mk_bool("or", [mk_cmp("==", dev, ("c", None)), mk_cmp("==", dest, GLOBAL),
                              mk_bool("and", [("call", ("glob", "callable"), (dev,), ()), ("call", dev, (dest,), ())]),
                              mk_cmp("==", dest, dev)])
        Fc = G.disj(reach)
        inst = "per-listener rule: no address, broadcast, predicate accepts, or address equals destination"
        try:
            ok, cex = G.equivalent(Fc, want)
        except AnalysisError as ex:
            ok, cex = None, str(ex)
        if ok is None:
            ctx.unknown(rule, "per-listener condition too large for a truth table: %s" % cex)
        elif ok:
            ctx.holds(rule, inst)
        else:
            ctx.violated(rule, f, inst, "delivery condition %s differs from the rule; counterexample %s" % (pretty(Fc)[:120], cex), node, witness=cex)
    # CA.subscribe registers its own predicate
    g = P.func(CA, "subscribe")
    ok = False
    for r in runs(ctx, g):
        for i, e in r.effects():
            if e.kind == "call" and mname(e.value) == "subscribe" and e.value[2] == (("p", "callback"), ("attr", SELF, "message_acceptable")):
                ok = True
    if ok:
        ctx.holds(rule, "ControllerApplication.subscribe registers message_acceptable as the listener's predicate")
    else:
        ctx.violated(rule, g, "ControllerApplication.subscribe predicate", "CA listeners are not bound to the CA's own acceptance predicate", g.node)
    message_acceptable_rule(ctx, rule)
    # ECU-level address listeners
    a = P.func("ElectronicControlUnit", "_is_message_acceptable")
    ok = False
    bad = False
    shape = False
    for r in runs(ctx, a):
        ret = [e for _, e in r.effects() if e.kind == "ret"]
        if not ret:
            continue
        v = ret[-1].value
        if v == ("c", True):
            shape = True
            gl = lits(r.guards())
            if any(p and g[0] == "cmp" and g[1] == "==" and ("p", "dest") in (g[2], g[3]) and any(
                    x[0] == "sub" and x[2] == ("c", "dev_adr") for x in (g[2], g[3])) for g, p in gl):
                ok = True
            else:
                bad = True
        elif v[0] == "call" and v[1] == ("glob", "any") and len(v[2]) == 1 and v[2][0][0] == "comp":
            shape = True
            elt, gens = v[2][0][1], v[2][0][2]
            g = elt
            if g[0] == "cmp" and g[1] == "==" and ("p", "dest") in (g[2], g[3]) and any(
                    x[0] == "sub" and x[2] == ("c", "dev_adr") for x in (g[2], g[3])) and len(gens) == 1 and gens[0][0] == field("_subscribers") and not gens[0][1]:
                ok = True
            else:
                bad = True
    # an acceptance predicate answered from a separate index of the registry: the index has to follow every change of the registry
    import ast as _ast
    MUT = {"append", "remove", "add", "discard", "pop", "clear", "extend", "insert", "update", "difference_update", "intersection_update",
           "setdefault", "popitem", "subtract"}

    def mutated(fn):
        out = set()
        for n in _ast.walk(fn.node):
            t = None
            if isinstance(n, _ast.Attribute) and isinstance(n.ctx, (_ast.Store, _ast.Del)):
                t = n
            elif isinstance(n, _ast.Subscript) and isinstance(n.ctx, (_ast.Store, _ast.Del)):
                t = n.value
            elif isinstance(n, _ast.Call) and isinstance(n.func, _ast.Attribute) and n.func.attr in MUT:
                t = n.func.value
            while isinstance(t, _ast.Subscript):
                t = t.value
            if isinstance(t, _ast.Attribute) and isinstance(t.value, _ast.Name) and t.value.id == "self":
                out.add(t.attr)
        return out
    cls = P.cls("ElectronicControlUnit")
    idx = {n.attr for n in _ast.walk(a.node) if isinstance(n, _ast.Attribute) and isinstance(n.value, _ast.Name) and n.value.id == "self"
           and isinstance(n.ctx, _ast.Load)} - {"_subscribers"} - set(cls.methods)
    for F in sorted(idx):
        for mn, m in sorted(cls.methods.items()):
            if mn == "__init__":
                continue
            mu = mutated(m)
            if "_subscribers" in mu and F not in mu:
                ctx.violated(rule, m, "_is_message_acceptable index %s" % F, "_is_message_acceptable answers from self.%s, but %s changes the listener "
                             "registry without updating it: the acceptance of a destination no longer follows the registered listeners (an address "
                             "stays accepted after its listener is gone, or is not accepted although one is registered)" % (F, mn), m.node)
                bad = True
    if bad and not shape:
        pass
    elif not shape:
        ctx.unknown(rule, "_is_message_acceptable: result construct not recognised")
    elif ok and not bad:
        ctx.holds(rule, "_is_message_acceptable <=> some ECU-level listener is bound to exactly that address")
    else:
        ctx.violated(rule, a, "_is_message_acceptable", "ECU-level acceptance is not 'some listener's address equals the destination'", a.node)

# --------------------------------------------------------------------------- C04
def claim_table(ctx, rule="R-CLAIM-TABLE"):
    P = ctx.prog
    st = ca_consts(ctx)
    f = P.func(CA, "_process_addressclaim")
    sa = ("attr", ("p", "mid"), "source_address")
    own = ("attr", field("_name"), "value")
    isN = mk_cmp("==", STATE_F, ("c", st["NORMAL"]))
    isW = mk_cmp("==", STATE_F, ("c", st["WAIT_VETO"]))
    addressed = mk_bool("or", [mk_bool("and", [isN, mk_cmp("==", sa, ADDR_F)]), mk_bool("and", [isW, mk_cmp("==", sa, ANN_F)])])
    cap = ("attr", field("_name"), "arbitrary_address_capable")
    rows = {}
    for r in runs(ctx, f):
        F = G.conj(r.guards())
        cont = [x for g, _ in r.guards() for x in walk(g) if x[0] == "attr" and x[2] == "value" and x[1][0] == "call" and x[1][1] == ("clsref", "Name")]
        stores = [(e.target, e.value) for _, e in r.effects() if e.kind in ("store", "aug")]
        from .common import resolve_under
        sends = [tuple(resolve_under(a, F) for a in e.value[2]) for _, e in r.effects()
                 if e.kind == "call" and e.value[1] == ("attr", SELF, "_send_address_claimed")]
        is_addr, _ = G.implies(F, addressed)
        not_addr, _ = G.implies(F, mk_not(addressed))
        node = r.recs[-1].ev.node if r.recs else f.node
        if not_addr:
            row = "not addressed (other address / other state)"
            if stores or sends:
                ctx.violated(rule, f, row, "a claim for an address this CA neither holds nor announces changes its state or makes it transmit", node)
            else:
                rows[row] = True
            continue
        if not is_addr and not cont:
            _, cex = G.implies(F, mk_not(addressed))
            if stores or sends:
                ctx.violated(rule, f, "reaction only when addressed", "the CA reacts to a claim for an address it neither holds (NORMAL) nor announces (WAIT_VETO); counterexample %s" % cex, node, witness=cex)
            else:
                ctx.violated(rule, f, "addressed claims are contested", "a claim for the address this CA holds or announces is ignored; counterexample %s" % cex, node, witness=cex)
            continue
        if not is_addr and (stores or sends):
            # the path has an effect although its condition does not imply "the claim is for the address I hold / announce"
            _, cex = G.implies(F, addressed)
            ctx.violated(rule, f, "reaction only when addressed", "the CA reacts (state change / frame) on a path whose condition admits a claim for an address it "
                         "neither holds in NORMAL nor announces in WAIT_VETO; counterexample %s" % cex, node, witness=cex)
            continue
        if not is_addr and not stores and not sends:
            continue    # an effect-free path (e.g. the equal-NAME return) needs no addressing
        if not cont:
            ctx.unknown(rule, "path with undetermined addressing: %s" % pretty(F)[:100])
            continue
        c = cont[0]
        eq, lt, gt = mk_cmp("==", own, c), mk_cmp("<", own, c), mk_cmp("<", c, own)
        if G.implies(F, eq)[0]:
            row = "equal NAME: no effect"
            if stores or sends:
                ctx.violated(rule, f, row, "a claim with the CA's own NAME has an effect", node)
            else:
                rows[row] = True
        elif G.implies(F, lt)[0]:
            row = "own NAME lower: re-announce the contested address, state unchanged"
            heldN = G.implies(F, isN)[0]
            want = (ADDR_F,) if heldN else (ANN_F,)
            both = [(("ife", isN, ADDR_F, ANN_F),)], [(("ife", mk_not(isN), ANN_F, ADDR_F),)]
            if not stores and sends in both:
                rows[row + " [NORMAL]"] = True
                rows[row + " [WAIT_VETO]"] = True
            elif stores:
                ctx.violated(rule, f, row, "the winner modifies %s" % pretty(stores[0][0]), node)
            elif sends != [want]:
                ctx.violated(rule, f, row, "the winner announces %s, expected %s" % ([pretty(x) for s in sends for x in s], pretty(want[0])), node)
            else:
                rows[row + (" [NORMAL]" if heldN else " [WAIT_VETO]")] = True
        elif G.implies(F, gt)[0]:
            capable_false = any(g == mk_cmp("==", cap, ("c", False)) or g == mk_not(cap) or g == cap for g, p in lits(r.guards()))
            notcap = ((mk_not(cap), True) in lits(r.guards())) or ((cap, False) in lits(r.guards())) or ((mk_cmp("==", cap, ("c", False)), True) in lits(r.guards()))
            iscap = ((cap, True) in lits(r.guards())) or ((mk_cmp("==", cap, ("c", False)), False) in lits(r.guards()))
            sd = dict(stores)
            laststate = [v for t, v in stores if t == STATE_F]
            lastaddr = [v for t, v in stores if t == ADDR_F]
            if notcap:
                row = "own NAME higher, not arbitrary-capable: address released, CANNOT_CLAIM, cannot-claim sent from 254"
                probs = []
                if not lastaddr or lastaddr[-1] not in (NULL, ("c", None)):
                    probs.append("held address not cleared")
                if not laststate or laststate[-1] != ("c", st["CANNOT_CLAIM"]):
                    probs.append("state is %s" % (pretty(laststate[-1]) if laststate else "unchanged"))
                if sends != [(NULL,)]:
                    probs.append("cannot-claim announced from %s" % [pretty(x) for s in sends for x in s])
                if probs:
                    ctx.violated(rule, f, row, "; ".join(probs), node)
                else:
                    rows[row] = True
            elif iscap:
                row = "own NAME higher, arbitrary-capable: address released, another address announced, WAIT_VETO"
                probs = []
                if not lastaddr or lastaddr[-1] not in (NULL, ("c", None)):
                    probs.append("held address not cleared")
                if not laststate or laststate[-1] != ("c", st["WAIT_VETO"]):
                    probs.append("state is %s" % (pretty(laststate[-1]) if laststate else "unchanged"))
                ann = [v for t, v in stores if t == ANN_F]
                if not ann:
                    probs.append("no other address is chosen")
                elif len(sends) != 1 or affine_diff(sends[0][0], ANN_F) is None or affine_diff(sends[0][0], ANN_F)[1] == 0 or affine_diff(sends[0][0], ANN_F)[0]:
                    probs.append("announced address %s is not a different one" % [pretty(x) for s in sends for x in s])
                if probs:
                    ctx.violated(rule, f, row, "; ".join(probs), node)
                else:
                    rows[row] = True
            else:
                ctx.unknown(rule, "losing path without a capability test")
        else:
            ctx.unknown(rule, "path with undetermined NAME ordering: %s" % pretty(F)[:100])
    for row in rows:
        ctx.holds(rule, row)
    if len(rows) < 5:
        ctx.unknown(rule, "decision table incomplete: rows %s" % sorted(rows))


def claim_bcast(ctx, cls, rule="R-CLAIM-BCAST"):
    P = ctx.prog
    f = P.func(cls, "notify")
    n = 0
    for r in runs(ctx, f):
        for i, e in r.effects():
            if e.kind == "call" and mname(e.value) == "_process_addressclaim":
                n += 1
                caobj = e.value[1][1]
                # no per-CA guard between the loop header and the call
                loop_i = max([j for j, rec in enumerate(r.recs[:i]) if rec.ev.kind == "for"] or [0])
                inner = [rec for rec in r.recs[loop_i:i] if rec.cond is not None]
                inst = "%s.notify: address-claimed frames reach every CA of the stack" % cls
                if ca_elem(caobj) == ("all", None) and not inner and e.value[2][1:2] == (("p", "data"),):
                    ctx.holds(rule, inst)
                else:
                    ctx.violated(rule, f, inst, "address claims are filtered per CA or not passed the frame data", e.node)
    if n == 0:
        ctx.violated(rule, f, "%s.notify address-claim branch" % cls, "address-claimed frames are never handed to the controller applications", f.node)


def ca_loops(ctx, cls, rule="R-CA-LOOPS"):
    """loops over the stack's CAs in notify consult / serve EVERY CA: the destination filter rejects only after the loop
    is exhausted, and a dispatch loop is not left after the first CA it served"""
    P = ctx.prog
    f = P.func(cls, "notify")
    dest = _dest_of(None)
    handlers = {"_process_addressclaim", "_process_request"}
    all_handlers = handlers | {"_process_tp_cm", "_process_tp_dt", "_process_multi_pg", "__notify_subscribers"}
    seen = {}
    bad = {}
    stale = []
    n_spec = 0
    for r in runs(ctx, f, unroll=2):
        fors = [(j, rec) for j, rec in enumerate(r.recs) if rec.ev.kind == "for"]
        # for-nodes over self._cas entered on this run
        over = {}
        for j, rec in fors:
            if rec.ev.pol != "iter":
                continue
            it = r.recs[j].ev.node.iter
            if any(isinstance(x, ast.Attribute) and x.attr == "_cas" and isinstance(x.value, ast.Name) and x.value.id == "self" for x in ast.walk(it)):
                over.setdefault(id(rec.ev.node), (rec.ev.node, []))[1].append(j)
        if not over:
            # a rejecting run for a destination-specific frame that no ECU-level listener takes: the rejection has to come from asking the
            # CAs now (their claim state changes at run time), not from anything remembered
            gl = lits(r.guards())
            specific = (mk_cmp("==", dest, GLOBAL), False) in gl
            ecu_no = any((not p) and g[0] == "call" and "is_message_acceptable" in (mname(g) or "") for g, p in gl)
            anyh = [e for _, e in r.effects() if e.kind == "call" and mname(e.value) in all_handlers]
            asked = any(rec.ev.kind == "for" and any(isinstance(x, ast.Attribute) and x.attr == "_cas" for x in ast.walk(rec.ev.node.iter)) for _, rec in fors) \
                or any(contains(g, field("_cas")) for g, _ in r.guards())
            if specific and ecu_no and not anyh and r.term == "return" and not asked:
                why = [pretty(g if p else mk_not(g))[:60] for g, p in r.guards()][-1:]
                stale.append((r, why))
            if specific and ecu_no:
                n_spec += 1
            continue
        n_spec += 1
        exhausted = {id(rec.ev.node) for j, rec in fors if rec.ev.pol == "exhaust"}
        calls = [(i, e) for i, e in r.effects() if e.kind == "call" and mname(e.value) in all_handlers]
        for nid, (node, its) in over.items():
            body_nodes = {id(x) for x in ast.walk(node)}
            inside = [(i, e) for i, e in calls if mname(e.value) in handlers and e.value[1][1][0] == "iter" and id(e.node) in body_nodes]
            if inside:
                role = "dispatch of %s" % mname(inside[0][1].value)
                key = (node.lineno, role)
                seen[key] = node
                if nid not in exhausted and r.term != "raise":
                    bad.setdefault(key, (inside[0][1].node, "the loop over the stack's CAs is left after the first CA that was served: the other CAs "
                                         "that accept the destination (all of them for a broadcast) never see the frame"))
            elif not calls and r.term == "return" and (mk_cmp("==", dest, GLOBAL), True) not in lits(r.guards()):
                # filter loop on a rejecting run
                key = (node.lineno, "destination filter")
                seen[key] = node
                if nid not in exhausted:
                    bad.setdefault(key, (node, "the frame is rejected although not every CA was asked: the filter loop is left (break) before a "
                                         "later CA could accept the destination"))
    inst = "%s.notify: a destination-specific frame is rejected only after asking the CAs" % cls
    if stale:
        ctx.violated(rule, f, inst, "a frame to a specific destination is dropped without asking any CA whether it holds that address now (the run "
                     "returns when %s): a CA that has become operational at the address since the decision was remembered never sees its requests" % (
                         " and ".join(stale[0][1]) or "?"), f.node)
    elif n_spec:
        ctx.holds(rule, inst)
    for key, node in sorted(seen.items()):
        inst = "%s.notify: %s consults every CA" % (cls, key[1])
        if key in bad:
            ctx.violated(rule, f, inst, bad[key][1], bad[key][0])
        else:
            ctx.holds(rule, inst)


def claim_timer(ctx, rule="R-CLAIM-TIMER"):
    from spec import sae
    P = ctx.prog
    st = ca_consts(ctx)
    f = P.func(CA, "_process_claim_async")
    veto = P.cls("ControllerApplication.ClaimTimeout").consts.get("VETO")
    if veto is None or abs(veto - sae.CLAIM_VETO) > 1e-9:
        ctx.violated(rule, f, "veto time = 250 ms", "ClaimTimeout.VETO is %r" % veto, f.node)
    else:
        ctx.holds(rule, "veto time = 250 ms")
    n = 0
    for r in runs(ctx, f):
        if r.term in ("raise", "exc"):
            continue
        n += 1
        re_arm = [e for _, e in r.effects() if e.kind == "call" and mname(e.value) == "add_timer"]
        ret = [e for _, e in r.effects() if e.kind == "ret"]
        inst = "claim timer re-arms itself on every path and returns False"
        if len(re_arm) != 1 or re_arm[0].value[2][1:2] != (("attr", SELF, "_process_claim_async"),) or not ret or ret[-1].value != ("c", False):
            ctx.violated(rule, f, inst, "a path of the claim timer does not re-register itself exactly once (or keeps the old registration too)", f.node)
        else:
            ctx.holds(rule, inst)
        ss = [e for _, e in r.effects() if e.kind == "store" and e.target == STATE_F]
        gl = r.guards()
        iv = G.intervals(gl)
        from_none = (mk_cmp("==", STATE_F, ("c", st["NONE"])), True) in lits(gl)
        if from_none and ss:
            rng = iv.get(ANN_F, iv.get(PREF_F, [None, None]))
            ann = [e for _, e in r.effects() if e.kind == "store" and e.target == ANN_F]
            sends = [e for _, e in r.effects() if e.kind == "call" and e.value[1] == ("attr", SELF, "_send_address_claimed")]
            if not ann or ann[0].value != PREF_F or len(sends) != 1 or sends[0].value[2] != (PREF_F,):
                ctx.violated(rule, f, "first claim announces the preferred address", "announced %s, claimed %s" % (
                    pretty(ann[0].value) if ann else None, [pretty(x) for s in sends for x in s.value[2]]), f.node)
            if ss[-1].value == ("c", st["WAIT_VETO"]):
                inst = "veto wait exactly for announced addresses 128..247, timer = VETO"
                t = re_arm[0].value[2][0] if re_arm else None
                if rng == [128, 247] and t == ("c", veto):
                    ctx.holds(rule, inst)
                else:
                    ctx.violated(rule, f, inst, "WAIT_VETO entered for addresses %s with timer %s" % (rng, pretty(t) if t else None), ss[-1].node)
            elif ss[-1].value == ("c", st["NORMAL"]):
                ctx.holds(rule, "immediate NORMAL outside 128..247")
                # complementary range: checked through the WAIT_VETO branch being exactly [128,247]
    if n < 4:
        ctx.unknown(rule, "claim timer paths not found (%d)" % n)


def message_acceptable_rule(ctx, rule="R-SUBSCRIBER-RULE"):
    """message_acceptable <=> state == NORMAL and (dest == GLOBAL or held address == dest)"""
    P = ctx.prog
    st = ca_consts(ctx)
    m = P.func(CA, "message_acceptable")
    d2 = ("p", "dest_address")
    normal = mk_cmp("==", STATE_F, ("c", st["NORMAL"]))
    wants = [mk_bool("and", [normal, mk_bool("or", [mk_cmp("==", d2, GLOBAL), mk_cmp("==", x, d2)])])
             for x in (field("device_address"), ADDR_F)]
    parts = []
    for r in runs(ctx, m):
        ret = [e for _, e in r.effects() if e.kind == "ret"]
        if not ret:
            continue
        v = inline_props(ctx, m, ret[-1].value)
        parts.append(mk_bool("and", [G.conj(iguards(ctx, m, r)), v]))
    F = G.disj(parts)
    inst = "message_acceptable <=> state == NORMAL and (dest == GLOBAL or held address == dest)"
    if any(G.equivalent(F, w)[0] for w in wants):
        ctx.holds(rule, inst)
    else:
        ctx.violated(rule, m, inst, "acceptance condition is %s; counterexample %s" % (pretty(F)[:120], G.equivalent(F, wants[0])[1]), m.node)


def lose_order(ctx, rule="R-LOSE-ORDER"):
    """on every path that releases the held address, the non-operational state is stored before any frame is sent
    (otherwise the send guards still see NORMAL - with the null address - while the claim frame is on its way)"""
    P = ctx.prog
    st = ca_consts(ctx)
    f = P.func(CA, "_process_addressclaim")
    n = 0
    for r in runs(ctx, f):
        clears = [i for i, e in r.effects() if e.kind == "store" and e.target == ADDR_F and e.value in (NULL, ("c", None))]
        if not clears:
            continue
        n += 1
        sends = [i for i, e in r.effects() if e.kind == "call" and e.value[1] == ("attr", SELF, "_send_address_claimed")]
        states = [(i, e) for i, e in r.effects() if e.kind == "store" and e.target == STATE_F and e.value != ("c", st["NORMAL"])]
        lab = "CANNOT_CLAIM" if any(e.value == ("c", st["CANNOT_CLAIM"]) for _, e in states) else "re-claim"
        inst = "losing path (%s): state leaves NORMAL before the claim frame is sent" % lab
        if sends and (not states or states[0][0] > sends[0]):
            ctx.violated(rule, f, inst, "the address is released and a frame is sent while the state is still NORMAL: an application send that "
                         "interleaves goes out from the null address instead of raising", r.recs[sends[0]].ev.node)
        else:
            ctx.holds(rule, inst)
    if n < 2:
        ctx.unknown(rule, "losing paths not found (%d)" % n)


def claim_order(ctx, rule="R-CLAIM-ORDER"):
    """the starting CA leaves the state NONE (stores WAIT_VETO / NORMAL and the announced address) BEFORE its first claim is sent:
    a contender's answer can be processed before the sending call returns, and in the state NONE it would be ignored"""
    P = ctx.prog
    st = ca_consts(ctx)
    f = P.func(CA, "_process_claim_async")
    n = 0
    for r in runs(ctx, f):
        gl = lits(r.guards())
        if (mk_cmp("==", STATE_F, ("c", st["NONE"])), True) not in gl:
            continue
        sends = [(i, e) for i, e in r.effects() if e.kind == "call" and e.value[1] == ("attr", SELF, "_send_address_claimed")]
        if not sends:
            continue
        n += 1
        states = [i for i, e in r.effects() if e.kind == "store" and e.target == STATE_F and e.value != ("c", st["NONE"])]
        ann = [i for i, e in r.effects() if e.kind == "store" and e.target == ANN_F]
        to = [e.value for i, e in r.effects() if e.kind == "store" and e.target == STATE_F]
        lab = "veto range" if ("c", st["WAIT_VETO"]) in to else "immediate range"
        inst = "first claim (%s): state and announced address are stored before the claim is sent" % lab
        if not states or states[0] > sends[0][0] or not ann or ann[0] > sends[0][0]:
            ctx.violated(rule, f, inst, "the claim is handed to the bus while the CA is still in the state NONE%s: the veto of a CA that already holds the "
                         "address, processed before the sending call returns, is ignored and both end up operational at the same address" % (
                             "" if ann and ann[0] < sends[0][0] else " / has not recorded the announced address"), sends[0][1].node)
        else:
            ctx.holds(rule, inst)
    if n < 2:
        ctx.unknown(rule, "claiming paths from the state NONE not found (%d)" % n)


def claim_track(ctx, rule="R-CLAIM-TRACK"):
    """whenever a claim for an address X (not the null address) is handed to the bus, X is - at that moment - the address the CA holds or
    the one it has recorded as announced.  A claim for an address it is not yet tracking leaves a window in which the defending claim of
    the address's holder (processed before the sending call returns) matches neither field and is ignored."""
    P = ctx.prog
    n = 0
    for fn in ("_process_claim_async", "_process_addressclaim", "_process_request"):
        f = P.func(CA, fn)
        for r in runs(ctx, f):
            cur = {ADDR_F: ADDR_F, ANN_F: ANN_F}
            for i, e in r.effects():
                if e.kind == "store" and e.target in cur:
                    cur[e.target] = e.value
                elif e.kind == "aug" and e.target in cur:
                    cur[e.target] = mk_bin(e.extra, cur[e.target], e.value)
                elif e.kind == "call" and e.value[1] == ("attr", SELF, "_send_address_claimed") and len(e.value[2]) == 1:
                    a = e.value[2][0]
                    if a == NULL:
                        continue
                    n += 1
                    inst = "%s, claim for %s: the claimed address is the held or the announced one when the frame is sent" % (fn, pretty(a)[:60])
                    from .common import ife_alts
                    if all(x in (cur[ADDR_F], cur[ANN_F], NULL) for x in ife_alts(a)):
                        ctx.holds(rule, inst)
                    else:
                        ctx.violated(rule, f, inst, "the claim names %s while the CA records %s as held and %s as announced: the answer of the "
                                     "address's holder, processed before the sending call returns, matches neither and is ignored - both end up "
                                     "operational at that address" % (pretty(a)[:50], pretty(cur[ADDR_F])[:40], pretty(cur[ANN_F])[:40]), e.node)
    if n < 5:
        ctx.unknown(rule, "claim sends not found (%d)" % n)


def normal_announced(ctx, rule="R-NORMAL-ANNOUNCED"):
    """the losing branch of the claim handler derives the next address to claim from the recorded announced address.  That is only the
    successor of the address just lost if, whenever the CA becomes operational, the announced address equals the address it holds."""
    import ast
    P = ctx.prog
    st = ca_consts(ctx)
    h = P.func(CA, "_process_addressclaim")
    derives = False
    for r in runs(ctx, h):
        for i, e in r.effects():
            if e.kind == "aug" and e.target == ANN_F:
                derives = True
            if e.kind == "store" and e.target == ANN_F and contains(e.value, ANN_F):
                derives = True
            if e.kind == "call" and e.value[1] == ("attr", SELF, "_send_address_claimed") and e.value[2] and e.value[2][0] != ANN_F and contains(e.value[2][0], ANN_F):
                derives = True
    if not derives:
        ctx.holds(rule, "the claim handler does not derive the next address from the announced address")
        return
    n = 0
    cls = P.cls(CA)
    from .common import is_helper, ife_alts
    for mn, m in sorted(cls.methods.items()):
        if is_helper(m) or m.kind != "method":
            continue       # helpers are inlined into the anchor functions that call them
        for r in runs(ctx, m):
            if r.term in ("raise", "exc"):
                continue
            cur = {ADDR_F: ADDR_F, ANN_F: ANN_F}
            became = under = None
            for i, e in r.effects():
                if e.kind == "store" and e.target in cur:
                    cur[e.target] = e.value
                elif e.kind == "aug" and e.target in cur:
                    cur[e.target] = mk_bin(e.extra, cur[e.target], e.value)
                elif e.kind == "store" and e.target == STATE_F and e.value == ("c", st["NORMAL"]):
                    became, under = e, None
                elif e.kind == "store" and e.target == STATE_F and e.value[0] == "ife" and ("c", st["NORMAL"]) in (e.value[2], e.value[3]):
                    # NORMAL if <c> else <other>: the clause concerns the case <c>
                    became = e
                    under = e.value[1] if e.value[2] == ("c", st["NORMAL"]) else mk_not(e.value[1])
            if became is None:
                continue
            if under is not None:
                from .common import resolve_under
                cur = {k: resolve_under(v, under) for k, v in cur.items()}
            n += 1
            inst = "%s: becomes operational with announced address == held address" % mn
            if cur[ADDR_F] == cur[ANN_F]:
                ctx.holds(rule, inst)
            else:
                ctx.violated(rule, m, inst, "the CA becomes operational holding %s while its announced address is %s; when it later loses the "
                             "address, the claim handler claims the successor of the ANNOUNCED address (%s + 1), not of the address it held - "
                             "e.g. 254 + 1 = 255, the global address, which it then uses as its source address" % (
                                 pretty(cur[ADDR_F])[:50], pretty(cur[ANN_F])[:50], pretty(cur[ANN_F])[:50]), became.node)
    if n < 3:
        ctx.unknown(rule, "paths entering NORMAL not found (%d)" % n)


def ca_registry_steps(ctx, rule="R-CA-REGISTRY", which=("subscribe_request", "add_timer", "remove_timer", "subscribe", "unsubscribe")):
    """the registration entry points of a ControllerApplication do register: subscribe_request records the callback in the list the request
    handler walks; add_timer / remove_timer / subscribe / unsubscribe hand their arguments on to the ECU"""
    P = ctx.prog
    for nm in which:
        f = P.func(CA, nm)
        ok = False
        for r in runs(ctx, f):
            for _, e in r.effects():
                if e.kind != "call":
                    continue
                if nm == "subscribe_request":
                    ok = ok or (e.value[1] == ("attr", field("_subscribers_request"), "append") and e.value[2] == (("p", "callback"),))
                else:
                    ok = ok or (e.value[1] == ("attr", field("_ecu"), nm) and contains(("x",) + tuple(e.value[2]) + tuple(v for _, v in e.value[3]), ("p", "callback")))
        inst = "ControllerApplication.%s %s" % (nm, "records the callback for the request handler" if nm == "subscribe_request" else "hands the callback on to the ECU")
        if ok:
            ctx.holds(rule, inst)
        else:
            ctx.violated(rule, f, inst, "the call returns without registering / deregistering anything: the callback is never called (or never stops "
                         "being called)", f.node)


def layer_ca_list(ctx, cls, rule="R-CA-REGISTRY"):
    """the data link layer's list of controller applications follows add_ca / remove_ca (a CA that is not on the list sees no claim, no
    request and owns no destination address for the filter)"""
    P = ctx.prog
    f = P.func(cls, "add_ca")
    ok = any(e.kind == "call" and e.value[1] == ("attr", field("_cas"), "append") and e.value[2] == (("p", "ca"),) for r in runs(ctx, f) for _, e in r.effects())
    inst = "%s.add_ca puts the CA on the list the receive path consults" % cls
    if ok:
        ctx.holds(rule, inst)
    else:
        ctx.violated(rule, f, inst, "the CA is never consulted: frames to its address are dropped as foreign, claims and requests do not reach it", f.node)
    g = P.func(cls, "remove_ca")
    ok = any(e.kind == "call" and e.value[1] == ("attr", field("_cas"), "remove") for r in runs(ctx, g, unroll=1) for _, e in r.effects()) or any(
        e.kind == "store" and e.target == field("_cas") for r in runs(ctx, g, unroll=1) for _, e in r.effects())
    inst = "%s.remove_ca takes the CA off the list" % cls
    if ok:
        ctx.holds(rule, inst)
    else:
        ctx.violated(rule, g, inst, "a removed CA keeps receiving (and answering) frames for its address", g.node)
