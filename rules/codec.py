"""C15: identifier / PGN / NAME codecs - proof obligations discharged in the known-bits domain."""
from sa.sym import SELF, contains, is_const, cval, pretty, walk, mk_cmp, mk_not, mk_bin, SymEval
from sa.model import AnalysisError, EnumVal
from sa import guards as G
from sa.bits import BV, BitEval, T
from sa.objeval import construct, call_runs, Obj, _feasible_runs
from .common import runs, lits


def _leaf(widths):
    def leaf(s):
        if s[0] == "p":
            return BV.input(s[1], widths.get(s[1]))
        return None
    return leaf


def _expect(ctx, rule, f, inst, bv, want_bits, width=None):
    """obligation: bv == want_bits (list) with nothing above"""
    n = len(want_bits)
    lossy = BitEval.pop_lossy()
    if bv.has_top() and lossy:
        ctx.violated(rule, f, inst, "not exact: %s" % lossy[0], f.node, witness=bv.describe())
        return
    if bv.has_top():
        ctx.unknown(rule, "%s: not interpretable in the known-bits domain (%s)" % (inst, bv.describe()))
        return
    got = bv.window(0, n)
    w = bv.width()
    if got == list(want_bits) and w is not None and w <= n:
        ctx.holds(rule, inst, bv.describe())
    else:
        ctx.violated(rule, f, inst, "evaluates to %s, obligation requires %s" % (bv.describe(), BV(list(want_bits), 0).describe()),
                     f.node, witness=bv.describe())


def src(name, lo, n):
    return [("b", name, lo + i) for i in range(n)]


def eval_pred(s, env):
    """concrete evaluation of a comparison formula Sym over integer leaves (exhaustive small domains)"""
    k = s[0]
    if k == "c":
        return s[1]
    if s in env:
        return env[s]
    if k == "cmp":
        a, b = eval_pred(s[2], env), eval_pred(s[3], env)
        return a < b if s[1] == "<" else a == b
    if k == "not":
        return not eval_pred(s[1], env)
    if k == "bool":
        vals = [eval_pred(x, env) for x in s[2]]
        return all(vals) if s[1] == "and" else any(vals)
    if k == "call" and s[1] == ("glob", "bool") and len(s[2]) == 1 and not s[3]:
        return bool(eval_pred(s[2][0], env))
    if k == "ife":
        return eval_pred(s[2], env) if eval_pred(s[1], env) else eval_pred(s[3], env)
    if k == "bin":
        a, b = eval_pred(s[2], env), eval_pred(s[3], env)
        return {"&": lambda: a & b, "|": lambda: a | b, "+": lambda: a + b, "-": lambda: a - b, ">>": lambda: a >> b,
                "<<": lambda: a << b, "%": lambda: a % b, "//": lambda: a // b, "*": lambda: a * b, "^": lambda: a ^ b}[s[1]]()
    raise AnalysisError("predicate %s not evaluable" % pretty(s)[:60])


def message_id(ctx, rule="O-MESSAGEID"):
    from spec import sae
    P = ctx.prog
    f = P.func("MessageId", "can_id")
    kw = (("priority", ("p", "priority")), ("parameter_group_number", ("p", "pgn")), ("source_address", ("p", "sa")))
    m = construct(P, "MessageId", (), kw)
    be = BitEval(_leaf({}))
    cid = be.ev(m.get("can_id"))
    want = [0] * 29
    for lo, n, name, slo in sae.CAN_ID:
        for i in range(n):
            want[lo + i] = ("b", name, slo + i)
    _expect(ctx, rule, f, "compose: priority 26..28, PGN 8..25, SA 0..7; nothing above bit 28", cid, want)
    # parse o compose = identity on the masked fields
    ps = construct(P, "MessageId", (), (("can_id", m.get("can_id")),))
    for fld, name, w in (("priority", "priority", 3), ("parameter_group_number", "pgn", 18), ("source_address", "sa", 8)):
        _expect(ctx, rule, P.func("MessageId", "can_id", setter=True), "parse(compose(p, g, s)).%s = %s[0..%d]" % (fld, name, w - 1),
                be.ev(ps.fields[fld]), src(name, 0, w))
    # compose o parse = identity on 29 bits, drops 29+
    p2 = construct(P, "MessageId", (), (("can_id", ("p", "id")),))
    _expect(ctx, rule, f, "compose(parse(id)) = id[0..28] for all 2^29 identifiers (higher bits dropped)", be.ev(p2.get("can_id")), src("id", 0, 29))
    for fld, lo, w in (("priority", 26, 3), ("parameter_group_number", 8, 18), ("source_address", 0, 8)):
        _expect(ctx, rule, P.func("MessageId", "can_id", setter=True), "parse(id).%s = id[%d..%d]" % (fld, lo, lo + w - 1),
                be.ev(p2.fields[fld]), src("id", lo, w))


def pgn(ctx, rule="O-PGN"):
    from spec import sae
    P = ctx.prog
    be = BitEval(_leaf({}))
    o = construct(P, "ParameterGroupNumber", [("p", "dp"), ("p", "pf"), ("p", "ps")])
    init = P.func("ParameterGroupNumber", "__init__")
    for fld, name, w in (("data_page", "dp", 1), ("pdu_format", "pf", 8), ("pdu_specific", "ps", 8)):
        _expect(ctx, rule, init, "constructor masks %s to %d bit(s)" % (fld, w), be.ev(o.fields[fld]), src(name, 0, w))
    want = [0] * 17
    for lo, n, name, slo in sae.PGN_VALUE:
        for i in range(n):
            want[lo + i] = ("b", name, slo + i)
    vf = P.func("ParameterGroupNumber", "value")
    _expect(ctx, rule, vf, "value: DP bit 16, PF 8..15, PS 0..7", be.ev(o.get("value")), want)
    # from_message_id
    fm = P.func("ParameterGroupNumber", "from_message_id")
    rs = [r for r in runs(ctx, fm) if r.term not in ("raise", "exc")]
    if len(rs) != 1:
        ctx.unknown(rule, "from_message_id has %d non-raising paths" % len(rs))
    else:
        leafmid = lambda s: BV.input("pgn", 18) if s == ("attr", ("p", "mid"), "parameter_group_number") else None
        be2 = BitEval(leafmid)
        st = {e.target[2]: e.value for _, e in rs[0].effects() if e.kind == "store" and e.target[0] == "attr" and e.target[1] == SELF}
        for fld, lo, w in (("data_page", 16, 1), ("pdu_format", 8, 8), ("pdu_specific", 0, 8)):
            if fld not in st:
                ctx.violated(rule, fm, "from_message_id sets %s" % fld, "field is not set", fm.node)
            else:
                _expect(ctx, rule, fm, "from_message_id: %s = pgn[%d..%d]" % (fld, lo, lo + w - 1), be2.ev(st[fld]), src("pgn", lo, w))
        o2 = Obj(P, "ParameterGroupNumber", st)
        _expect(ctx, rule, fm, "value(from_message_id(m)) = m.pgn[0..16] (extended data page bit 17 is not represented)",
                be2.ev(o2.get("value")), src("pgn", 0, 17))
    # PDU1 / PDU2 classification over the whole byte domain
    o3 = Obj(P, "ParameterGroupNumber", {"pdu_format": ("p", "pf"), "data_page": ("p", "dp"), "pdu_specific": ("p", "ps")})
    for prop, pred, txt in (("is_pdu1_format", lambda v: v <= 239, "PF <= 239"), ("is_pdu2_format", lambda v: v >= 240, "PF >= 240")):
        g = P.func("ParameterGroupNumber", prop)
        try:
            s = o3.get(prop)
            # the classification is a function of PF alone: enumerate every other field the extracted formula mentions as well
            dps = (0, 1) if contains(s, ("p", "dp")) else (0,)
            pss = range(256) if contains(s, ("p", "ps")) else (0,)
            bad = []
            for dp in dps:
                for ps in pss:
                    for v in range(256):
                        if bool(eval_pred(s, {("p", "pf"): v, ("p", "dp"): dp, ("p", "ps"): ps})) != pred(v):
                            bad.append((dp, v, ps))
                    if len(bad) > 6:
                        break
        except AnalysisError as e:
            ctx.unknown(rule, "%s: %s" % (prop, e))
            continue
        inst = "%s <=> %s for every PF in 0..255 (and every data page / PS)" % (prop, txt)
        if bad:
            ctx.violated(rule, g, inst, "classification differs for (data page, PF, PS) = %s" % bad[:4], g.node)
        else:
            ctx.holds(rule, inst)


def name(ctx, rule="O-NAME"):
    from spec import sae
    BitEval.pop_lossy()
    P = ctx.prog
    init = P.func("Name", "__init__")
    spec = {f: (lo, n) for lo, n, f in sae.NAME}
    # widths from the constructor's range checks (keyword path)
    kws = tuple((f, ("p", f)) for f in spec if f != "reserved_bit")
    rs = [r for r in call_runs(P, init, [], kws) if r.term not in ("raise", "exc")]
    widths = {}
    if len(rs) != 1:
        ctx.unknown(rule, "Name.__init__ keyword path has %d non-raising paths" % len(rs))
        return
    iv = G.intervals(rs[0].guards())
    for f, (lo, n) in spec.items():
        if f == "reserved_bit":
            continue
        got = iv.get(("p", f), [None, None])
        inst = "constructor range check confines %s to %d bit(s)" % (f, n)
        if got == [0, 2 ** n - 1]:
            ctx.holds(rule, inst)
            widths[f] = n
        else:
            ctx.violated(rule, init, inst, "accepted range is %s, J1939-81 field is 0..%d: a wider value overlaps its neighbour in the 64-bit value" % (
                got, 2 ** n - 1), init.node)
            widths[f] = n
    # final store forces the reserved bit to 0 on every constructor path
    ok_res = True
    for kw in ((("value", ("p", "v")),), (("bytes", ("p", "b")),), kws):
        for r in call_runs(P, init, [], kw):
            if r.term in ("raise", "exc"):
                continue
            st = [e for _, e in r.effects() if e.kind == "store" and e.target == ("attr", SELF, "reserved_bit")]
            if not st or st[-1].value != ("c", 0):
                ok_res = False
    if ok_res:
        ctx.holds(rule, "every constructor path ends with reserved bit := 0")
    else:
        ctx.violated(rule, init, "every constructor path ends with reserved bit := 0", "a constructor path leaves the reserved bit as given", init.node)
    # value getter: positions
    vf = P.func("Name", "value")
    o = construct(P, "Name", (), kws)
    be = BitEval(_leaf(widths))
    v = be.ev(o.get("value"))
    want = [0] * 64
    for f, (lo, n) in spec.items():
        if f == "reserved_bit":
            continue
        for i in range(n):
            want[lo + i] = ("b", f, i)
    _expect(ctx, rule, vf, "value getter places every field at its J1939-81 position (reserved bit 48 = 0)", v, want)
    for f, (lo, n) in spec.items():
        if f == "reserved_bit":
            continue
        inst = "value[%d..%d] = %s" % (lo, lo + n - 1, f)
        if v.window(lo, n) == src(f, 0, n):
            ctx.holds(rule, inst)
        elif BV(v.window(lo, n), 0).has_top():
            ctx.unknown(rule, "%s: not interpretable in the known-bits domain (%s)" % (inst, BV(v.window(lo, n), 0).describe()))
        else:
            ctx.violated(rule, vf, inst, "bits are %s" % BV(v.window(lo, n), 0).describe(), vf.node)
    # value setter: fields from the integer
    vs = P.func("Name", "value", setter=True)
    o2 = construct(P, "Name", (), (("value", ("p", "v")),))
    be2 = BitEval(_leaf({}))
    for f, (lo, n) in spec.items():
        if f == "reserved_bit":
            continue
        got = be2.ev(o2.get(f))
        _expect(ctx, rule, vs, "Name(value=v).%s = v[%d..%d]" % (f, lo, lo + n - 1), got, src("v", lo, n))
    back = be2.ev(o2.get("value"))
    want = src("v", 0, 64)
    want[48] = 0
    _expect(ctx, rule, vs, "Name(value=v).value = v on 64 bits with the reserved bit reading 0", back, want)
    # getter o setter: fields -> value -> fields
    o3 = construct(P, "Name", (), (("value", o.get("value")),))
    for f, (lo, n) in spec.items():
        if f == "reserved_bit":
            continue
        _expect(ctx, rule, vs, "Name(value=Name(fields).value).%s = %s" % (f, f), be.ev(o3.get(f)), src(f, 0, n))
    # bytes getter
    bf = P.func("Name", "bytes")
    bl = o2.get("bytes")
    if bl[0] != "list" or len(bl[1]) != 8:
        ctx.violated(rule, bf, "bytes getter returns 8 bytes", "returns %s" % pretty(bl)[:60], bf.node)
    else:
        for i, b in enumerate(bl[1]):
            w = src("v", 8 * i, 8)
            if i == 6:
                w[0] = 0
            _expect(ctx, rule, bf, "bytes[%d] = value[%d..%d] (little-endian)" % (i, 8 * i, 8 * i + 7), be2.ev(b), w)
    # bytes setter
    bs = P.func("Name", "bytes", setter=True)
    def leafb(s):
        if s[0] == "bytes-of" and s[1] == ("p", "b"):
            return [BV.input("b%d" % i, 8) for i in range(8)]
        return None
    be3 = BitEval(leafb)
    o4 = construct(P, "Name", (), (("bytes", ("p", "b")),))
    v4 = be3.ev(o4.get("value"))
    want = []
    for i in range(8):
        want.extend(src("b%d" % i, 0, 8))
    want[48] = 0
    _expect(ctx, rule, bs, "Name(bytes=b).value = the 8 bytes little-endian (reserved bit 0)", v4, want)
    bl4 = o4.get("bytes")
    if bl4[0] == "list" and len(bl4[1]) == 8:
        for i, b in enumerate(bl4[1]):
            w = src("b%d" % i, 0, 8)
            if i == 6:
                w[0] = 0
            _expect(ctx, rule, bs, "Name(bytes=b).bytes[%d] = b[%d]" % (i, i), be3.ev(b), w)


def claim_cmp(ctx, rule="R-CLAIM-CMP"):
    """arbitration compares the 64-bit values; the yielding branch is own > contender"""
    P = ctx.prog
    f = P.func("ControllerApplication", "_process_addressclaim")
    own = ("attr", ("attr", SELF, "_name"), "value")
    def is_contender(s):
        return s[0] == "attr" and s[2] == "value" and s[1][0] == "call" and s[1][1] == ("clsref", "Name") and \
            dict(s[1][3]).get("bytes") == ("p", "data")
    seen_yield = seen_keep = False
    own_b = ("attr", ("attr", SELF, "_name"), "bytes")
    def is_contender_b(s):
        return s[0] == "attr" and s[2] == "bytes" and s[1][0] == "call" and s[1][1] == ("clsref", "Name") and \
            dict(s[1][3]).get("bytes") == ("p", "data")
    for r in runs(ctx, f):
        # Name.bytes is the little-endian byte list (R-NAME-CODEC): list ordering compares the LEAST significant byte first,
        # which is not the order of the 64-bit values (equality of the lists is equivalent and is not reported)
        for g, p in lits(r.guards()):
            if g[0] == "cmp" and g[1] == "<" and own_b in (g[2], g[3]) and (is_contender_b(g[2]) or is_contender_b(g[3])):
                ctx.violated(rule, f, "arbitration order", "the NAMEs are ordered by comparing their little-endian byte lists (%s): Python compares lists "
                             "from index 0, i.e. from the least significant byte, so a NAME with a lower 64-bit value but a higher low-order byte "
                             "loses the arbitration" % pretty(g)[:90], f.node)
                return
        clears = [(i, e) for i, e in r.effects() if e.kind == "store" and e.target == ("attr", SELF, "_device_address")]
        for g, p in lits(r.guards()):
            if g[0] == "cmp" and g[1] in ("<", "==") and own in (g[2], g[3]):
                other = g[3] if g[2] == own else g[2]
                if not is_contender(other):
                    ctx.violated(rule, f, "arbitration operands", "own NAME value is compared with %s, not with the NAME in the frame's 8 data bytes" % pretty(other)[:70], f.node)
                    return
        F = G.conj(r.guards())
        cont = [x for g, _ in r.guards() for x in walk(g) if is_contender(x)]
        if not cont:
            continue
        c = cont[0]
        yields = bool(clears)
        own_greater = mk_cmp("<", c, own)
        if yields:
            seen_yield = True
            ok, cex = G.implies(F, own_greater)
            if not ok:
                ctx.violated(rule, f, "yield direction", "the address is released on a path where own NAME > contender's NAME does not hold (%s)" % cex, clears[0][1].node)
                return
        else:
            sends = [e for _, e in r.effects() if e.kind == "call" and e.value[1] == ("attr", SELF, "_send_address_claimed")]
            if sends:
                seen_keep = True
                ok, cex = G.implies(F, mk_cmp("<", own, c))
                if not ok:
                    ctx.violated(rule, f, "keep direction", "the claim is repeated (address kept) although own NAME < contender's NAME does not hold (%s)" % cex, sends[0].node)
                    return
    if seen_yield and seen_keep:
        ctx.holds(rule, "arbitration compares Name.value of own NAME and of the frame's 8 bytes; higher value yields, lower keeps")
    else:
        ctx.unknown(rule, "arbitration branches not found (yield=%s keep=%s)" % (seen_yield, seen_keep))


def _self_attrs(fn, ctx_types):
    """names a method loads / stores through `self` (private names are compared unmangled)"""
    import ast
    out = set()
    for n in ast.walk(fn.node):
        if isinstance(n, ast.Attribute) and isinstance(n.value, ast.Name) and n.value.id == "self" and isinstance(n.ctx, ctx_types):
            out.add(n.attr)
        if isinstance(n, ast.AugAssign) and isinstance(n.target, ast.Attribute) and isinstance(n.target.value, ast.Name) and \
                n.target.value.id == "self":
            out.add(n.target.attr)
    return out


def getter_fresh(ctx, rule="R-GETTER-FRESH", classes=("MessageId", "ParameterGroupNumber", "Name", "DTC")):
    """A getter of a codec class is a function of the object's current fields.  Either it stores nothing in the object, or what it stores
    (a memoised result) is reset by every method that changes a field the memoised computation reads - otherwise a read, a field change
    and a second read return the value of the OLD fields."""
    import ast
    P = ctx.prog
    for cn in classes:
        cls = P.cls(cn)

        def closure(names, table, kind, seen=None):
            # expand property names to the fields their accessor touches
            seen = set() if seen is None else seen
            out = set()
            for n in names:
                if n in table and n not in seen:
                    seen.add(n)
                    out |= closure(_self_attrs(table[n], kind), table, kind, seen)
                    out.add(n)
                else:
                    out.add(n)
            return out
        for gname, g in sorted(cls.getters.items()):
            memo = _self_attrs(g, (ast.Store,)) - set(cls.setters)
            inst = "%s.%s" % (cn, gname)
            if not memo:
                ctx.holds(rule, inst, "stores nothing in the object")
                continue
            reads = closure(_self_attrs(g, (ast.Load,)), cls.getters, (ast.Load,)) - memo
            bad = []
            for mname, m in list(cls.setters.items()) + [(k, v) for k, v in cls.methods.items() if k not in cls.getters and k != "__init__"]:
                if m is g:
                    continue
                direct = _self_attrs(m, (ast.Store,))
                stores = closure(direct, cls.setters, (ast.Store,))
                if (direct & reads) - set(cls.setters) and not memo <= stores:
                    bad.append((mname, sorted((direct & reads) - set(cls.setters))))
            if bad:
                ctx.violated(rule, g, inst, "the getter keeps its result in %s; %s changes %s, which the kept result was computed from, without "
                             "resetting it: a later read returns the value of the old fields" % (
                                 sorted(memo), bad[0][0], bad[0][1]), g.node)
            else:
                ctx.holds(rule, inst, "memoised in %s, reset by every writer of its inputs" % sorted(memo))
