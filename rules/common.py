"""Helpers shared by the rule modules."""
from fractions import Fraction
from sa import guards as G
from sa.sym import SELF, contains, is_const, pretty, walk, root_field, is_heap_path, mk_cmp, mk_not, mk_bool, mk_bin
from sa.model import AnalysisError, EnumVal
from sa.paths import runs_of

LEN = ("glob", "len")


def mname(callsym):
    """method / function name of a call Sym"""
    f = callsym[1]
    if f[0] == "attr":
        return f[2]
    if f[0] == "glob":
        return f[1]
    if f[0] == "clsref":
        return f[1]
    return None


def is_self_call(callsym, name=None):
    f = callsym[1]
    return f[0] == "attr" and f[1] == SELF and (name is None or f[2] == name)


def lensym(x):
    return ("call", LEN, (x,), ())


def sub(base, key):
    return ("sub", base, key if isinstance(key, tuple) else ("c", key))


def field(name, base=SELF):
    return ("attr", base, name)


def affine(s):
    """Sym -> ({term: coef}, const) with Fractions, or None if not affine in opaque terms."""
    k = s[0]
    if k == "c":
        v = s[1]
        if isinstance(v, bool):
            v = int(v)
        if isinstance(v, (int, float)):
            return {}, Fraction(v)
        return None
    if k == "bin":
        op = s[1]
        if op in ("+", "-"):
            a, b = affine(s[2]), affine(s[3])
            if a is None or b is None:
                return None
            t = dict(a[0])
            sg = 1 if op == "+" else -1
            for x, c in b[0].items():
                t[x] = t.get(x, 0) + sg * c
            return {x: c for x, c in t.items() if c != 0}, a[1] + sg * b[1]
        if op == "*":
            a, b = affine(s[2]), affine(s[3])
            if a is None or b is None:
                return None
            if not a[0]:
                return {x: c * a[1] for x, c in b[0].items() if c * a[1] != 0}, a[1] * b[1]
            if not b[0]:
                return {x: c * b[1] for x, c in a[0].items() if c * b[1] != 0}, a[1] * b[1]
            # (sum) * t with t a single opaque term: distribute
            from sa.sym import mk_bin
            for u, v in ((a, b), (b, a)):
                if len(v[0]) == 1 and v[1] == 0 and list(v[0].values())[0] == 1:
                    t = list(v[0])[0]
                    out = {}
                    for x, c in u[0].items():
                        k = mk_bin("*", x, t)
                        out[k] = out.get(k, 0) + c
                    if u[1] != 0:
                        out[t] = out.get(t, 0) + u[1]
                    return {x: c for x, c in out.items() if c != 0}, Fraction(0)
            return {s: Fraction(1)}, Fraction(0)
    if k == "un" and s[1] == "-":
        a = affine(s[2])
        if a is None:
            return None
        return {x: -c for x, c in a[0].items()}, -a[1]
    return {s: Fraction(1)}, Fraction(0)


def affine_eq(a, b):
    x, y = affine(a), affine(b)
    return x is not None and y is not None and x == y


def affine_diff(a, b):
    """a - b as (terms, const) or None"""
    x, y = affine(a), affine(b)
    if x is None or y is None:
        return None
    t = dict(x[0])
    for k, c in y[0].items():
        t[k] = t.get(k, 0) - c
    return {k: c for k, c in t.items() if c != 0}, x[1] - y[1]


def min_leaves(s):
    """leaves of a min-closure: min(a, min(b, c)) -> [a, b, c]; anything else -> [s]"""
    if s[0] == "call" and s[1] == ("glob", "min") and not s[3]:
        out = []
        for a in s[2]:
            out.extend(min_leaves(a))
        return out
    return [s]


class Sinks:
    """Functions reaching the bus sink, the job-thread wake-up and the subscriber fan-out."""

    def __init__(self, ctx):
        P, G = ctx.prog, ctx.cg
        self.ctx = ctx
        self.send_q = P.func("ElectronicControlUnit", "send_message").qual
        self.wake_q = P.func("ElectronicControlUnit", "_job_thread_wakeup").qual
        self.notify_q = P.func("ElectronicControlUnit", "_notify_subscribers").qual
        self._reach = {}

    def _r(self, q):
        if q not in self._reach:
            self._reach[q] = self.ctx.cg.reach([q])
        return self._reach[q]

    def reaches(self, func, callsym, sink):
        targets, _ = self.ctx.cg.resolve(callsym, func)
        return any(sink in self._r(t.qual) for t in targets)

    def is_send(self, func, callsym):
        return self.reaches(func, callsym, self.send_q)

    def is_wake(self, func, callsym):
        return self.reaches(func, callsym, self.wake_q)

    def is_notify(self, func, callsym):
        return self.reaches(func, callsym, self.notify_q)

    def direct(self, func, callsym, sink):
        targets, _ = self.ctx.cg.resolve(callsym, func)
        return any(t.qual == sink for t in targets)


def bind_args(callsym, target):
    """{param: Sym} for a call of `target` (positional + keyword + defaults as AST->None)"""
    out = {}
    for i, a in enumerate(callsym[2]):
        if i < len(target.params):
            out[target.params[i]] = a
    for n, v in callsym[3]:
        out[n] = v
    return out


def runs(ctx, func, **kw):
    key = (func.qual, tuple(sorted((k, str(v)) for k, v in kw.items())))
    cache = ctx.__dict__.setdefault("_runs_cache", {})
    if key not in cache:
        cache[key] = [_canon_calls(ctx, func, _canon_pgn(ctx, func, r)) for r in runs_of(ctx.prog, func, **kw) if not contradictory(r)]
    return cache[key]


def contradictory(run):
    """a literal and its negation on the same path (cheap infeasibility pruning)"""
    seen = {}
    for a, p in lits(run.guards()):
        if seen.setdefault(a, p) != p:
            return True
    # a compound condition whose value is already decided by the literals of the path (e.g. `a or b` taken true after both
    # `a` and `b` were taken false - typical for a flag that was replaced by re-testing the conditions)
    for g, p in run.guards():
        if g[0] in ("bool", "not"):
            v = _eval3(g, seen)
            if v is not None and v != p:
                return True
    # the same condition evaluated twice with different outcomes: infeasible when nothing that can change its operands
    # happened in between (any store / delete / call of one of the object's own methods starts a new epoch)
    whole = {}
    epoch = 0
    cur = {}      # literals established since the last effect that could change their operands (plus stable ones)
    assigned_at = {}   # local name -> epoch of its (latest) plain assignment: `if name:` tests the value computed THEN
    at_epoch = {}      # epoch -> literals established about values computed in that epoch
    import ast as _ast
    for rec in run.recs:
        nd = rec.ev.node
        if rec.ev.kind == "stmt" and isinstance(nd, _ast.Assign):
            for t in nd.targets:
                if isinstance(t, _ast.Name):
                    assigned_at[t.id] = epoch
        elif rec.ev.kind == "stmt" and isinstance(nd, (_ast.AugAssign, _ast.AnnAssign)) and isinstance(nd.target, _ast.Name):
            assigned_at[nd.target.id] = epoch
        if rec.cond is not None and rec.pol is not None:
            tn = nd.operand if isinstance(nd, _ast.UnaryOp) and isinstance(nd.op, _ast.Not) else nd
            if isinstance(tn, _ast.Name) and tn.id in assigned_at:
                # a snapshot: consistent with what is known about the epoch in which the local was computed
                d = at_epoch.setdefault(assigned_at[tn.id], {})
                for a, v in lits([(rec.cond, rec.pol)]):
                    if d.setdefault(a, v) != v:
                        return True
                if not G.consistent(d):
                    return True
            else:
                d = at_epoch.setdefault(epoch, {})
                for a, v in lits([(rec.cond, rec.pol)]):
                    d.setdefault(a, v)
            g, p = rec.cond, rec.pol
            if g[0] == "not":
                g, p = g[1], not p
            prev = whole.get(g)
            if prev is not None and prev[0] != p and (prev[1] == epoch or _stable_sym(g)):
                return True
            whole[g] = (p, epoch)
            # arithmetic consistency of the literals of one epoch: X == a and X == b, X == a and X < c, ...
            new = lits([(rec.cond, rec.pol)])
            if new:
                for a, v in new:
                    cur[a] = v
                if not G.consistent(cur):
                    return True
        bump = False
        for e in rec.effects:
            if e.kind in ("store", "aug", "del"):
                epoch += 1
                bump = True
            elif e.kind == "call" and e.value[1][0] == "attr" and e.value[1][1] == SELF and run.evalr.cls is not None \
                    and run.evalr.prog.find_method(run.evalr.cls, e.value[1][2]) is not None:
                epoch += 1
                bump = True
        if bump:
            cur = {a: v for a, v in cur.items() if _stable_sym(a)}
    return False


def _eval3(f, asg):
    """three-valued evaluation of a guard formula under a partial assignment of its atoms"""
    k = f[0]
    if k == "not":
        v = _eval3(f[1], asg)
        return None if v is None else (not v)
    if k == "bool":
        vals = [_eval3(x, asg) for x in f[2]]
        if f[1] == "and":
            if any(v is False for v in vals):
                return False
            return True if all(v is True for v in vals) else None
        if any(v is True for v in vals):
            return True
        return False if all(v is False for v in vals) else None
    if k == "c" and isinstance(f[1], (bool, int)) and not isinstance(f[1], str):
        return bool(f[1])
    return asg.get(f)


def _stable_sym(s):
    from sa.paths import _stable
    return _stable(s)


def guard_on(run, idx, pred):
    """guards (sym, pol) before record idx whose sym satisfies pred"""
    return [(g, p) for g, p in run.guards(idx) if pred(g)]


def has_lit(guards, sym, pol):
    for g, p in guards:
        if g == sym and p == pol:
            return True
        if g[0] == "not" and g[1] == sym and p == (not pol):
            return True
    return False


def lits(guards):
    """flatten conjunction-like guards into literals {(atom, pol)} (and under True, or under False)"""
    out = set()

    def rec(f, pol):
        if f[0] == "not":
            rec(f[1], not pol)
        elif f[0] == "bool" and ((f[1] == "and" and pol) or (f[1] == "or" and not pol)):
            for x in f[2]:
                rec(x, pol)
        else:
            out.add((f, pol))
    for g, p in guards:
        rec(g, p)
    return out


def loc(func, node):
    return "%s:%s" % (func.file, getattr(node, "lineno", "?"))


def resolve_under(s, F):
    """replace (a if c else b) by a / b where formula F decides c"""
    from sa import guards as G

    def fn(x):
        if x[0] == "ife":
            try:
                if G.implies(F, x[1])[0]:
                    return x[2]
                if G.implies(F, mk_not(x[1]))[0]:
                    return x[3]
            except AnalysisError:
                return None
        return None
    return G.renorm(G.subst(s, fn))


def ife_alts(s):
    """the alternatives of a (possibly nested) conditional expression at the top of s"""
    if s[0] == "ife":
        return ife_alts(s[2]) + ife_alts(s[3])
    return [s]


def is_helper(fn):
    """a same-class method that is not one of the functions the rules are anchored on (introduced by a later clean-up);
    the path enumerator inlines such calls, and the AST-level rules attribute their bodies to their callers"""
    from sa.paths import anchors
    return fn.cls is not None and fn.name not in anchors() and fn.kind == "method"


def owners(ctx, fn, _seen=None):
    """the anchor functions through which a helper is reached (fn itself if it is an anchor)"""
    if not is_helper(fn):
        return {fn.qual}
    seen = _seen if _seen is not None else set()
    if fn.qual in seen:
        return set()
    seen.add(fn.qual)
    out = set()
    for s in ctx.cg.callers_of(fn.qual):
        out |= owners(ctx, s.caller, seen)
    # calls that the path enumerator inlined do not show up as call sites: find them syntactically (self.<name>(...) or a bound
    # method value self.<name> stored in a dispatch table) in the methods of the same class
    import ast as _ast
    cmap = ctx.__dict__.setdefault("_ast_callers", {})
    if not cmap:
        for g in ctx.prog.all_funcs():
            if g.cls is None:
                continue
            for n in _ast.walk(g.node):
                if isinstance(n, _ast.Attribute) and isinstance(n.value, _ast.Name) and n.value.id == "self" and isinstance(n.ctx, _ast.Load):
                    cmap.setdefault((g.cls.name, n.attr), set()).add(g.qual)
    for q in cmap.get((fn.cls.name, fn.name), ()):
        if q != fn.qual:
            out |= owners(ctx, ctx.prog.funcs[q], seen)
    return out


def ret_is_none(run, value):
    """the returned value is None on this path: the constant, or a value the path condition says equals None"""
    if value == ("c", None):
        return True
    return any(p and g == mk_cmp("==", value, ("c", None)) for g, p in lits(run.guards()))


def expand_forwarders(ctx, func, s, depth=0):
    """replace calls of one-line pure forwarding methods (`def m(self, x): return <expr>`) of typed receivers by their bodies,
    with the parameters bound and `self` replaced by the receiver"""
    import ast as _ast
    from sa.sym import SymEval
    from sa.objeval import bind
    P, cg = ctx.prog, ctx.cg

    def fn(x):
        if x[0] == "call" and x[1][0] == "attr" and depth < 3:
            base, m = x[1][1], x[1][2]
            try:
                ts = cg.types_of(base, func)
            except Exception:
                return None
            if len(ts) != 1:
                return None
            c = P.top_classes.get(list(ts)[0])
            g = P.find_method(c, m) if c is not None else None
            if g is None or g.kind != "method":
                return None
            body = [st for st in g.node.body if not (isinstance(st, _ast.Expr) and isinstance(st.value, _ast.Constant))]
            if len(body) != 1 or not isinstance(body[0], _ast.Return) or body[0].value is None:
                return None
            if any(isinstance(n, (_ast.Yield, _ast.Await, _ast.Lambda, _ast.NamedExpr)) for n in _ast.walk(body[0])):
                return None
            try:
                env = bind(P, g, list(x[2]), x[3])
                actual = {("fwdarg", k): v for k, v in env.items()}
                ev = SymEval(P, g, {k: ("fwdarg", k) for k in env})
                v = ev.expr(body[0].value)
            except AnalysisError:
                return None
            if ev.effects and any(e.kind != "call" for e in ev.effects):
                return None
            # the callee's own `self` is the receiver here; then the actual arguments (which are in the caller's terms) go in
            v = G.subst(v, lambda y: base if y == SELF else None)
            return G.subst(v, lambda y: actual.get(y) if y[0] == "fwdarg" else None)
        return None
    return G.renorm(G.subst(s, fn))


def canon_from_bytes(s):
    """int.from_bytes(x, 'little', signed=False) in any argument spelling -> ("le_uint", x); other Syms unchanged"""
    def fn(x):
        if x[0] == "call" and x[1] == ("attr", ("glob", "int"), "from_bytes"):
            kw = dict(x[3])
            data = x[2][0] if x[2] else kw.get("bytes")
            bo = x[2][1] if len(x[2]) > 1 else kw.get("byteorder")
            sg = kw.get("signed", ("c", False))
            if data is not None and bo == ("c", "little") and sg == ("c", False):
                return ("le_uint", data)
        return None
    return G.subst(s, fn)


def _canon_pgn(ctx, func, run):
    """notify of the data link layers: a ParameterGroupNumber constructed directly from the fields of the received identifier
    (data page = pgn bit 16, PF = bits 8..15, PS = bits 0..7) is the same object as a default one filled by from_message_id(mid):
    after checking that in the known-bits domain the run is rewritten to the canonical spelling the notify rules read"""
    if func.name != "notify" or func.cls is None or func.cls.name not in ("J1939_21", "J1939_22"):
        return run
    from sa.bits import BV, BitEval
    MID = ("call", ("clsref", "MessageId"), (), (("can_id", ("p", "can_id")),))
    PGNF = ("attr", MID, "parameter_group_number")
    PG = ("call", ("clsref", "ParameterGroupNumber"), (), ())
    run = _canon_pgn_value(ctx, run, PG)
    cands = set()
    for rec in run.recs:
        syms = ([rec.cond] if rec.cond is not None else []) + [x for e in rec.effects for x in (e.target, e.value) if isinstance(x, tuple)]
        for s_ in syms:
            for x in walk(s_):
                if x[0] == "call" and x[1] == ("clsref", "ParameterGroupNumber") and len(x[2]) == 3 and not x[3] and contains(x, PGNF):
                    cands.add(x)
    if len(cands) != 1:
        return run
    X = cands.pop()
    be = BitEval(lambda s_: BV.input("pgn", 18) if s_ == PGNF else None)
    try:
        from sa.objeval import construct
        o = construct(ctx.prog, "ParameterGroupNumber", X[2])       # the constructor applies its own masks
        dp, pf, ps = (be.ev(o.get(n_)) for n_ in ("data_page", "pdu_format", "pdu_specific"))
    except AnalysisError:
        return run
    ok = dp.window(0, 1) == [("b", "pgn", 16)] and dp.width() is not None and dp.width() <= 1 and \
        pf.window(0, 8) == [("b", "pgn", 8 + i) for i in range(8)] and pf.width() is not None and pf.width() <= 8 and \
        ps.window(0, 8) == [("b", "pgn", i) for i in range(8)] and ps.width() is not None and ps.width() <= 8
    if not ok:
        return run

    def fn(x):
        return PG if x == X else None
    for rec in run.recs:
        if rec.cond is not None:
            rec.cond = G.renorm(G.subst(rec.cond, fn))
        for e in rec.effects:
            if isinstance(e.target, tuple):
                e.target = G.subst(e.target, fn)
            if isinstance(e.value, tuple):
                e.value = G.subst(e.value, fn)
    run.pgn_from_mid = True
    return run


def _canon_pgn_value(ctx, run, PG):
    """arithmetic on the numeric value of the received frame's PGN object (divmod(pgn.value, 256), pgn.value % 256, (pgn.value // 256) << 8 ...)
    is rewritten to the two spellings the notify rules read - pgn.pdu_specific and pgn.value & 0x1FF00 - when the known-bits domain
    proves them equal (the value getter is evaluated on an object with symbolic data page / PF / PS of their constructor widths)"""
    from sa.bits import BV, BitEval
    from sa.objeval import Obj
    VAL = ("attr", PG, "value")
    if not any(contains(x, VAL) for rec in run.recs for x in ([rec.cond] if rec.cond is not None else []) +
               [y for e in rec.effects for y in (e.target, e.value) if isinstance(y, tuple)]):
        return run
    cache = ctx.__dict__.setdefault("_pgn_value_bits", {})
    if "v" not in cache:
        try:
            o = Obj(ctx.prog, "ParameterGroupNumber", {"data_page": ("p", "dp"), "pdu_format": ("p", "pf"), "pdu_specific": ("p", "ps")})
            be0 = BitEval(lambda s_: BV.input(s_[1], {"dp": 1, "pf": 8, "ps": 8}[s_[1]]) if s_[0] == "p" and s_[1] in ("dp", "pf", "ps") else None)
            cache["v"] = be0.ev(o.get("value"))
        except (AnalysisError, KeyError):
            cache["v"] = None
    vb = cache["v"]
    if vb is None or vb.has_top():
        return run
    be = BitEval(lambda s_: vb if s_ == VAL else None)
    ps_bits = [("b", "ps", i) for i in range(8)]
    hi_bits = [0] * 8 + [("b", "pf", i) for i in range(8)] + [("b", "dp", 0)]
    PS, HI = ("attr", PG, "pdu_specific"), mk_bin("&", ("c", 0x1FF00), VAL)

    def fn(x):
        if x[0] == "bin" and contains(x, VAL) and x != HI:
            try:
                bv = be.ev(x)
                BitEval.pop_lossy()
            except AnalysisError:
                return None
            if bv.has_top() or bv.width() is None:
                return None
            if bv.width() <= 8 and bv.window(0, 8) == ps_bits:
                return PS
            if bv.width() <= 17 and bv.window(0, 17) == hi_bits:
                return HI
        return None

    def top_down(s_):
        # outermost arithmetic node first (subst is bottom-up and would rewrite the operands before the whole)
        if not isinstance(s_, tuple) or not s_:
            return s_
        r_ = fn(s_) if isinstance(s_[0], str) else None
        if r_ is not None:
            return r_
        return tuple(top_down(y) if isinstance(y, tuple) else y for y in s_)
    for rec in run.recs:
        if rec.cond is not None and contains(rec.cond, VAL):
            rec.cond = G.renorm(top_down(rec.cond))
        for e in rec.effects:
            if isinstance(e.target, tuple) and contains(e.target, VAL):
                e.target = top_down(e.target)
            if isinstance(e.value, tuple) and contains(e.value, VAL):
                e.value = top_down(e.value)
    return run


def _canon_calls(ctx, func, run):
    """calls of the package's own functions spelt with keyword arguments are rewritten to the positional spelling (when the
    keywords, after the positional ones, form a complete prefix of the callee's parameter list): the rules read arguments by position"""
    cg = ctx.__dict__.get("_cg") if "_cg" in ctx.__dict__ else None
    try:
        cg = ctx.cg
    except Exception:
        return run
    for rec in run.recs:
        for e in rec.effects:
            if e.kind != "call" or not isinstance(e.value, tuple) or len(e.value) < 4 or not e.value[3] or any(k == "**" for k, _ in e.value[3]):
                continue
            if e.value[1][0] == "clsref":
                continue        # constructors: partial keyword bindings are read by keyword
            try:
                targets, kind = cg.resolve(e.value, func)
            except Exception:
                continue
            if not targets:
                continue
            sigs = {(tuple(t.params), bool(t.vararg), bool(t.kwarg)) for t in targets}
            if len(sigs) != 1:
                continue
            params, va, kwa = sigs.pop()
            if va or kwa:
                continue
            kw = dict(e.value[3])
            pos = list(e.value[2])
            for pname in params[len(pos):]:
                if pname in kw:
                    pos.append(kw.pop(pname))
                else:
                    break
            if not kw:
                e.value = ("call", e.value[1], tuple(pos), ())
    return run
