"""DM14 memory access rules (C17, C18, C19)."""
import ast
from sa.sym import SELF, is_const, cval, pretty, walk, contains, root_field, mk_cmp, mk_not, mk_bool, mk_bin, SymEval, C
from sa.model import AnalysisError, EnumVal
from sa import guards as G
from sa.bits import BV, BitEval
from sa.objeval import construct, call_runs, Obj
from sa.paths import runs_of
from .common import mname, is_self_call, lensym, sub, field, affine, affine_eq, affine_diff, bind_args, runs, lits, loc, contradictory
from .layout import check_bits, param_leaf

Q, S, M = "Dm14Query", "DM14Server", "MemoryAccess"


def family(ctx, f):
    """f plus the same-class functions it (transitively) calls - a public entry point and its implementation helpers"""
    out, todo = [], [f]
    while todo:
        g = todo.pop()
        if g in out:
            continue
        out.append(g)
        for s in ctx.cg.sites.get(g.qual, []):
            for t in s.targets:
                if t.cls is not None and f.cls is not None and t.cls.name == f.cls.name and t not in out:
                    todo.append(t)
    return out


def must_tags(ctx, f, depth=0, _memo=None):
    """(set of ('unsub', cb) tags on every non-raising path, final state value stored on every such path or None)"""
    memo = _memo if _memo is not None else {}
    if f.qual in memo:
        return memo[f.qual]
    memo[f.qual] = (set(), None)
    if depth > 3:
        return memo[f.qual]
    alltags, states = None, set()
    for r in runs(ctx, f):
        if r.term in ("raise", "exc", "cut"):
            continue
        tags, st = _run_tags(ctx, f, r, 0, depth, memo)
        alltags = tags if alltags is None else (alltags & tags)
        states.add(st)
    res = (alltags or set(), list(states)[0] if len(states) == 1 else None)
    memo[f.qual] = res
    return res


def _run_tags(ctx, f, r, start, depth, memo):
    tags, st = set(), None
    for i, e in r.effects():
        if i < start:
            continue
        if e.kind == "store" and e.target == field("state"):
            st = e.value
        if e.kind == "call":
            if e.value[1] == ("attr", field("_ca"), "unsubscribe") and e.value[2]:
                tags.add(("unsub", e.value[2][0]))
            elif is_self_call(e.value) and not (r.recs[i].ev.extra and isinstance(r.recs[i].ev.extra, tuple) and r.recs[i].ev.extra[0] == "raised"):
                t, _ = ctx.cg.resolve(e.value, f)
                for g in t:
                    if g.cls is not None and f.cls is not None and g.cls.name == f.cls.name:
                        tg, s2 = must_tags(ctx, g, depth + 1, memo)
                        tags |= tg
                        if s2 is not None:
                            st = s2
    return tags, st


def _subscribes(ctx, f, seen=None):
    seen = seen or set()
    if f.qual in seen:
        return False
    seen.add(f.qual)
    for s in ctx.cg.sites.get(f.qual, []):
        if s.sym[1] == ("attr", field("_ca"), "subscribe"):
            return True
        for t in s.targets:
            if t.cls is not None and f.cls is not None and t.cls.name == f.cls.name and _subscribes(ctx, t, seen):
                return True
    return False


def enumv(ctx, cls, name):
    v = ctx.prog.resolve_chain([cls, name], None)
    if not isinstance(v, EnumVal):
        raise AnalysisError("anchor vanished: %s.%s" % (cls, name))
    return ("c", v)


# --------------------------------------------------------------------------- frame builders
def _client_dm14(ctx):
    """payload list of Dm14Query._send_dm14 in terms of fields/param"""
    f = ctx.prog.func(Q, "_send_dm14")
    for r in runs(ctx, f):
        for _, e in r.effects():
            if e.kind == "call" and e.value[1] == ("attr", field("_ca"), "send_pgn"):
                return f, e, e.value[2]
    raise AnalysisError("anchor vanished: send in %s" % f.qual)


def _q_leaf(s):
    if s == ("attr", ("attr", SELF, "command"), "value"):
        return BV.input("command", 3)
    if s == field("object_count"):
        return BV.input("object_count", 8)
    if s == field("direct"):
        return BV.input("direct", 1)
    if s == field("address"):
        return BV.input("address", 32)
    if s == ("p", "key_or_user_level"):
        return BV.input("key", 16)
    return None


def dm14_layout(ctx, rule="R-LAYOUT"):
    from spec import sae
    P = ctx.prog
    # enumerations equal the J1939-73 values
    for cls, table in (("Command", sae.DM14_COMMAND), ("Dm15Status", sae.DM15_STATUS)):
        c = P.cls(cls)
        for k, v in table.items():
            got = c.consts.get(k)
            inst = "%s.%s = %d" % (cls, k, v)
            if not isinstance(got, EnumVal) or got.value != v:
                ctx.violated(rule, P.func(Q, "_send_dm14"), inst, "constant is %r" % (got,), c.node)
            else:
                ctx.holds(rule, inst)
    if max(v.value for v in P.cls("Command").consts.values() if isinstance(v, EnumVal)) > 7:
        ctx.violated(rule, P.func(Q, "_send_dm14"), "command fits 3 bits", "Command has a member above 7", P.cls("Command").node)
    f, e, a = _client_dm14(ctx)
    data = a[4] if len(a) > 4 else None
    be = BitEval(_q_leaf)
    inst = "DM14 builder: count | cmd<<1 + ptr-type<<4 + 1 | 4-byte little-endian pointer | 16-bit key/user level"
    if data is None or data[0] != "list" or len(data[1]) != 8:
        ctx.violated(rule, f, inst, "payload is %s" % pretty(data)[:100], e.node)
        return
    spec = [[(0, 8, "object_count", 0)], [("constbits", 0, 1, 1), (1, 3, "command", 0), (4, 1, "direct", 0)]] + \
        [[(0, 8, "address", 8 * i)] for i in range(4)] + [[(0, 8, "key", 0)], [(0, 8, "key", 8)]]
    pr = []
    bvs = []
    for k in range(8):
        bv = be.ev(data[1][k])
        bvs.append(bv)
        pr.extend("byte %d: %s" % (k, x) for x in check_bits(bv, spec[k], {}))
    if pr:
        ctx.violated(rule, f, inst, "; ".join(pr[:4]), e.node)
    else:
        ctx.holds(rule, inst)
    pgf = field("_pgn")
    if a[1] not in (mk_bin("&", mk_bin(">>", pgf, ("c", 8)), ("c", 255)), ("c", sae.PGN["DM14"] >> 8)) or a[2] != mk_bin("&", field("_dest_address"), ("c", 255)):
        ctx.violated(rule, f, "DM14 addressing", "send_pgn(PF=%s, PS=%s)" % (pretty(a[1]), pretty(a[2])), e.node)
    # server decode of that frame (IDLE case, no seed/key)
    g = P.func(S, "parse_dm14")
    lst = ("list", tuple(("sub", ("p", "data"), ("c", i)) for i in range(8)))
    for state, fields in (("IDLE", ("command", "pointer_type", "object_count", "access_level", "address", "direct")),
                          ("WAIT_FOR_KEY", ("command", "object_count", "key", "address"))):
        pre = {"state": enumv(ctx, "ResponseState", state), "sa": ("c", None), "address": ("c", None), "_busy": ("c", False)}
        rs = [r for r in call_runs(P, g, [("p", "priority"), ("c", sae.PGN["DM14"]), ("p", "sa"), ("p", "timestamp"), lst], (), pre)
              if r.term not in ("raise", "exc")]
        # one path per seed-configuration in IDLE; take any (stores of the decoded fields are before the split)
        if not rs:
            ctx.unknown(rule, "parse_dm14 %s path not found" % state)
            continue
        st = {}
        for _, ef in rs[0].effects():
            if ef.kind == "store" and ef.target[0] == "attr" and ef.target[1] == SELF:
                st[ef.target[2]] = ef.value
        def leaf(s):
            if s[0] == "sub" and s[1] == ("p", "data") and is_const(s[2]):
                return bvs[s[2][1]]
            return None
        bd = BitEval(leaf)
        want = {"command": [("b", "command", k) for k in range(3)], "pointer_type": [("b", "direct", 0)], "object_count": [("b", "object_count", k) for k in range(8)],
                "access_level": [("b", "key", k) for k in range(16)], "key": [("b", "key", k) for k in range(16)], "direct": [("b", "direct", 0)]}
        for fld in fields:
            inst = "server decode (%s) o client DM14 encode: %s" % (state, fld)
            if fld not in st:
                ctx.violated(rule, g, inst, "field is not decoded", g.node)
                continue
            if fld == "address":
                v = st[fld]
                if v == ("list", tuple(("sub", ("p", "data"), ("c", i)) for i in range(2, 6))):
                    ctx.holds(rule, inst + " = pointer bytes 3..6")
                else:
                    ctx.violated(rule, g, inst, "pointer taken from %s" % pretty(v)[:80], g.node)
                continue
            bv = bd.ev(st[fld])
            w = want[fld]
            if bv.window(0, len(w)) == w and bv.width() is not None and bv.width() <= len(w):
                ctx.holds(rule, inst)
            else:
                ctx.violated(rule, g, inst, "comes back as %s" % bv.describe(), g.node)


def _server_dm15(ctx, state, extra=()):
    """payload of DM14Server._send_dm15 for a constant state with length 8"""
    P = ctx.prog
    f = P.func(S, "_send_dm15")
    kw = [("length", ("c", 8)), ("direct", ("p", "direct")), ("status", ("p", "status")), ("state", enumv(ctx, "ResponseState", state)),
          ("object_count", ("p", "object_count")), ("sa", ("p", "sa")), ("error", ("p", "error")), ("edcp", ("p", "edcp"))]
    pre = {"_seed_generator": ("p", "seedgen")}
    rs = [r for r in call_runs(P, f, [], kw, pre) if r.term not in ("raise", "exc")]
    if len(rs) != 1:
        raise AnalysisError("_send_dm15(state=%s) has %d paths" % (state, len(rs)))
    r = rs[0]
    for _, e in r.effects():
        if e.kind == "call" and e.value[1] == ("attr", field("_ca"), "send_pgn"):
            return f, r, e, e.value[2]
    raise AnalysisError("no send in _send_dm15(state=%s)" % state)


def dm15_layout(ctx, rule="R-LAYOUT"):
    from spec import sae
    P = ctx.prog
    p = P.func(Q, "_parse_dm15")
    # client's extraction expressions (first statements, path-independent)
    ext = {}
    for r in runs(ctx, p):
        env = r.evalr.env
        for k in ("seed", "status", "error", "edcp", "length"):
            if k in env and k not in ext:
                ext[k] = env[k]
    need = {"seed", "status", "error", "edcp", "length"}
    ext.setdefault("length", ("sub", ("p", "data"), ("c", 0)))
    if not need <= set(ext):
        ctx.unknown(rule, "client DM15 fields not found: %s" % sorted(need - set(ext)))
        return

    def leaf_inputs(s):
        if s == ("p", "status"):
            return BV.input("status", 3)
        if s == ("p", "direct"):
            return BV.input("direct", 1)
        if s == ("p", "error"):
            return BV.input("error", 24)
        if s == ("p", "edcp"):
            return BV.input("edcp", 8)
        if s == ("p", "object_count"):
            return BV.input("object_count", 8)
        if s == field("seed") or (s[0] == "call" and s[1] == ("p", "seedgen")) or (s[0] == "call" and s[1] == field("_seed_generator")):
            return BV.input("seed", 16)
        if s == field("command"):
            return BV.input("command", 3)
        return None
    for state in ("WAIT_FOR_KEY", "SEND_PROCEED", "SEND_OPERATION_COMPLETE", "SEND_ERROR"):
        try:
            f, r, e, a = _server_dm15(ctx, state)
        except AnalysisError as ex:
            ctx.unknown(rule, str(ex))
            continue
        data = a[4]
        if data[0] != "list" or len(data[1]) != 8:
            ctx.unknown(rule, "DM15 %s payload not a fixed list: %s" % (state, pretty(data)[:80]))
            continue
        be = BitEval(leaf_inputs)
        bvs = [be.ev(x) for x in data[1]]
        def leaf(s, bvs=bvs):
            if s[0] == "sub" and s[1] == ("p", "data") and is_const(s[2]) and isinstance(s[2][1], int):
                return bvs[s[2][1]]
            if s[0] == "bytes-of" and s[1][0] == "sub" and s[1][1] == ("p", "data") and s[1][2][0] == "slice":
                lo, hi = cval(s[1][2][1]), cval(s[1][2][2])
                return bvs[lo:hi]
            return None
        bd = BitEval(leaf)
        inst = "client decode o server DM15 (%s)" % state
        pr = []
        if a[2] != mk_bin("&", ("p", "sa"), ("c", 255)):
            pr.append("DM15 addressed to %s, not the requester" % pretty(a[2]))
        st = bd.ev(ext["status"])
        if state == "SEND_OPERATION_COMPLETE":
            cmdv = r.evalr.heap.get(field("command"))
            if cmdv != ("c", sae.DM14_COMMAND["OPERATION_COMPLETED"]) or not st.is_const() or st.value() != sae.DM14_COMMAND["OPERATION_COMPLETED"]:
                pr.append("status field decodes to %s, expected 'operation completed' (4)" % st.describe())
        elif state == "SEND_ERROR":
            if not st.is_const() or st.value() != sae.DM15_STATUS["OPERATION_FAILED"]:
                pr.append("status field decodes to %s, expected 'operation failed' (5)" % st.describe())
            er = bd.ev(ext["error"])
            if er.window(0, 24) != [("b", "error", k) for k in range(24)] or er.width() != 24:
                pr.append("error indicator comes back as %s" % er.describe())
            ed = bd.ev(ext["edcp"])
            if ed.window(0, 8) != [("b", "edcp", k) for k in range(8)]:
                pr.append("EDCP extension comes back as %s" % ed.describe())
        else:
            if st.window(0, 3) != [("b", "status", k) for k in range(3)] or st.width() != 3:
                pr.append("status comes back as %s" % st.describe())
        sd = bd.ev(ext["seed"])
        if state == "WAIT_FOR_KEY":
            if sd.window(0, 16) != [("b", "seed", k) for k in range(16)] or sd.width() != 16:
                pr.append("seed comes back as %s" % sd.describe())
            stores = [x for _, x in r.effects() if x.kind == "store" and x.target == field("seed")]
            if not stores:
                pr.append("the issued seed is not remembered by the server")
        elif state in ("SEND_PROCEED", "SEND_OPERATION_COMPLETE"):
            if not sd.is_const() or sd.value() != 0xFFFF:
                pr.append("seed field of a non-seed DM15 is %s, expected 0xFFFF (no seed)" % sd.describe())
        if state == "SEND_PROCEED":
            ln = bd.ev(ext["length"])
            if ln.window(0, 8) != [("b", "object_count", k) for k in range(8)]:
                pr.append("granted object count comes back as %s" % ln.describe())
        if pr:
            ctx.violated(rule, f, inst, "; ".join(pr[:4]), e.node)
        else:
            ctx.holds(rule, inst)


def dm16(ctx, rule="R-DM16-PREFIX", rule_thr="R-DM16-THRESH"):
    from spec import sae
    P = ctx.prog
    LIM = sae.DM16_SINGLE_FRAME_MAX
    for cls, src in ((Q, field("bytes")), (S, field("data"))):
        f = P.func(cls, "_send_dm16")
        n = lensym(src)
        ok = False
        for r in runs(ctx, f, unroll=1):
            sends = [e for _, e in r.effects() if e.kind == "call" and e.value[1] == ("attr", field("_ca"), "send_pgn")]
            it = [rec for rec in r.recs if rec.ev.kind == "for" and rec.ev.pol == "iter"]
            if not sends or len(it) > 1:
                continue
            data = sends[0].value[2][4]

            def flat(x):
                if x[0] == "cat":
                    return [z for y in x[1] for z in flat(y)]
                if x[0] == "bin" and x[1] == "+":
                    return flat(x[2]) + flat(x[3])
                return [x]
            parts = tuple(flat(data))
            head = parts[0]
            inst = "%s._send_dm16: first byte = n for n <= 7 else 0xFF, then the n bytes in order" % cls
            pr = []
            if not it and any(rec.ev.kind == "for" for rec in r.recs):
                continue    # the append loop exists but is not entered on this path (n == 0)
            if not it:
                # no append loop on this path: the bytes are spliced in as a whole ([first, *src] / [first] + list(src) / a comprehension)
                if head[0] != "list" or len(head[1]) != 1 or len(parts) < 2:
                    continue
                rest = parts[1]
                whole = rest == src or (rest[0] == "call" and rest[1][0] == "glob" and rest[1][1] in ("list", "bytes", "bytearray") and rest[2] == (src,)) or \
                    (rest[0] == "sub" and rest[1] == src and rest[2][0] == "slice" and rest[2][1] in (None, ("c", 0)) and rest[2][2] in (None, n) and rest[2][3] is None) or \
                    (rest[0] == "comp" and len(rest[2]) == 1 and not rest[2][0][1] and (
                        (rest[2][0][0] == ("call", ("glob", "range"), (n,), ()) and rest[1] == ("sub", src, ("iter", rest[2][0][0]))) or
                        (rest[2][0][0] == src and rest[1] == ("iter", src))))
                first = head[1][0]
                want_first = ("ife", mk_cmp("<", ("c", LIM), n), ("c", 255), n)
                alt = ("ife", mk_not(mk_cmp("<", ("c", LIM), n)), n, ("c", 255))
                if first not in (want_first, alt):
                    pr.append("first byte is %s" % pretty(first))
                if not whole:
                    ctx.unknown(rule, "%s: payload %s not recognised" % (f.qual, pretty(data)[:80]))
                    ok = True
                    break
                if pr:
                    ctx.violated(rule, f, inst, "; ".join(pr), sends[0].node)
                else:
                    ctx.holds(rule, inst)
                ok = True
                break
            if head[0] != "list" or len(head[1]) < 2:
                ctx.unknown(rule, "%s: payload %s not recognised" % (f.qual, pretty(data)[:80]))
                break
            first, second = head[1][0], head[1][1]
            want_first = ("ife", mk_cmp("<", ("c", LIM), n), ("c", 255), n)
            if first != want_first:
                # accept the mirrored spelling n <= 7 -> n else 255
                alt = ("ife", mk_not(mk_cmp("<", ("c", LIM), n)), n, ("c", 255))
                if first != alt:
                    pr.append("first byte is %s" % pretty(first))
            idx = second[2] if second[0] == "sub" and second[1] == src else None
            if idx is None or idx[0] != "iter" or idx[1] != ("call", ("glob", "range"), (n,), ()):
                pr.append("payload bytes are %s" % pretty(second)[:60])
            if pr:
                ctx.violated(rule, f, inst, "; ".join(pr), sends[0].node)
            else:
                ctx.holds(rule, inst)
            ok = True
            break
        if not ok:
            ctx.unknown(rule, "%s loop path not found" % f.qual)
    for cls, store in ((Q, "mem_data"), (S, None)):
        f = P.func(cls, "_parse_dm16")
        data = ("p", "data")
        want = ("sub", data, ("slice", ("c", 1), mk_bin("+", ("call", ("glob", "min"), (("sub", data, ("c", 0)), mk_bin("-", lensym(data), ("c", 1))), ()), ("c", 1)), None))
        found = False
        for r in runs(ctx, f):
            for _, e in r.effects():
                for x in ([e.value] if e.kind == "store" else list(e.value[2]) if e.kind == "call" and isinstance(e.value, tuple) else []):
                    if isinstance(x, tuple) and x[0] == "sub" and x[1] == data and x[2][0] == "slice":
                        found = True
                        inst = "%s._parse_dm16 takes min(first byte, len - 1) bytes from offset 1" % cls
                        lo, hi = x[2][1], x[2][2]
                        okp = lo == ("c", 1) and hi is not None and affine_diff(hi, ("call", ("glob", "min"), (("sub", data, ("c", 0)), mk_bin("-", lensym(data), ("c", 1))), ())) == ({}, 1)
                        if not okp and hi is not None:
                            alt = ("call", ("glob", "min"), (mk_bin("-", lensym(data), ("c", 1)), ("sub", data, ("c", 0))), ())
                            okp = lo == ("c", 1) and affine_diff(hi, alt) == ({}, 1)
                        if okp:
                            ctx.holds(rule, inst)
                        else:
                            ctx.violated(rule, f, inst, "payload taken as %s" % pretty(x)[:80], e.node)
        if not found:
            ctx.unknown(rule, "%s payload slice not found" % f.qual)
    # thresholds on the DM16 payload byte count
    n_thr = 0
    for cls, src in ((Q, field("bytes")), (S, field("data"))):
        n = lensym(src)
        for fname in ("_send_dm16", "_wait_for_data", "_parse_dm16", "respond"):
            if fname not in P.cls(cls).methods:
                continue
            f = P.func(cls, fname)
            seen = set()
            for r in runs(ctx, f, unroll=1):
                syms = [g for g, _ in r.guards()] + [e.value for _, e in r.effects() if isinstance(e.value, tuple)]
                for s in syms:
                    for x in walk(s):
                        if x[0] == "cmp" and x[1] == "<" and ((x[2] == n and is_const(x[3])) or (x[3] == n and is_const(x[2]))):
                            if x in seen:
                                continue
                            seen.add(x)
                            n_thr += 1
                            # partition induced: n < c  -> small side is n <= c-1 ;  c < n -> small side is n <= c
                            small_max = (cval(x[3]) - 1) if x[2] == n else cval(x[2])
                            inst = "%s.%s compares the DM16 byte count at the single-frame boundary (n <= 7 | n >= 8)" % (cls, fname)
                            if small_max == LIM:
                                ctx.holds(rule_thr, inst)
                            else:
                                ctx.violated(rule_thr, f, "%s.%s DM16 size threshold" % (cls, fname),
                                             "the comparison splits at n <= %d | n >= %d, but a DM16 with 1 + n bytes fits one frame only for n <= 7: "
                                             "for n = 8 the data goes out by transport protocol while this side behaves as if it were a single frame" % (small_max, small_max + 1),
                                             f.node)
    if n_thr < 3:
        ctx.unknown(rule_thr, "only %d size comparisons found" % n_thr)
    # server: the end-of-message hook is registered exactly when the DM16 goes out by transport protocol (n >= 8 data bytes)
    f = P.func(S, "_send_dm16")
    n = lensym(field("data"))
    multi = mk_cmp("<", ("c", LIM), n)
    res = []
    for r in runs(ctx, f, unroll=1):
        sends = [i for i, e in r.effects() if e.kind == "call" and e.value[1] == ("attr", field("_ca"), "send_pgn")]
        if not sends:
            continue
        hook = [e for _, e in r.effects() if e.kind == "call" and e.value[1] == ("attr", field("_ca"), "subscribe") and e.value[2] == (("attr", SELF, "_parse_dm16"),)]
        F = G.conj([(g, p) for g, p in r.guards() if contains(g, n) or any(x[0] == "attr" and x[1] == SELF for x in walk(g))])
        try:
            ok, cex = G.implies(F, multi if hook else mk_not(multi))
        except AnalysisError as ex:
            ctx.unknown(rule_thr, "%s: %s" % (f.qual, ex))
            return
        if not ok:
            # a condition computed from the payload in some other way (e.g. the length of the assembled frame) is not decided here;
            # a condition that does not depend on the payload at all is wrong
            def direct(a):
                return a[0] == "cmp" and ((a[2] == n and is_const(a[3])) or (a[3] == n and is_const(a[2])))
            derived = [a for g, _ in r.guards() for a in G.atoms(g) if not direct(a) and contains(a, field("data"))]
            if derived:
                ctx.unknown(rule_thr, "%s: end-of-message hook condition %s is derived from the payload in a form that is not decided" % (f.qual, pretty(derived[0])[:80]))
                return
        res.append((bool(hook), ok, cex, (hook[0].node if hook else f.node)))
    inst = "%s._send_dm16 waits for the transport's end-of-message iff the DM16 has more than 7 data bytes" % S
    if not res:
        ctx.unknown(rule_thr, "no sending path in %s" % f.qual)
    elif all(ok for _, ok, _, _ in res) and any(h for h, _, _, _ in res):
        ctx.holds(rule_thr, inst)
    else:
        h, ok, cex, node = [x for x in res if not x[1]][0] if any(not x[1] for x in res) else res[0]
        ctx.violated(rule_thr, f, inst, "the end-of-message hook is %s on a path whose condition does not decide `len(data) > 7` (%s): a multi-packet "
                     "answer of few large objects is never completed, or a single-frame answer waits for an acknowledgement that never comes" % (
                         "registered" if h else "not registered", cex), node)


def chunk_slice(ctx, rule="R-CHUNK-SLICE"):
    P = ctx.prog
    f = P.func(Q, "_bytes_to_values")
    k = field("object_byte_size")
    raw = ("p", "raw_bytes")
    ok = False
    for r in runs(ctx, f, unroll=1):
        for _, e in r.effects():
            if e.kind == "call" and e.value[1] == ("attr", ("glob", "int"), "from_bytes"):
                a = e.value[2][0] if e.value[2] else dict(e.value[3]).get("bytes")
                kw = dict(e.value[3])
                if a is None or a[0] != "sub" or a[1] != raw or a[2][0] != "slice":
                    continue
                ok = True
                lo, hi = a[2][1], a[2][2]
                it = None
                for x in walk(a[2]):
                    if x[0] == "iter":
                        it = x
                inst = "_bytes_to_values: value i = bytes [k*i, k*i + k) little-endian, count len // k"
                pr = []
                if it is None or lo is None or hi is None:
                    pr.append("slice is %s" % pretty(a[2]))
                else:
                    rng = it[1]
                    nwhole = mk_bin("//", lensym(raw), k)
                    d = affine_diff(hi, lo)
                    if d is None or d != ({k: 1}, 0):
                        pr.append("slice ends at %s: chunk length is not the object size" % pretty(hi))
                    if rng[0] == "call" and rng[1] == ("glob", "range") and len(rng[2]) == 1:
                        # index loop: start = k * i, i in range(len // k)
                        if not affine_eq(lo, mk_bin("*", it, k)):
                            pr.append("slice starts at %s, expected object size * index" % pretty(lo))
                        if rng[2][0] != nwhole:
                            pr.append("loop count is %s" % pretty(rng))
                    elif rng[0] == "call" and rng[1] == ("glob", "range") and len(rng[2]) == 3:
                        # position loop: start in range(0, (len // k) * k, k)
                        if lo != it:
                            pr.append("slice starts at %s, expected the loop position" % pretty(lo))
                        if rng[2][0] != ("c", 0) or rng[2][2] != k or not affine_eq(rng[2][1], mk_bin("*", nwhole, k)):
                            pr.append("positions are %s, expected range(0, (len // size) * size, size)" % pretty(rng))
                    else:
                        pr.append("loop is over %s" % pretty(rng))
                order = kw.get("byteorder", e.value[2][1] if len(e.value[2]) > 1 else None)
                if order != ("c", "little"):
                    pr.append("byte order %s" % pretty(order))
                if kw.get("signed") != field("signed"):
                    pr.append("signedness %s not passed through" % pretty(kw.get("signed")))
                if pr:
                    ctx.violated(rule, f, inst, "; ".join(pr), e.node)
                else:
                    ctx.holds(rule, inst)
    if not ok:
        ctx.unknown(rule, "from_bytes call not found in %s" % f.qual)
    # shortcuts: a path that returns without entering the conversion loop hands out the bytes themselves - the unsigned reading of
    # 1-byte objects; it is the requested conversion only where the path condition says object size 1 AND unsigned
    for r in runs(ctx, f, unroll=1):
        if r.term != "return" or any(rec.ev.kind == "for" for rec in r.recs):
            continue
        ret = [e for _, e in r.effects() if e.kind == "ret"]
        if not ret:
            continue
        v = ret[-1].value
        if any(isinstance(x, tuple) and x == ("attr", ("glob", "int"), "from_bytes") for x in walk(v)):
            continue            # the conversion itself, spelt as a comprehension
        inst = "_bytes_to_values: a shortcut that returns the bytes themselves is taken only for unsigned 1-byte objects"
        plain = v == raw or (v[0] == "call" and v[1] in (("glob", "list"), ("glob", "bytearray"), ("glob", "bytes")) and v[2] == (raw,))
        gl = lits(r.guards())
        if not plain:
            if v == ("list", ()) and any(p and g2[0] == "cmp" and g2[1] == "==" and lensym(raw) in (g2[2], g2[3]) for g2, p in gl):
                continue
            ctx.unknown(rule, "%s: shortcut returns %s" % (inst, pretty(v)[:40]))
            continue
        one = any(p and g2 == mk_cmp("==", k, ("c", 1)) for g2, p in gl)
        uns = any((g2 == field("signed") and not p) or (g2 == mk_cmp("==", field("signed"), ("c", False)) and p) or
                  (g2 == mk_cmp("==", field("signed"), ("c", True)) and not p) for g2, p in gl)
        if one and uns:
            ctx.holds(rule, inst)
        else:
            ctx.violated(rule, f, inst, "the bytes are returned as they are on a path that %s: %s" % (
                "does not test the signedness" if one else "is not limited to object size 1",
                "a signed read of 1-byte objects returns 128..255 instead of -128..-1" if one else "multi-byte objects are not assembled"),
                ret[-1].node)
    g = P.func(Q, "_values_to_bytes")
    ok = False
    for r in runs(ctx, g, unroll=1):
        for _, e in r.effects():
            if e.kind == "call" and mname(e.value) == "to_bytes":
                ok = True
                a, kw = e.value[2], dict(e.value[3])
                inst = "_values_to_bytes: each value -> object-size bytes little-endian, in order"
                if (a[0] if a else kw.get("length")) == k and kw.get("byteorder", a[1] if len(a) > 1 else None) == ("c", "little") and e.value[1][1][0] == "iter" \
                        and e.value[1][1][1] == ("p", "values"):
                    ctx.holds(rule, inst)
                else:
                    ctx.violated(rule, g, inst, "conversion is %s" % pretty(e.value)[:90], e.node)
    if not ok:
        ctx.unknown(rule, "to_bytes call not found in %s" % g.qual)


def told(ctx, rule="R-DM14-TOLD"):
    P = ctx.prog
    f = P.func(M, "_listen_for_dm14")
    srv = field("server")
    n = 0
    for r in runs(ctx, f):
        for _, e in r.effects():
            if e.kind == "call" and e.value[1] == field("_proceed_function"):
                n += 1
                a = e.value[2]
                seeded = any(x == field("seed_security") and p for x, p in lits(r.guards()))
                inst = "proceed callback is told command, pointer (LE integer), pointer type, length, count, key, requester, level, seed [%s]" % (
                    "seed/key" if seeded else "no seed")
                def sf(n):
                    return ("attr", srv, n)
                ptr = ("call", ("attr", ("glob", "int"), "from_bytes"), (), (("bytes", sf("address")), ("byteorder", ("c", "little")), ("signed", ("c", False))))
                want = (sf("command"), ptr, sf("pointer_type"), sf("length"), sf("object_count"), sf("key") if seeded else ("c", 0xFFFF), sf("sa"),
                        sf("access_level"), sf("seed") if seeded else ("c", 0))
                from .common import expand_forwarders, canon_from_bytes
                a = tuple(canon_from_bytes(expand_forwarders(ctx, f, x)) for x in a)
                want = tuple(canon_from_bytes(x) for x in want)
                if a == want:
                    ctx.holds(rule, inst)
                else:
                    bad = [i for i, (x, y) in enumerate(zip(a, want)) if x != y]
                    ctx.violated(rule, f, inst, "argument(s) %s differ: got %s" % (bad, [pretty(a[i])[:40] for i in bad][:3]), e.node)
    if n < 2:
        ctx.unknown(rule, "proceed callback sites not found (%d)" % n)


def idle_reset(ctx, rule="R-IDLE-RESET"):
    """every return to IDLE clears the fields the admission guard treats as transaction identity"""
    P = ctx.prog
    g = P.func(S, "parse_dm14")
    idle = enumv(ctx, "ResponseState", "IDLE")
    ident = set()
    for r in runs(ctx, g):
        for gg, p in r.guards():
            if not (contains(gg, field("sa")) or contains(gg, field("_busy"))):
                continue
            for x in walk(gg):
                if x[0] == "cmp" and x[1] == "==" and ("c", None) in (x[2], x[3]):
                    o = x[2] if x[3] == ("c", None) else x[3]
                    if o[0] == "attr" and o[1] == SELF:
                        ident.add(o[2])
    ident.discard("_key_from_seed")
    if not ident:
        ctx.unknown(rule, "admission guard fields not found")
        return
    n = 0
    from .common import is_helper
    for fn in P.cls(S).methods.values():
        if is_helper(fn):
            continue        # analysed inlined into the anchor functions that call it
        for r in runs(ctx, fn):
            ss = [(i, e) for i, e in r.effects() if e.kind == "store" and e.target == field("state") and e.value == idle]
            if not ss:
                continue
            n += 1
            cleared = {e.target[2] for _, e in r.effects() if e.kind == "store" and e.target[0] == "attr" and e.target[1] == SELF and e.value == ("c", None)}
            missing = sorted(ident - cleared)
            lab = _case_label(r)
            inst = "%s.%s%s: return to IDLE clears %s" % (S, fn.name, lab, sorted(ident))
            if missing:
                ctx.violated(rule, fn, "%s.%s%s: return to IDLE clears the transaction identity" % (S, fn.name, lab),
                             "state becomes IDLE but %s keep(s) the finished transaction's value: the next request for another "
                             "pointer/requester is answered 'busy'" % missing, ss[0][1].node)
            else:
                ctx.holds(rule, inst)
    if n < 3:
        ctx.unknown(rule, "only %d IDLE stores found" % n)
    # converse: the identity is forgotten ONLY together with the return to IDLE - while a transaction is open (any other state)
    # the admission guard needs it to recognise the running requester
    for fn in P.cls(S).methods.values():
        if fn.name == "__init__" or is_helper(fn):
            continue
        seen = set()
        for r in runs(ctx, fn):
            clr = [(i, e) for i, e in r.effects() if e.kind == "store" and e.target[0] == "attr" and e.target[1] == SELF and e.target[2] in ident
                   and e.value == ("c", None)]
            if not clr or id(clr[0][1].node) in seen:
                continue
            st = [e.value for _, e in r.effects() if e.kind == "store" and e.target == field("state")]
            lab = _case_label(r)
            inst = "%s.%s%s: %s forgotten only when the transaction ends" % (S, fn.name, lab, sorted({e.target[2] for _, e in clr}))
            if st and st[-1] == idle:
                ctx.holds(rule, inst)
            elif not st and fn.name == "reset_query":
                ctx.holds(rule, inst)
            else:
                seen.add(id(clr[0][1].node))
                ctx.violated(rule, fn, inst, "the requester / pointer of the running transaction is cleared while the state stays %s: the admission "
                             "guard no longer knows whom the transaction belongs to, and a DM14 from another address is taken for the next message "
                             "of the running transaction" % (pretty(st[-1]) if st else "unchanged (not IDLE)"), clr[0][1].node)
    # third clause: the identity is BOUND when a transaction starts - on every path of parse_dm14 that leaves IDLE, each identity field
    # the admission guard compares with the frame holds that frame's value afterwards (otherwise the guard has nothing to compare with)
    cmpd = {}
    for r in runs(ctx, g):
        for gg, p in r.guards():
            for x in walk(gg):
                if x[0] == "cmp" and x[1] == "==" and ("c", None) not in (x[2], x[3]):
                    for a, b in ((x[2], x[3]), (x[3], x[2])):
                        if a[0] == "attr" and a[1] == SELF and a[2] in ident and (contains(b, ("p", "sa")) or contains(b, ("p", "data"))):
                            cmpd[a[2]] = b
    nb = 0
    for r in runs(ctx, g):
        if r.term in ("raise", "exc"):
            continue
        gl = lits(r.guards())
        if not any(p and x == mk_cmp("==", field("state"), idle) for x, p in gl):
            continue
        st = [e.value for _, e in r.effects() if e.kind == "store" and e.target == field("state")]
        if not st or st[-1] == idle:
            continue
        nb += 1
        last = {}
        for _, e in r.effects():
            if e.kind == "store" and e.target[0] == "attr" and e.target[1] == SELF and e.target[2] in cmpd:
                last[e.target[2]] = e
        for fld, frame_val in sorted(cmpd.items()):
            inst = "%s.parse_dm14 [IDLE]: starting a transaction binds self.%s to the frame" % (S, fld)
            e = last.get(fld)
            if e is None or e.value == ("c", None):
                ctx.violated(rule, g, inst, "the request is taken on (state becomes %s) but self.%s %s: the admission guard compares later frames with it, "
                             "so a DM14 from another requester / for another pointer is not recognised as foreign and joins the running transaction" % (
                                 pretty(st[-1]), fld, "is not stored" if e is None else "is stored as None"), g.node)
            elif not (contains(e.value, ("p", "sa")) or contains(e.value, ("p", "data"))):
                ctx.violated(rule, g, inst, "self.%s is set to %s, not to the value of the frame that starts the transaction" % (fld, pretty(e.value)[:50]), e.node)
            else:
                ctx.holds(rule, inst)
    if cmpd and nb == 0:
        ctx.unknown(rule, "no path of parse_dm14 leaving IDLE found")


def _case_label(r):
    for x, p in lits(r.guards()):
        if p and x[0] == "cmp" and x[1] == "==" and any(is_const(y) and isinstance(y[1], EnumVal) for y in (x[2], x[3])):
            v = x[2] if is_const(x[2]) and isinstance(x[2][1], EnumVal) else x[3]
            return " [%s]" % v[1].name
    return ""


# --------------------------------------------------------------------------- C18
def key_dom(ctx, rule="R-KEY-DOM"):
    P = ctx.prog
    f = P.func(M, "_listen_for_dm14")
    srv = field("server")
    ss = field("seed_security")
    vk = ("call", ("attr", srv, "verify_key"), (("attr", srv, "seed"), ("attr", srv, "key")), ())
    want = mk_bool("or", [mk_not(ss), vk])
    n = 0
    for r in runs(ctx, f):
        for i, e in r.effects():
            if e.kind == "call" and e.value[1] in (field("_proceed_function"), field("_notify_query_received")):
                n += 1
                F = G.conj(r.guards(i))
                ok, cex = G.implies(F, want)
                inst = "%s is dominated by: no seed security, or verify_key(issued seed, returned key)" % e.value[1][2]
                if ok:
                    ctx.holds(rule, inst)
                else:
                    ctx.violated(rule, f, inst, "the application is consulted although the key was not verified; counterexample %s" % cex, e.node, witness=cex)
    if n < 4:
        ctx.unknown(rule, "application callback sites not found (%d)" % n)
    # verify_key compares algorithm(seed) with the key
    v = P.func(S, "verify_key")
    rets = [inline for r in runs(ctx, v) for _, inline in [(0, None)]]
    okv = False
    for r in runs(ctx, v):
        for _, e in r.effects():
            if e.kind == "ret":
                w = mk_cmp("==", ("call", field("_key_from_seed"), (("p", "seed"),), ()), ("p", "key"))
                val = e.value
                while val[0] == "call" and val[1] == ("glob", "bool") and len(val[2]) == 1 and not val[3]:
                    val = val[2][0]
                okv = val == w
                if not okv:
                    ctx.violated(rule, v, "verify_key <=> algorithm(seed) == key", "returns %s" % pretty(e.value), e.node)
    if okv:
        ctx.holds(rule, "verify_key <=> configured algorithm(seed) == key")
    # the key is parsed from the frame's last two bytes, the seed is the issued one
    g = P.func(S, "parse_dm14")
    lst = ("list", tuple(("sub", ("p", "data"), ("c", i)) for i in range(8)))
    pre = {"state": enumv(ctx, "ResponseState", "WAIT_FOR_KEY"), "sa": ("c", None), "address": ("c", None), "_busy": ("c", False)}
    rs = [r for r in call_runs(P, g, [("p", "priority"), ("c", 0xD900), ("p", "sa"), ("p", "timestamp"), lst], (), pre) if r.term not in ("raise", "exc")]
    okk = False
    for r in rs:
        for _, e in r.effects():
            if e.kind == "store" and e.target == field("key"):
                def leaf(s):
                    if s[0] == "sub" and s[1] == ("p", "data") and is_const(s[2]):
                        return BV.input("d%d" % s[2][1], 8)
                    return None
                bv = BitEval(leaf).ev(e.value)
                okk = bv.window(0, 16) == [("b", "d6", k) for k in range(8)] + [("b", "d7", k) for k in range(8)] and bv.width() == 16
                if not okk:
                    ctx.violated(rule, g, "returned key = last two frame bytes little-endian", "key parsed as %s" % bv.describe(), e.node)
    if okk:
        ctx.holds(rule, "returned key = last two bytes of the key DM14, little-endian")
    # respond() serves only in WAIT_RESPONSE
    rp = P.func(M, "respond")
    wr = enumv(ctx, "DMState", "WAIT_RESPONSE")
    for r in runs(ctx, rp):
        for i, e in r.effects():
            if e.kind == "call" and e.value[1] == ("attr", srv, "respond"):
                if (mk_cmp("==", field("state"), wr), True) in lits(r.guards(i)):
                    ctx.holds(rule, "MemoryAccess.respond serves only in WAIT_RESPONSE")
                else:
                    ctx.violated(rule, rp, "MemoryAccess.respond serves only in WAIT_RESPONSE", "server.respond is reachable in another facade state", e.node)
    # wrong key leaves WAIT_RESPONSE
    for r in runs(ctx, f):
        if (vk, False) in lits(r.guards()):
            st = [e for _, e in r.effects() if e.kind == "store" and e.target == field("state")]
            inst = "a wrong key leaves WAIT_RESPONSE before the handler exits"
            if st and st[-1].value != wr:
                ctx.holds(rule, inst)
            else:
                ctx.violated(rule, f, inst, "after a wrong key the facade stays in WAIT_RESPONSE: respond() would then serve the data", r.recs[-1].ev.node)


def err_xlate(ctx, rule="R-ERR-XLATE"):
    from spec import sae
    P = ctx.prog
    p = P.func(Q, "_parse_dm15")
    busy, failed = ("c", sae.DM15_STATUS["BUSY"]), ("c", sae.DM15_STATUS["OPERATION_FAILED"])
    n = 0
    for r in runs(ctx, p):
        gl = lits(r.guards())
        taken = []
        for gg, pol in r.guards():
            st = [x for x in walk(gg) if x[0] == "cmp" and x[1] == "==" and (busy in (x[2], x[3]) or failed in (x[2], x[3]))]
            if st and pol and G.implies(gg, mk_bool("or", st))[0]:
                taken = st
        if not taken:
            continue
        n += 1
        puts = [e for _, e in r.effects() if e.kind == "call" and e.value[1] == ("attr", field("data_queue"), "put")]
        exc = [e for _, e in r.effects() if e.kind == "call" and e.value[1] == ("attr", field("exception_queue"), "put")]
        edv = r.evalr.env.get("edcp")
        if edv is None:
            cands = [y for x, _ in gl if x[0] == "cmp" and x[1] == "==" and (("c", 6) in (x[2], x[3]) or ("c", 7) in (x[2], x[3])) for y in (x[2], x[3]) if not is_const(y)]
            edv = cands[0] if cands else None
        marked = bool(exc)
        if edv is not None:
            wantm = mk_bool("or", [mk_cmp("==", edv, ("c", 6)), mk_cmp("==", edv, ("c", 7))])
            Fe = G.conj([(gg, pol) for gg, pol in r.guards() if contains(gg, edv) and any(x[0] == "cmp" and edv in (x[2], x[3]) for x in walk(gg))])
            okm, cexm = G.implies(Fe, wantm if marked else mk_not(wantm))
            if not okm:
                ctx.violated(rule, p, "error indicator present <=> EDCP extension is 6 or 7",
                             "an error response with EDCP extension %s %s an exception; counterexample %s" % (
                                 "outside {6, 7}" if marked else "6 or 7", "queues" if marked else "does not queue", cexm), p.node, witness=cexm)
                continue
        known = any(pol for x, pol in gl if x[0] == "cmp" and x[1] == "in")
        inst = "error DM15 (busy/failed%s): waiter woken%s" % (
            "" if not marked else ", known code" if known else ", unknown code", ", exception naming the error code queued" if marked else "")
        if len(puts) != 1:
            ctx.violated(rule, p, inst, "the blocked caller is not woken exactly once (%d puts)" % len(puts), p.node)
            continue
        if marked:
            ok = len(exc) == 1
            if ok:
                a = exc[0].value[2][0]
                err = r.evalr.env.get("error")
                ok = a[0] == "call" and a[1] == ("glob", "RuntimeError") and any(x[0] == "call" and x[1] == ("glob", "hex") and x[2] == (err,) for x in walk(a))
            if not ok:
                ctx.violated(rule, p, inst, "no exception interpolating the decoded error indicator is queued", p.node)
                continue
        ctx.holds(rule, inst)
    if n < 2:
        ctx.unknown(rule, "error-status paths not found (%d)" % n)
    # read/write raise what is queued
    for name in ("read", "write"):
        f = P.func(Q, name)
        ok = False
        for node in [n for g in family(ctx, f) if g.name not in ("_parse_dm15", "_parse_dm16") for n in ast.walk(g.node)]:
            if isinstance(node, ast.Raise) and node.exc is not None and "exception_queue.get" in ast.unparse(node.exc):
                ok = True
        inst = "Dm14Query.%s raises the queued exception" % name
        if ok:
            ctx.holds(rule, inst)
        else:
            ctx.violated(rule, f, inst, "queued error exceptions are never raised to the caller", f.node)
    # facade error constants
    f = P.func(M, "_listen_for_dm14")
    srv = field("server")
    vk = ("call", ("attr", srv, "verify_key"), (("attr", srv, "seed"), ("attr", srv, "key")), ())
    seen = set()
    for r in runs(ctx, f):
        errs = [e.value for _, e in r.effects() if e.kind == "store" and e.target == ("attr", srv, "error") and e.value != ("c", 0)]
        if not errs:
            continue
        wrong = (vk, False) in lits(r.guards())
        want = ("c", 0x1003) if wrong else ("c", 0x100)
        inst = "facade answers a %s with error indicator 0x%X" % ("wrong key" if wrong else "refusal", want[1])
        if errs[0] == want:
            ctx.holds(rule, inst)
        else:
            ctx.violated(rule, f, inst, "error indicator is %s" % pretty(errs[0]), r.recs[-1].ev.node)
    # the refusal / busy answer the server itself generates is one the client turns into an exception: its EDCP extension byte is
    # 6 or 7 (the values the client's test accepts) whatever happened before
    pf = P.func(S, "parse_dm14")
    serr = enumv(ctx, "ResponseState", "SEND_ERROR")
    n2 = 0
    for r in runs(ctx, pf):
        for i, e in r.effects():
            if not (e.kind == "call" and mname(e.value) == "_send_dm15"):
                continue
            a, kw = e.value[2], dict(e.value[3])
            stt = a[3] if len(a) > 3 else kw.get("state")
            if stt != serr:
                continue
            ed = a[8] if len(a) > 8 else kw.get("edcp")
            n2 += 1
            inst = "server refusal / busy answer carries an error indicator the client reports (EDCP extension 6 or 7)"
            if ed is None:
                ctx.violated(rule, pf, inst, "no EDCP extension is passed: the frame carries the default", e.node)
            elif is_const(ed):
                if ed[1] in (6, 7):
                    ctx.holds(rule, inst)
                else:
                    ctx.violated(rule, pf, inst, "EDCP extension is the constant %r: the client does not raise for it" % (ed[1],), e.node)
            elif ed[0] == "attr" and ed[1] == SELF:
                others = []
                for m in P.cls(S).methods.values():
                    for x in ast.walk(m.node):
                        if isinstance(x, ast.Assign):
                            for t in x.targets:
                                if isinstance(t, ast.Attribute) and isinstance(t.value, ast.Name) and t.value.id == "self" and t.attr == ed[2]:
                                    if not (isinstance(x.value, ast.Constant) and x.value.value in (6, 7)):
                                        others.append((m.name, x))
                if others:
                    ctx.violated(rule, pf, inst, "the EDCP extension byte is taken from self.%s, which %s sets to %s (line %d): after an operation "
                                 "that stored another value there (the default of respond() is 0xFF) the refusal goes out without error indicator and "
                                 "the client returns as if the operation had succeeded" % (
                                     ed[2], others[0][0], ast.unparse(others[0][1].value)[:30], others[0][1].lineno), e.node)
                else:
                    ctx.holds(rule, inst)
            else:
                ctx.unknown(rule, "%s: EDCP extension %s not decided" % (inst, pretty(ed)[:40]))
    if n2 == 0:
        ctx.unknown(rule, "server refusal answer not found in parse_dm14")


def timeout_raise(ctx, rule="R-TIMEOUT-RAISE"):
    P = ctx.prog
    ws = enumv(ctx, "QueryState", "WAIT_FOR_SEED")
    for name in ("read", "write"):
        f = P.func(Q, name)
        fam = [g for g in family(ctx, f) if g.name not in ("_parse_dm15", "_parse_dm16")]
        gets = [n for g in fam for n in ast.walk(g.node) if isinstance(n, ast.Call) and ast.unparse(n.func) == "self.data_queue.get"]
        inst = "Dm14Query.%s: blocking wait is bounded by max_timeout and 'no answer' raises" % name
        ok = len(gets) == 1 and any(k.arg == "timeout" and isinstance(k.value, ast.Name) and k.value.id == "max_timeout" for k in gets[0].keywords)
        if not ok and len(gets) == 1 and len(gets[0].args) >= 2 and isinstance(gets[0].args[1], ast.Name) and gets[0].args[1].id == "max_timeout":
            ok = True
        if not ok:
            ctx.violated(rule, f, inst, "the wait on the answer queue is not bounded by the caller's max_timeout", gets[0] if gets else f.node)
            continue
        # handler of queue.Empty raises in WAIT_FOR_SEED
        raised = False
        for node in [n for g in fam for n in ast.walk(g.node)]:
            if isinstance(node, ast.ExceptHandler) and node.type is not None and ast.unparse(node.type).endswith("Empty"):
                for x in ast.walk(node):
                    if isinstance(x, ast.Raise):
                        raised = True
        if raised:
            ctx.holds(rule, inst)
        else:
            ctx.violated(rule, f, inst, "a server that never answers does not lead to an exception", f.node)


def facade_listening(ctx, rule="R-RESTORE"):
    """the facade's DM14 listener: every path of _listen_for_dm14 that leaves the facade IDLE leaves the listener subscribed
    (as many subscribe as unsubscribe calls for it on that path) - otherwise the facade never sees another request"""
    P = ctx.prog
    f = P.func(M, "_listen_for_dm14")
    idle = enumv(ctx, "DMState", "IDLE")
    me = ("attr", SELF, "_listen_for_dm14")
    n = 0
    bad = None
    for r in runs(ctx, f):
        if r.term in ("raise", "exc"):
            continue
        st = [e.value for _, e in r.effects() if e.kind == "store" and e.target == field("state")]
        started_idle = (mk_cmp("==", field("state"), idle), True) in lits(r.guards())
        ends_idle = (st[-1] == idle) if st else started_idle
        if not ends_idle:
            continue
        n += 1
        un = [e for _, e in r.effects() if e.kind == "call" and e.value[1] == ("attr", field("_ca"), "unsubscribe") and e.value[2] == (me,)]
        su = [e for _, e in r.effects() if e.kind == "call" and e.value[1] == ("attr", field("_ca"), "subscribe") and e.value[2] == (me,)]
        if len(un) > len(su) and bad is None:
            bad = un[0]
    inst = "MemoryAccess._listen_for_dm14: every path that leaves the facade IDLE leaves its DM14 listener subscribed"
    if n == 0:
        ctx.unknown(rule, "no path of %s ends in IDLE" % f.qual)
    elif bad is not None:
        ctx.violated(rule, f, inst, "a path unsubscribes the facade's own DM14 listener and returns to IDLE without subscribing it again (refusal "
                     "at the proceed callback): the serving side is deaf to every later request", bad.node)
    else:
        ctx.holds(rule, inst)


def restore(ctx, rule="R-RESTORE", rule_sib="R-SIBLING-RESET"):
    P = ctx.prog
    # (i) facade read/write: WAIT_QUERY restored to IDLE on every exit, including exceptional ones
    idle = enumv(ctx, "DMState", "IDLE")
    wq = enumv(ctx, "DMState", "WAIT_QUERY")

    def may_raise_facade(node):
        for x in ast.walk(node):
            if isinstance(x, ast.Call) and ast.unparse(x.func) in ("self.query.read", "self.query.write"):
                return {"*"}
        return set()
    for name in ("read", "write"):
        f = P.func(M, name)
        bad = None
        n = 0
        for r in runs_of(P, f, unroll=1, may_raise=may_raise_facade):
            if contradictory(r):
                continue
            st = [e for _, e in r.effects() if e.kind == "store" and e.target == field("state")]
            if not any(e.value == wq for e in st):
                continue
            n += 1
            if st[-1].value != idle:
                bad = (r, st)
        inst = "MemoryAccess.%s: WAIT_QUERY is restored to IDLE on every exit (incl. an exception from the query)" % name
        if n == 0:
            ctx.unknown(rule, "%s: WAIT_QUERY store not found" % f.qual)
        elif bad:
            ctx.violated(rule, f, "MemoryAccess.%s restores IDLE on every exit" % name,
                         "when the query raises (error answer, timeout) the facade stays in WAIT_QUERY: every later read/write "
                         "raises 'Process already Running' and incoming requests are answered busy forever", bad[1][0].node)
        else:
            ctx.holds(rule, inst)
    # (ii) client read/write: callbacks unsubscribed and state IDLE on every exit
    qidle = enumv(ctx, "QueryState", "IDLE")

    def may_raise_q(node):
        out = set()
        for x in ast.walk(node):
            if isinstance(x, ast.Call):
                t = ast.unparse(x.func)
                if t == "self.data_queue.get":
                    out.add("queue.Empty")
                if t.startswith("self._") and t not in ("self._ca.subscribe", "self._ca.unsubscribe", "self._finish"):
                    out.add("*")
        return out
    need = {("unsub", ("attr", SELF, "_parse_dm15")), ("unsub", ("attr", SELF, "_parse_dm16"))}
    for name in ("read", "write"):
        f = P.func(Q, name)
        bad = None
        n = 0
        for r in runs_of(P, f, unroll=1, may_raise=may_raise_q):
            if contradictory(r):
                continue
            # first event that (transitively) subscribes
            start = None
            for i, e in r.effects():
                if e.kind != "call":
                    continue
                if e.value[1] == ("attr", field("_ca"), "subscribe"):
                    start = i
                    break
                if is_self_call(e.value):
                    t, _ = ctx.cg.resolve(e.value, f)
                    if any(_subscribes(ctx, g) for g in t):
                        start = i
                        break
            if start is None:
                continue
            n += 1
            tags, st = _run_tags(ctx, f, r, start + (1 if r.recs[start].effects and any(
                x.kind == "call" and x.value[1] == ("attr", field("_ca"), "subscribe") for x in r.recs[start].effects) else 1), 0, {})
            if not need <= tags or st != qidle:
                bad = (r, sorted(pretty(x[1]) for x in need - tags), st)
        inst = "Dm14Query.%s: on every exit both parser callbacks are unsubscribed and the state is IDLE" % name
        if n == 0:
            ctx.unknown(rule, "%s: subscription not found" % f.qual)
        elif bad:
            ctx.violated(rule, f, "Dm14Query.%s leaves nothing behind on exit" % name,
                         "an exit (%s) leaves %s subscribed and state %s: the stale callback answers the next transaction's frames" % (
                             bad[0].term, bad[1] or "nothing", pretty(bad[2]) if bad[2] else "unchanged"), f.node)
        else:
            ctx.holds(rule, inst)
    # (iii) sibling failure branches of the facade perform the same restoring effects
    f = P.func(M, "_listen_for_dm14")
    srv = field("server")
    branches = []
    for r in runs(ctx, f):
        errs = [e for _, e in r.effects() if e.kind == "store" and e.target == ("attr", srv, "error") and e.value != ("c", 0)]
        if not errs:
            continue
        eff = set()
        for _, e in r.effects():
            if e.kind == "store" and e.target == field("state") and e.value == idle:
                eff.add("state=IDLE")
            if e.kind == "call" and e.value[1] == ("attr", srv, "reset_query"):
                eff.add("server.reset_query()")
        branches.append((pretty(errs[0].value) + _case_label(r), eff, errs[0]))
    allf = set().union(*[b[1] for b in branches]) if branches else set()
    for lab, eff, e in branches:
        inst = "failure branch (error %s) restores like its siblings" % lab
        if eff == allf:
            ctx.holds(rule_sib, inst, str(sorted(eff)))
        else:
            ctx.violated(rule_sib, f, inst, "this branch lacks %s, which its sibling failure branches perform: the server object is left "
                         "in its mid-transaction state" % sorted(allf - eff), e.node)
    if len(branches) < 3:
        ctx.unknown(rule_sib, "only %d failure branches found" % len(branches))


# --------------------------------------------------------------------------- C19
def admit(ctx, rule="R-ADMIT-FIRST", rule_busy="R-BUSY-BRANCH"):
    from spec import sae
    P = ctx.prog
    g = P.func(S, "parse_dm14")
    sa, data = ("p", "sa"), ("p", "data")
    fsa, faddr, busy = field("sa"), field("address"), field("_busy")
    # pointer bytes of the frame: data[2:length-2] (length = field)
    n_b = n_s = 0
    for r in runs(ctx, g):
        gl = r.guards()
        if not gl:
            continue
        # the admission condition is the second condition on the path (after the PGN test)
        conds = [(x, p) for x, p in gl if contains(x, fsa) or contains(x, busy)]
        if not conds:
            continue
        adm, pol = conds[0]
        ptr = [x for x in walk(adm) if x[0] == "sub" and x[1] == data and x[2][0] == "slice"]
        if not ptr:
            ctx.violated(rule, g, "admission guard compares the pointer", "the guard does not compare the frame's pointer bytes", g.node)
            return
        want = mk_bool("or", [mk_bool("and", [mk_not(mk_cmp("==", fsa, ("c", None))), mk_not(mk_cmp("==", sa, fsa))]),
                              mk_bool("and", [mk_not(mk_cmp("==", faddr, ("c", None))), mk_not(mk_cmp("==", faddr, ptr[0]))]), busy])
        ok, cex = G.equivalent(adm, want)
        if not ok:
            ctx.violated(rule, g, "admission guard formula", "guard %s is not (requester set and different) or (pointer set and different) or busy; "
                         "counterexample %s" % (pretty(adm)[:140], cex), g.node, witness=cex)
            return
        lo, hi = ptr[0][2][1], ptr[0][2][2]
        if lo != ("c", 2):
            ctx.violated(rule, g, "admission guard pointer bytes", "pointer compared from byte %s" % pretty(lo), g.node)
            return
        stores = [e for _, e in r.effects() if e.kind == "store" and e.target[0] == "attr" and e.target[1] == SELF]
        sends = [e for _, e in r.effects() if e.kind == "call" and is_self_call(e.value, "_send_dm15")]
        if pol:
            n_b += 1
            inst = "busy branch: one DM15 'operation failed/busy' to the frame's sender, nothing of the running transaction touched"
            pr = []
            if len(sends) != 1:
                pr.append("%d DM15 answers" % len(sends))
            else:
                b = bind_args(sends[0].value, P.func(S, "_send_dm15"))
                if b.get("sa") != sa:
                    pr.append("answer addressed to %s, not the frame's source" % pretty(b.get("sa")))
                if b.get("status") != ("c", sae.DM15_STATUS["OPERATION_FAILED"]):
                    pr.append("status %s" % pretty(b.get("status")))
                if b.get("state") != enumv(ctx, "ResponseState", "SEND_ERROR"):
                    pr.append("builder case %s" % pretty(b.get("state")))
                er = b.get("error")
                # (error if error != 0 else 2), in either orientation of the conditional expression
                zero = mk_cmp("==", field("error"), ("c", 0))
                okerr = er is not None and er[0] == "ife" and (
                    (er[1] == mk_not(zero) and er[2] == field("error") and er[3] == ("c", 0x2)) or
                    (er[1] == zero and er[2] == ("c", 0x2) and er[3] == field("error")))
                if not okerr:
                    pr.append("error indicator %s (expected the configured error, else 0x2 busy)" % pretty(er))
                # fields written inside the builder for this constant case
                try:
                    rs = [x for x in call_runs(P, P.func(S, "_send_dm15"), list(sends[0].value[2]), sends[0].value[3]) if x.term not in ("raise", "exc")]
                    inner = {e.target[2] for x in rs for _, e in x.effects() if e.kind == "store" and e.target[0] == "attr" and e.target[1] == SELF}
                    regs = [e for x in rs for _, e in x.effects() if e.kind == "call" and e.value[1] in (("attr", field("_ca"), "subscribe"), ("attr", field("_ca"), "unsubscribe"))]
                except AnalysisError as ex:
                    inner = {"?" + str(ex)}
                    regs = []
                regs += [e for _, e in r.effects() if e.kind == "call" and e.value[1] in (("attr", field("_ca"), "subscribe"), ("attr", field("_ca"), "unsubscribe"))]
                if regs:
                    pr.append("the busy path changes the listener registrations (%s): the running transaction loses / gains a handler" % pretty(regs[0].value)[:60])
                written = {e.target[2] for e in stores} | inner
                extra = written - {"_busy", "_pgn"}
                for _, e in r.effects():
                    if e.kind == "call" and is_self_call(e.value, "set_busy"):
                        pass
                if extra:
                    pr.append("the busy path writes %s" % sorted(extra))
            if r.term != "return":
                pr.append("the busy path falls through into the state machine")
            if pr:
                ctx.violated(rule_busy, g, inst, "; ".join(pr), sends[0].node if sends else g.node)
            else:
                ctx.holds(rule_busy, inst)
        else:
            n_s += 1
    if n_b == 0 or n_s == 0:
        ctx.unknown(rule, "admission paths not found (busy=%d served=%d)" % (n_b, n_s))
    else:
        ctx.holds(rule, "state dispatch and every transaction-field store happen only when the admission guard is false")
        # no store precedes the guard
        for r in runs(ctx, g):
            first = None
            for i, rec in enumerate(r.recs):
                if rec.cond is not None and (contains(rec.cond, fsa) or contains(rec.cond, busy)):
                    first = i
                    break
            if first is None:
                continue
            early = [e for i, e in r.effects() if i < first and e.kind == "store"]
            if early:
                ctx.violated(rule, g, "nothing is written before the admission guard", "%s is written before the guard is evaluated" % pretty(early[0].target), early[0].node)


def facade_busy(ctx, rule="R-FACADE-BUSY"):
    P = ctx.prog
    f = P.func(M, "_listen_for_dm14")
    srv = field("server")
    wq = enumv(ctx, "DMState", "WAIT_QUERY")
    wr = enumv(ctx, "DMState", "WAIT_RESPONSE")
    n = 0
    for r in runs(ctx, f):
        gl = lits(r.guards())
        if (mk_cmp("==", field("state"), wq), True) in gl:
            n += 1
            seq = [(mname(e.value), e.value[2]) for _, e in r.effects() if e.kind == "call" and e.value[1][0] == "attr" and e.value[1][1] == srv]
            inst = "while the facade itself queries, an incoming DM14 is answered busy (set_busy(True) .. parse .. set_busy(False))"
            want = [("set_busy", (("c", True),)), ("parse_dm14", None), ("set_busy", (("c", False),))]
            ok = len(seq) == 3 and seq[0] == want[0] and seq[1][0] == "parse_dm14" and seq[2] == want[2]
            cbs = [e for _, e in r.effects() if e.kind == "call" and e.value[1] in (field("_proceed_function"), field("_notify_query_received"))]
            if ok and not cbs:
                ctx.holds(rule, inst)
            else:
                ctx.violated(rule, f, inst, "sequence is %s%s" % ([s[0] for s in seq], ", application callbacks are reachable" if cbs else ""), r.recs[-1].ev.node)
        if (mk_cmp("==", field("state"), wr), True) in gl or all(not p for x, p in gl if x[0] == "cmp" and contains(x, field("state")) and x[1] == "=="):
            cbs = [e for _, e in r.effects() if e.kind == "call" and e.value[1] in (field("_proceed_function"), field("_notify_query_received"))]
            if cbs and not any(p for x, p in gl if x[0] == "cmp" and x[1] == "==" and contains(x, field("state")) and any(
                    is_const(y) and isinstance(y[1], EnumVal) and y[1].name in ("IDLE", "REQUEST_STARTED") for y in (x[2], x[3]))):
                ctx.violated(rule, f, "no application callback outside IDLE / REQUEST_STARTED", "a DM14 arriving in another facade state reaches the application", cbs[0].node)
    if n == 0:
        ctx.violated(rule, f, "WAIT_QUERY case", "requests arriving while the facade is querying are not routed to a busy answer", f.node)
    else:
        ctx.holds(rule, "no application callback is reachable while waiting for respond()")


def facade_track(ctx, rule="R-FACADE-TRACK"):
    """the facade follows the server: it leaves IDLE only for a DM14 it found the server idle for (and handed to it) - a DM14
    arriving while the server is busy with somebody's transaction must not advance the facade's own state machine"""
    P = ctx.prog
    f = P.func(M, "_listen_for_dm14")
    srv = field("server")
    idle = enumv(ctx, "DMState", "IDLE")
    n = 0
    seen = set()
    for r in runs(ctx, f):
        gl = lits(r.guards())
        if (mk_cmp("==", field("state"), idle), True) not in gl:
            continue
        for i, e in r.effects():
            if e.kind == "store" and e.target == field("state") and e.value != idle and id(e.node) not in seen:
                gi = lits(r.guards(i))
                dom = any(p and contains(g, ("attr", srv, "state")) for g, p in gi)
                if dom:
                    n += 1
                    continue
                seen.add(id(e.node))
                n += 1
                ctx.violated(rule, f, "IDLE arm: the facade leaves IDLE only when the server is idle", "self.state becomes %s before / without the test that the "
                             "server is idle: a DM14 from an intruder during a running transaction moves the facade on, and its next DM14 is processed as "
                             "the continuation of a request - the application callbacks become reachable for it" % pretty(e.value), e.node)
    if n == 0:
        ctx.unknown(rule, "no state change found in the IDLE arm of %s" % f.qual)
    elif not seen:
        ctx.holds(rule, "IDLE arm: every state change is dominated by `server is idle`")


def forward_names(ctx, rule="R-FORWARD-NAMES", classes=None):
    """a method that forwards to the same-named method of a component passes each of its parameters to the
    callee parameter of the same name (argument-selection defects between adjacent same-typed parameters)"""
    P = ctx.prog
    n = 0
    for fn in P.all_funcs():
        if fn.cls is None or (classes and fn.cls.name not in classes):
            continue
        for sc in ctx.cg.sites.get(fn.qual, []):
            if mname(sc.sym) != fn.name or sc.sym[1][0] != "attr" or sc.sym[1][1] == SELF:
                continue
            for t in sc.targets:
                impl = _unwrap_forwarder(ctx, t)
                if impl is None:
                    continue
                shared = [p for p in fn.params if p in impl.params]
                if len(shared) < 2:
                    continue
                b = bind_args(sc.sym, impl)
                n += 1
                bad = [(k, v[1]) for k, v in b.items() if v[0] == "p" and v[1] in impl.params and v[1] != k]
                used = {x[1] for v in b.values() for x in walk(v) if x[0] == "p"}
                dropped = [p for p in shared if b.get(p) is None and p not in used]
                inst = "%s.%s forwards its parameters to %s.%s by name" % (fn.cls.name, fn.name, impl.cls.name if impl.cls else "?", impl.name)
                if bad:
                    ctx.violated(rule, fn, inst, "parameter %s is passed as the callee's `%s`%s" % (
                        bad[0][1], bad[0][0], " (and %s as `%s`)" % (bad[1][1], bad[1][0]) if len(bad) > 1 else ""), sc.node)
                elif dropped:
                    ctx.violated(rule, fn, inst, "parameter `%s` is accepted but not passed on: the callee silently uses its own default whatever the "
                                 "caller asked for" % dropped[0], sc.node)
                else:
                    ctx.holds(rule, inst)
        # constructors that hand their own parameters to a component's constructor
        if fn.name == "__init__":
            for sc in ctx.cg.sites.get(fn.qual, []):
                if sc.sym[1][0] != "clsref":
                    continue
                for impl in sc.targets:
                    if impl.name != "__init__" or impl.cls is None:
                        continue
                    shared = [p for p in fn.params if p in impl.params]
                    if len(shared) < 2:
                        continue
                    try:
                        b = bind_args(sc.sym, impl)
                    except AnalysisError:
                        continue
                    n += 1
                    bad = [(k, v[1]) for k, v in b.items() if v[0] == "p" and v[1] in impl.params and v[1] != k]
                    inst = "%s.__init__ hands its parameters to %s(...) by name" % (fn.cls.name, impl.cls.name)
                    if bad:
                        ctx.violated(rule, fn, inst, "parameter %s is passed as the component's `%s`%s" % (
                            bad[0][1], bad[0][0], " (and %s as `%s`)" % (bad[1][1], bad[1][0]) if len(bad) > 1 else ""), sc.node)
                    else:
                        ctx.holds(rule, inst)
    return n


def _unwrap_forwarder(ctx, t):
    """follow `def f(self, *args, **kwargs): ... self._f(*args, **kwargs)` to the implementation"""
    seen = 0
    while t.vararg and t.kwarg and not t.params and seen < 3:
        seen += 1
        nxt = None
        for node in ast.walk(t.node):
            if isinstance(node, ast.Call) and isinstance(node.func, ast.Attribute) and isinstance(node.func.value, ast.Name) \
                    and node.func.value.id == "self" and any(isinstance(a, ast.Starred) for a in node.args) and t.cls is not None:
                nxt = ctx.prog.find_method(t.cls, node.func.attr)
        if nxt is None:
            return None
        t = nxt
    return t


def queue_typestate(ctx, rule="R-QUEUE-TYPESTATE"):
    """producer/consumer agreement on the server's data queue: respond() consumes only in WAIT_FOR_DM16 (a write);
    every put must be confined to the write transaction too, otherwise stale items wait for the next write"""
    P = ctx.prog
    wf = enumv(ctx, "ResponseState", "WAIT_FOR_DM16")
    wr = ("c", P.resolve_chain(["Command", "WRITE", "value"], None))
    DQ = ("attr", field("data_queue"), "put")
    st_w = mk_cmp("==", field("state"), wf)
    cmd_w = mk_cmp("==", field("command"), wr)
    # consumer
    rp = P.func(S, "respond")
    n = 0
    for r in runs(ctx, rp):
        for i, e in r.effects():
            if e.kind == "call" and e.value[1] == ("attr", field("data_queue"), "get"):
                n += 1
                # ... or under the result of a helper that returns true only when it has started a write (the state itself may already
                # have moved on when the requester's DM16 was processed before the helper returned)
                via = False
                for g, p in lits(r.guards(i)):
                    if p and g[0] == "call" and g[1][0] == "attr" and g[1][1] == SELF and not g[2]:
                        h = P.cls(S).methods.get(g[1][2])
                        if h is None:
                            continue
                        rets = [(hr, e2.value) for hr in runs(ctx, h) for _, e2 in hr.effects() if e2.kind == "ret"]
                        if rets and all(v in (("c", False), ("c", None)) or G.implies(mk_bool("and", [G.conj(hr.guards()), v]), cmd_w)[0] for hr, v in rets):
                            via = True
                if via:
                    ctx.holds(rule, "respond() takes written data from the queue only in WAIT_FOR_DM16", "decided by a helper that returns true only for a started write")
                elif G.implies(G.conj(r.guards(i)), st_w)[0]:
                    ctx.holds(rule, "respond() takes written data from the queue only in WAIT_FOR_DM16")
                else:
                    ctx.violated(rule, rp, "respond() consumes only in WAIT_FOR_DM16", "the data queue is read outside the write transaction", e.node)
    # WAIT_FOR_DM16 is entered only for a write
    for fn in P.cls(S).methods.values():
        for r in runs(ctx, fn):
            for i, e in r.effects():
                if e.kind == "store" and e.target == field("state") and e.value == wf:
                    if G.implies(G.conj(r.guards(i)), cmd_w)[0]:
                        ctx.holds(rule, "WAIT_FOR_DM16 is entered only for command WRITE")
                    else:
                        ctx.violated(rule, fn, "WAIT_FOR_DM16 is entered only for command WRITE", "state stored on a path where the command is not known to be WRITE", e.node)
                if e.kind == "call" and e.value[1] == DQ:
                    n += 1
                    F = G.conj(r.guards(i))
                    inst = "%s.%s: put into the data queue is confined to the write transaction" % (S, fn.name)
                    if G.implies(F, st_w)[0] or G.implies(F, cmd_w)[0]:
                        ctx.holds(rule, inst)
                    else:
                        ctx.violated(rule, fn, inst, "the callback also runs for the end-of-message acknowledge of a multi-packet read and queues its "
                                     "payload; nothing consumes it, so the next write hands the application these stale bytes", e.node)
    if n < 2:
        ctx.unknown(rule, "queue operations not found (%d)" % n)


def seed_any(ctx, rule="R-SEED-ANY"):
    """client: whether a seed response (DM15 with length byte 0) is answered with the key does not depend on the value of the
    16-bit seed - in particular the boundary seed 0xFFFF (the 'no seed' pattern of the proceed response) is a legal seed"""
    P = ctx.prog
    f = P.func("Dm14Query", "_parse_dm15")
    D0 = ("sub", ("p", "data"), ("c", 0))
    seedbytes = (("sub", ("p", "data"), ("c", 6)), ("sub", ("p", "data"), ("c", 7)))
    OC = ("attr", SELF, "object_count")

    def pin(s):
        # a seed response carries 0 in the length byte; a transaction always asks for at least one object
        def fn(x):
            if x == D0:
                return ("c", 0)
            return None
        s = G.renorm(G.subst(s, fn))

        def fn2(x):
            if x[0] == "cmp" and x[1] == "==" and {x[2], x[3]} == {("c", 0), OC}:
                return ("c", False)
            if x[0] == "cmp" and x[1] == "<" and x[2] == ("c", 0) and x[3] == OC:
                return ("c", True)
            return None
        return G.renorm(G.subst(s, fn2))

    key_pcs, n = [], 0
    seed_exprs = []
    node = f.node
    for r in runs(ctx, f):
        for i, e in r.effects():
            if e.kind == "call" and mname(e.value) == "_send_dm14" and e.value[2] and e.value[2][0][0] == "call" and \
                    e.value[2][0][1] == ("attr", SELF, "_seed_from_key"):
                n += 1
                node = e.node
                arg = e.value[2][0][2]
                if arg:
                    seed_exprs.append(arg[0])
                if not arg or not contains(arg[0], ("p", "data")):
                    ctx.violated(rule, f, "key computed from the received seed", "the key algorithm is applied to %s, which is not taken from the received DM15" % (
                        pretty(arg[0])[:60] if arg else "nothing"), e.node)
                    return
                key_pcs.append(pin(G.conj(r.guards(i))))
                break
    if not key_pcs:
        ctx.unknown(rule, "no path of %s answers a seed with _send_dm14(self._seed_from_key(seed))" % f.qual)
        return
    phi = G.disj(key_pcs)
    ats = sorted(G.atoms(phi), key=repr)
    seed_atoms = [a for a in ats if any(contains(a, b) for b in seedbytes) or any(contains(a, pin(x)) or contains(a, x) for x in seed_exprs)]
    inst = "the key is sent for every 16-bit seed of a seed response (length byte 0)"
    if not seed_atoms:
        ctx.holds(rule, inst)
        return
    try:
        groups = {}
        for asg in G.assignments([phi]):
            k = tuple(asg[a] for a in ats if a not in seed_atoms)
            groups.setdefault(k, set()).add(G.evalf(phi, asg))
    except AnalysisError as ex:
        ctx.unknown(rule, str(ex))
        return
    if any(len(v) > 1 for v in groups.values()):
        ctx.violated(rule, f, inst, "with the length byte 0 of a seed response, whether the key is sent still depends on %s: for that seed value the client "
                     "takes the seed message for something else, never returns the key, and the server stays locked waiting for it" % (
                         " / ".join(pretty(a)[:60] for a in seed_atoms[:2])), node)
    else:
        ctx.holds(rule, inst)


def seed_bind(ctx, rule="R-SEED-BIND"):
    """server: the seed a key is verified against is the seed that was sent - `self.seed` is drawn only on the path that puts
    it into the seed DM15 (state WAIT_FOR_KEY); any other DM15 (busy answers in particular) leaves it alone"""
    P = ctx.prog
    c = P.cls("DM14Server")
    SEED = ("attr", SELF, "seed")
    n = 0
    for fn in c.methods.values():
        try:
            rs = runs(ctx, fn)
        except AnalysisError:
            continue
        seen = set()
        for r in rs:
            for i, e in r.effects():
                if e.kind not in ("store", "aug") or e.target != SEED or id(e.node) in seen:
                    continue
                if is_const(e.value) and e.value[1] is None:
                    continue  # cleared together with the transaction
                seen.add(id(e.node))
                n += 1
                inst = "%s draws a new seed only for the seed message it sends" % fn.name
                ok = False
                for g, p in lits(r.guards(i)):
                    if p and g[0] == "cmp" and g[1] == "==" and any(isinstance(x[1], EnumVal) and x[1].name == "WAIT_FOR_KEY" for x in (g[2], g[3]) if is_const(x)):
                        ok = True
                if ok:
                    ctx.holds(rule, inst)
                else:
                    ctx.violated(rule, fn, inst, "self.seed is overwritten on a path that is not the WAIT_FOR_KEY (seed message) arm: a DM15 sent for another reason "
                                 "- a busy answer to a third node - replaces the seed of the session in progress, so the right key is refused and a key "
                                 "for a seed nobody received is accepted", e.node)
    if n == 0:
        ctx.unknown(rule, "no store to DM14Server.seed found")


def listen_first(ctx, rule="R-LISTEN-FIRST"):
    """client and server register the handler of an expected reply BEFORE the frame that provokes the reply goes out: on no path is a
    subscribe call preceded by a send and followed by none (the reply may arrive before the sending call returns)"""
    P = ctx.prog
    SENDS = {"_send_dm14", "_send_dm15", "_send_dm16", "_send_operation_complete", "send_pgn"}
    n = 0
    for cls in (Q, S):
        for fn in sorted(P.cls(cls).methods.values(), key=lambda f: f.node.lineno):
            try:
                rs = runs(ctx, fn)
            except AnalysisError:
                continue
            bad = None
            has = False
            for r in rs:
                if r.term in ("raise", "exc"):
                    continue
                sends = [i for i, e in r.effects() if e.kind == "call" and mname(e.value) in SENDS]
                subs = [(i, e) for i, e in r.effects() if e.kind == "call" and e.value[1] == ("attr", field("_ca"), "subscribe")]
                if not subs or not sends:
                    continue
                has = True
                for i, e in subs:
                    if any(j < i for j in sends) and not any(j > i for j in sends) and bad is None:
                        bad = e
            if not has:
                continue
            n += 1
            inst = "%s.%s registers reply handlers before the frame that provokes the reply is sent" % (cls, fn.name)
            if bad is not None:
                ctx.violated(rule, fn, inst, "%s is subscribed only after the last frame of this step has been sent: a reply that arrives before the sending "
                             "call returns (fast peer, blocking driver) finds no handler and is lost - the transaction never completes" % pretty(bad.value[2][0])[:40], bad.node)
            else:
                ctx.holds(rule, inst)
    if n == 0:
        ctx.unknown(rule, "no function that both sends and subscribes found")


def txn_fresh(ctx, rule="R-TXN-FRESH"):
    """the value <-> byte conversion of a transaction uses only fields that this transaction has set: every object field the converter
    reads and that any method other than the constructor writes is stored by the calling operation before the conversion is called
    (a field left over from the previous read / write must not shape the next one)"""
    P = ctx.prog
    c = P.cls(Q)
    # fields written outside the constructor
    mutable = set()
    for fn in c.methods.values():
        if fn.name == "__init__":
            continue
        for n in ast.walk(fn.node):
            if isinstance(n, ast.Attribute) and isinstance(n.value, ast.Name) and n.value.id == "self" and isinstance(n.ctx, ast.Store):
                mutable.add(n.attr)
    methods = set(c.methods)
    n_inst = 0
    for conv in ("_values_to_bytes", "_bytes_to_values"):
        if conv not in c.methods:
            continue
        cf = c.methods[conv]
        reads = {n.attr for n in ast.walk(cf.node) if isinstance(n, ast.Attribute) and isinstance(n.value, ast.Name) and n.value.id == "self"
                 and isinstance(n.ctx, ast.Load) and n.attr not in methods}
        need = reads & mutable
        for caller in sorted(c.methods.values(), key=lambda f: f.node.lineno):
            if caller is cf:
                continue
            bad = None
            found = False
            try:
                rs = runs(ctx, caller)
            except AnalysisError:
                continue
            for r in rs:
                calls = [i for i, e in r.effects() if e.kind == "call" and is_self_call(e.value, conv)]
                if not calls:
                    continue
                found = True
                i = calls[0]
                stored = {e.target[2] for j, e in r.effects() if j < i and e.kind in ("store", "aug") and e.target[0] == "attr" and e.target[1] == SELF}
                miss = sorted(need - stored)
                if miss and bad is None:
                    bad = (miss, [e for j, e in r.effects() if j == i][0].node)
            if not found:
                continue
            n_inst += 1
            inst = "%s.%s sets every transaction field %s reads (%s) before converting" % (Q, caller.name, conv, ", ".join(sorted(need)) or "none")
            if bad:
                ctx.violated(rule, caller, inst, "%s reads self.%s, which this operation does not set: it still holds whatever the previous transaction "
                             "(of the other kind) left there" % (conv, bad[0][0]), bad[1])
            else:
                ctx.holds(rule, inst)
    if n_inst == 0:
        ctx.unknown(rule, "no caller of the converters found in %s" % Q)


def _handler_reads(ctx, cls, handlers):
    """fields of self that the reply handlers (and the same-class methods they call) read"""
    P = ctx.prog
    c = P.cls(cls)
    seen, todo, out = set(), list(handlers), set()
    while todo:
        mn = todo.pop()
        if mn in seen or mn not in c.methods:
            continue
        seen.add(mn)
        for n in ast.walk(c.methods[mn].node):
            if isinstance(n, ast.Attribute) and isinstance(n.value, ast.Name) and n.value.id == "self":
                if n.attr in c.methods:
                    todo.append(n.attr)
                elif isinstance(n.ctx, ast.Load):
                    out.add(n.attr)
    return out


def settle_first(ctx, rule="R-SETTLE-FIRST"):
    """client and server have stored everything the handler of the expected reply reads BEFORE the frame that provokes the reply is handed
    to the bus: after such a send no path stores a field that handler reads.  (The reply is processed by the receive thread - or inside the
    sending call - and may run before the sender continues: a field stored afterwards is still the OLD value when the reply is handled,
    and the late store overwrites what the handler has written.)"""
    P = ctx.prog
    wfk = enumv(ctx, "ResponseState", "WAIT_FOR_KEY")
    soc = enumv(ctx, "ResponseState", "SEND_OPERATION_COMPLETE")
    sp = enumv(ctx, "ResponseState", "SEND_PROCEED")
    serr = enumv(ctx, "ResponseState", "SEND_ERROR")
    wr = ("c", P.resolve_chain(["Command", "WRITE", "value"], None))
    done_c = P.resolve_chain(["Command", "OPERATION_COMPLETED"], None)

    def resolve(v, gl):
        if is_const(v):
            return v
        for g, p in gl:
            if p and g[0] == "cmp" and g[1] == "==" and v in (g[2], g[3]):
                o = g[3] if g[2] == v else g[2]
                if is_const(o):
                    return o
        return None

    def server_invites(fn, r, e, cur):
        """True / False / None (not decided) : does this send provoke a frame of the requester"""
        name = mname(e.value)
        gl = lits(r.guards())
        if name == "_send_dm15":
            a = e.value[2]
            kw = dict(e.value[3])
            st = a[3] if len(a) > 3 else kw.get("state")
            if st is None:
                return None
            st = resolve(st, gl)
            if st is None:
                return None
            if st in (wfk, soc):
                return True
            if st == sp:
                cmd = resolve(cur.get("command", field("command")), gl)
                if cmd == wr:
                    return True
                return False if cmd is not None else None
            return False
        if name == "send_pgn" and fn.name == "_send_dm15":
            st = resolve(("p", "state"), gl)
            if st in (wfk, soc):
                return True
            return False if st == serr else None
        return None

    def client_invites(fn, r, e, cur):
        name = mname(e.value)
        if name == "_send_dm16":
            return True
        if name == "_send_dm14":
            cmd = cur.get("command", field("command"))
            if is_const(cmd) and cmd[1] == done_c:
                return False        # the closing DM14 is not answered
            return True
        if name == "send_pgn" and fn.name in ("_send_dm14", "_send_dm16"):
            return None
        return None
    n = 0
    for cls, handlers, invites in ((S, ("parse_dm14", "_parse_dm16"), server_invites), (Q, ("_parse_dm15", "_parse_dm16"), client_invites)):
        reads = _handler_reads(ctx, cls, handlers)
        if cls == S:
            # the facade's DM14 listener runs in the same receive path and reads the server's fields directly (seed, key, state ...)
            for m in P.cls(M).methods.values():
                for x in ast.walk(m.node):
                    if isinstance(x, ast.Attribute) and isinstance(x.ctx, ast.Load) and isinstance(x.value, ast.Attribute) and \
                            x.value.attr == "server" and isinstance(x.value.value, ast.Name) and x.value.value.id == "self":
                        reads.add(x.attr)
            reads -= set(P.cls(S).methods)
        for fn in sorted(P.cls(cls).methods.values(), key=lambda f: f.node.lineno):
            if fn.name == "__init__" or fn.kind != "method":
                continue
            try:
                rs = runs(ctx, fn)
            except AnalysisError:
                continue
            bad = None
            has = False
            for r in rs:
                if r.term in ("raise", "exc"):
                    continue
                cur = {}
                pending = None
                for i, e in r.effects():
                    if e.kind in ("store", "aug") and e.target[0] == "attr" and e.target[1] == SELF:
                        if pending is not None and e.target[2] in reads and bad is None:
                            bad = (pending, e)
                        if e.kind == "store":
                            cur[e.target[2]] = e.value
                    elif e.kind == "call" and mname(e.value) in ("_send_dm14", "_send_dm15", "_send_dm16", "send_pgn"):
                        v = invites(fn, r, e, cur)
                        if v:
                            has = True
                            pending = e
            if not has:
                continue
            n += 1
            inst = "%s.%s: nothing the reply handler reads is stored after the frame that provokes the reply" % (cls, fn.name)
            if bad is None:
                ctx.holds(rule, inst)
            else:
                snd, st = bad
                ctx.violated(rule, fn, inst, "self.%s is stored (line %d) after %s (line %d) has handed the frame to the bus; the handler of the "
                             "expected reply reads self.%s and may run first - in the receive thread while this thread is still inside or just "
                             "behind the sending call: it sees the old value, and this store then overwrites what the handler did" % (
                                 st.target[2], st.line, mname(snd.value), snd.line, st.target[2]), st.node)
    if n < 4:
        ctx.unknown(rule, "reply-provoking sends not found (%d)" % n)


def eom_complete(ctx, rule="R-EOM-COMPLETE"):
    """server, multi-packet read: the end-of-message acknowledge of the DM16 transfer completes the transaction (operation-complete DM15)
    for EVERY legal size.  A path of the DM16 / acknowledge handler that returns without completing is evaluated over all legal
    acknowledges - size 1 + n in two bytes, ceil((1 + n) / 7) packets, n = 8..255 data bytes: none may select it."""
    from .codec import eval_pred
    P = ctx.prog
    f = P.func(S, "_parse_dm16")
    soc = enumv(ctx, "ResponseState", "SEND_OPERATION_COMPLETE")
    data = ("p", "data")
    nsym = lensym(field("data"))
    wr = ("c", P.resolve_chain(["Command", "WRITE", "value"], None))
    done = drop = 0
    bad = None
    undec = None
    for r in runs(ctx, f):
        if r.term in ("raise", "exc"):
            continue
        gl = lits(r.guards())
        if any(p and g == mk_cmp("==", field("command"), wr) for g, p in gl):
            continue            # the DM16 of a write
        completes = any(e.kind == "call" and mname(e.value) == "_send_dm15" for _, e in r.effects()) or any(
            e.kind == "store" and e.target == field("state") and e.value == soc for _, e in r.effects())
        if completes:
            done += 1
            continue
        conds = [(g, p) for g, p in r.guards() if contains(g, data) or contains(g, nsym)]
        if not conds:
            continue            # admission test (PGN / requester address)
        drop += 1
        hit = None
        try:
            for n in range(8, 256):
                size = n + 1
                frame = [19, size & 0xFF, size >> 8, -(-size // 7), 0xFF, 0x00, 0xD7, 0x00]
                env = {("sub", data, ("c", i)): frame[i] for i in range(8)}
                env[lensym(data)] = 8
                env[nsym] = n
                if all(bool(eval_pred(g, env)) == p for g, p in conds):
                    hit = n
                    break
        except (AnalysisError, KeyError, TypeError) as ex:
            undec = "%s" % ex
            continue
        if hit is not None and bad is None:
            bad = (r, hit, conds)
    inst = "DM14Server._parse_dm16: every legal end-of-message acknowledge (DM16 of 8..255 data bytes) completes the read"
    if bad is not None:
        r, n, conds = bad
        ctx.violated(rule, f, inst, "the handler returns without the operation-complete DM15 when %s; the acknowledge of a DM16 with %d data bytes "
                     "(message size %d = 0x%04X, low byte %d) satisfies that: the read of %d bytes never completes, the client times out and the server "
                     "stays busy" % (" and ".join(pretty(g if p else mk_not(g))[:60] for g, p in conds), n, n + 1, n + 1, (n + 1) & 0xFF, n), r.recs[-1].ev.node)
    elif undec:
        ctx.unknown(rule, "%s: a dropping condition is not evaluable (%s)" % (inst, undec[:80]))
    elif done:
        ctx.holds(rule, inst, "%d completing path(s), %d dropping path(s) none of which a legal acknowledge selects" % (done, drop))
    else:
        ctx.unknown(rule, "completion path not found in %s" % f.qual)


def dm14_steps(ctx, rule="R-DM14-STEPS"):
    """the steps of a DM14 transaction that nothing else in the code makes up for (each one, left out, ends the transaction in a time-out,
    leaves an object in a state from which the next operation fails, or reports a wrong / no error):
    server  - the operation-complete DM15 is sent from WAIT_OPERATION_COMPLETE with the closing-DM14 handler registered; respond() stores
              the state / status / error information it is given; reset_query returns to IDLE;
    client  - on operation complete: closing DM14, IDLE, result handed to the waiting caller; a key request without algorithm wakes the caller
              with an exception; the read path swaps the DM15 handler for the DM16 handler and back;
    facade  - a refusal (proceed callback, wrong key) is answered through the server's busy path, then everything is reset;
              respond() takes its listener off the bus for the transfer, puts it back afterwards and returns to IDLE first."""
    P = ctx.prog
    CAS = field("_ca")

    def calls(r, pred):
        return [(i, e) for i, e in r.effects() if e.kind == "call" and pred(e.value)]

    def sub_call(kind, cb):
        return lambda v: v[1] == ("attr", CAS, kind) and v[2] == (("attr", SELF, cb),)

    def stores(r, name, base=SELF):
        return [(i, e) for i, e in r.effects() if e.kind == "store" and e.target == ("attr", base, name)]
    res = {}

    def note(inst, ok, fn, node, why):
        if ok:
            res.setdefault(inst, None)
        elif res.get(inst) is None:
            res[inst] = (fn, node, why)
    soc = enumv(ctx, "ResponseState", "SEND_OPERATION_COMPLETE")
    woc = enumv(ctx, "ResponseState", "WAIT_OPERATION_COMPLETE")
    spr = enumv(ctx, "ResponseState", "SEND_PROCEED")
    ser = enumv(ctx, "ResponseState", "SEND_ERROR")
    sidle = enumv(ctx, "ResponseState", "IDLE")
    # ---- server
    f = P.func(S, "_send_dm15")
    for r in runs(ctx, f):
        if r.term in ("raise", "exc"):
            continue
        if any(p and g[0] == "cmp" and g[1] == "==" and ("p", "state") in (g[2], g[3]) and soc in (g[2], g[3]) for g, p in lits(r.guards())):
            snd = calls(r, lambda v: v[1] == ("attr", CAS, "send_pgn"))
            st = [i for i, e in stores(r, "state") if e.value == woc]
            note("server: the operation-complete DM15 leaves in the state WAIT_OPERATION_COMPLETE", bool(st) and bool(snd) and st[0] < snd[0][0], f,
                 r.recs[-1].ev.node, "the closing DM14 then meets a state that has no arm for it: ValueError in the receive path, the server never returns to IDLE")
    for fn in P.cls(S).methods.values():
        for r in runs(ctx, fn):
            for i, e in calls(r, lambda v: mname(v) == "_send_dm15"):
                a, kw = e.value[2], dict(e.value[3])
                stt = a[3] if len(a) > 3 else kw.get("state")
                if stt == soc:
                    subs = [j for j, _ in calls(r, sub_call("subscribe", "parse_dm14")) if j < i]
                    note("server %s: the closing-DM14 handler is registered when the operation-complete DM15 goes out" % fn.name, bool(subs), fn, e.node,
                         "the requester's closing DM14 is not handled: the server stays in WAIT_OPERATION_COMPLETE and answers every later request 'busy'")
    f = P.func(S, "_parse_dm16")
    for r in runs(ctx, f):
        if r.term in ("raise", "exc"):
            continue
        if not calls(r, sub_call("unsubscribe", "_parse_dm16")):
            continue            # admission test failed: not our DM16 / acknowledge
        sends = [e for _, e in calls(r, lambda v: mname(v) == "_send_dm15")]
        okc = False
        for e in sends:
            a, kw = e.value[2], dict(e.value[3])
            okc = okc or (a[3] if len(a) > 3 else kw.get("state")) == soc
        note("server: the DM16 of a write / the acknowledge of a read is answered with the operation-complete DM15", okc, f, r.recs[-1].ev.node,
             "the requester never gets 'operation completed' (or the DM15 builder is called with a state it has no case for)")
    # facade: the request is marked as taken on BEFORE the server handles the frame (the server may send the seed DM15 from inside that call,
    # and the key DM14 that answers it must find the facade in REQUEST_STARTED)
    f = P.func(M, "_listen_for_dm14")
    started = enumv(ctx, "DMState", "REQUEST_STARTED")
    for r in runs(ctx, f):
        if r.term in ("raise", "exc"):
            continue
        st = [i for i, e in stores(r, "state") if e.value == started]
        if not st:
            continue
        ps = [i for i, e in calls(r, lambda v: v[1] == ("attr", field("server"), "parse_dm14"))]
        note("facade: REQUEST_STARTED is stored before the server handles the first DM14", bool(ps) and st[0] < ps[0], f, r.recs[-1].ev.node,
             "the server sends the seed DM15 from inside that call; the key DM14 answering it is processed while the facade is still IDLE and is dropped "
             "(the server is not idle): the client times out")
    f = P.func(S, "respond")
    seen_states = set()
    for r in runs(ctx, f):
        if r.term in ("raise", "exc"):
            continue
        from .common import ife_alts
        st = [e.value for _, e in stores(r, "state")]
        for v_ in st:
            for a_ in ife_alts(v_):
                seen_states.add(a_)
                if a_[0] == "sub" and a_[1][0] in ("tuple", "list"):
                    seen_states |= set(a_[1][1])
        note("server respond(): the state to answer from is stored on every path", bool(st) and (all(a_ in (spr, ser) for a_ in ife_alts(st[-1])) or
             not is_const(st[-1])), f, r.recs[-1].ev.node,
             "the answer goes out from whatever state the object was in: a refusal is sent as 'proceed'")
        for fld in ("error", "edcp"):
            v = [e.value for _, e in stores(r, fld)]
            note("server respond(): %s is taken from the argument" % fld, bool(v) and v[-1] == ("p", fld), f, r.recs[-1].ev.node,
                 "the error DM15 carries the value of an earlier call: the client reports a wrong error code / no error")
        v = [e.value for _, e in stores(r, "status")]
        note("server respond(): the status follows the `proceed` argument", bool(v) and contains(v[-1], ("p", "proceed")) or
             (bool(v) and any(contains(g, ("p", "proceed")) for g, _ in r.guards())), f, r.recs[-1].ev.node,
             "the DM15 carries the status of an earlier call")
    note("server respond(): both SEND_PROCEED and SEND_ERROR are reachable", {spr, ser} <= seen_states, f, f.node,
         "one of the two answers is never given")
    f = P.func(S, "reset_query")
    for r in runs(ctx, f):
        if r.term in ("raise", "exc"):
            continue
        note("server reset_query: the state returns to IDLE", any(e.value == sidle for _, e in stores(r, "state")), f, f.node,
             "after a wrong key / refusal the server keeps its old state: the next well-formed request fails")
    # ---- client
    qidle = enumv(ctx, "QueryState", "IDLE")
    f = P.func(Q, "_parse_dm15")
    DQ, EQ = ("attr", field("data_queue"), "put"), ("attr", field("exception_queue"), "put")
    for r in runs(ctx, f):
        if r.term in ("raise", "exc"):
            continue
        oc = calls(r, lambda v: mname(v) in ("_send_operation_complete",))
        if oc:
            i0 = oc[0][0]
            note("client: operation complete -> state IDLE", any(e.value == qidle for _, e in stores(r, "state")), f, oc[0][1].node,
                 "the query object stays in WAIT_FOR_OPER_COMPLETE")
            note("client: operation complete -> the result is handed to the waiting caller",
                 bool(calls(r, lambda v: v[1] == DQ and v[2] == (field("mem_data"),))), f, oc[0][1].node,
                 "read() / write() wait for the result until their time-out and return nothing")
        if any(g == mk_cmp("==", field("_seed_from_key"), ("c", None)) and p for g, p in lits(r.guards())):
            note("client: key requested but no algorithm -> caller woken with an exception", bool(calls(r, lambda v: v[1] == DQ)) and
                 bool(calls(r, lambda v: v[1] == EQ)), f, r.recs[-1].ev.node, "the caller waits for its time-out and gets no error")
    f = P.func(Q, "_send_operation_complete")
    done_c = P.resolve_chain(["Command", "OPERATION_COMPLETED"], None)
    for r in runs(ctx, f):
        if r.term in ("raise", "exc"):
            continue
        snd = calls(r, lambda v: mname(v) == "_send_dm14")
        cm = [i for i, e in stores(r, "command") if is_const(e.value) and e.value[1] == done_c]
        note("client: the closing DM14 carries the command 'operation completed'", bool(snd) and bool(cm) and cm[0] < snd[0][0], f, f.node,
             "the closing frame repeats the read / write command: a conforming server takes it for a new request")
    f = P.func(Q, "_wait_for_data")
    wdm16 = enumv(ctx, "QueryState", "WAIT_FOR_DM16")
    for r in runs(ctx, f):
        if r.term in ("raise", "exc") or calls(r, lambda v: mname(v) == "_send_dm16"):
            continue
        note("client read path: WAIT_FOR_DM16, DM15 handler off, DM16 handler on", any(e.value == wdm16 for _, e in stores(r, "state")) and
             bool(calls(r, sub_call("unsubscribe", "_parse_dm15"))) and bool(calls(r, sub_call("subscribe", "_parse_dm16"))), f, r.recs[-1].ev.node,
             "the DM16 with the read data is not handled (or the DM15 handler stays registered and is registered again later: the operation "
             "complete is then processed twice and the second closing DM14 starts a new transaction in the server)")
    f = P.func(Q, "_parse_dm16")
    woper = enumv(ctx, "QueryState", "WAIT_FOR_OPER_COMPLETE")
    for r in runs(ctx, f):
        if r.term in ("raise", "exc") or not stores(r, "mem_data"):
            continue
        note("client DM16: handler swapped back, WAIT_FOR_OPER_COMPLETE", any(e.value == woper for _, e in stores(r, "state")) and
             bool(calls(r, sub_call("unsubscribe", "_parse_dm16"))) and bool(calls(r, sub_call("subscribe", "_parse_dm15"))), f, r.recs[-1].ev.node,
             "the operation-complete DM15 is not handled: read() returns after its time-out without the closing DM14")
    # ---- facade
    f = P.func(M, "_listen_for_dm14")
    srv = field("server")
    for r in runs(ctx, f):
        if r.term in ("raise", "exc"):
            continue
        errs = [(i, e) for i, e in r.effects() if e.kind == "store" and e.target == ("attr", srv, "error") and e.value != ("c", 0)]
        if not errs:
            continue
        i0 = errs[0][0]
        busy_on = [i for i, e in calls(r, lambda v: v[1] == ("attr", srv, "set_busy") and v[2] == (("c", True),)) if i >= i0]
        busy_off = [i for i, e in calls(r, lambda v: v[1] == ("attr", srv, "set_busy") and v[2] == (("c", False),)) if i >= i0]
        parse = [i for i, e in calls(r, lambda v: v[1] == ("attr", srv, "parse_dm14")) if i >= i0]
        cleared = [i for i, e in r.effects() if e.kind == "store" and e.target == ("attr", srv, "error") and e.value == ("c", 0) and i > i0]
        ok = bool(busy_on) and bool(parse) and bool(busy_off) and busy_on[0] <= parse[-1] <= busy_off[-1] and any(p_ >= busy_on[0] for p_ in parse)
        note("facade refusal: the frame is run through the server's busy path (error DM15), busy taken back, error indicator cleared",
             ok and bool(cleared), f, errs[0][1].node,
             "the client gets no error DM15 (it times out instead of raising the error code), or the server stays busy / keeps the error "
             "indicator for the next, unrelated, busy answer")
    f = P.func(M, "respond")
    LST = ("attr", SELF, "_listen_for_dm14")
    didle = enumv(ctx, "DMState", "IDLE")
    for r in runs(ctx, f):
        if r.term in ("raise", "exc"):
            continue
        sr = calls(r, lambda v: v[1] == ("attr", srv, "respond"))
        if not sr:
            continue
        i0 = sr[0][0]
        un = [i for i, e in calls(r, lambda v: v[1] == ("attr", CAS, "unsubscribe") and v[2] == (LST,)) if i < i0]
        su = [i for i, e in calls(r, lambda v: v[1] == ("attr", CAS, "subscribe") and v[2] == (LST,)) if i > i0]
        st = [i for i, e in stores(r, "state") if e.value == didle and i < i0]
        note("facade respond(): listener off the bus for the transfer, back afterwards, IDLE first", bool(un) and bool(su) and bool(st), f, sr[0][1].node,
             "the closing DM14 of the transfer reaches the facade's listener as if it were a new request, or the facade never listens again / never "
             "returns to IDLE")
    for inst, bad in sorted(res.items()):
        if bad is None:
            ctx.holds(rule, inst)
        else:
            fn, node, why = bad
            ctx.violated(rule, fn, inst, "a path does not do this: " + why, node)
    if len(res) < 12:
        ctx.unknown(rule, "transaction steps not found (%d)" % len(res))
