"""Diagnostic message rules (C16): DTC / DM1 / lamp / DM22 layouts, register-deregister key agreement."""
import ast
from sa.sym import SELF, is_const, cval, pretty, walk, contains, root_field, mk_cmp, mk_not, mk_bool, mk_bin, SymEval, C
from sa.model import AnalysisError
from sa import guards as G
from sa.bits import BV, BitEval, T as T_
from sa.objeval import construct, call_runs, Obj
from sa.paths import runs_of, replay, Enumerator
from .common import mname, is_self_call, lensym, sub, field, affine, affine_diff, bind_args, runs, lits, loc
from .layout import check_bits, resolve_objects, param_leaf


def init_consts(ctx, clsname):
    """fields assigned a constant exactly once in __init__"""
    f = ctx.prog.func(clsname, "__init__")
    out = {}
    for r in runs(ctx, f):
        for _, e in r.effects():
            if e.kind == "store" and e.target[0] == "attr" and e.target[1] == SELF and is_const(e.value):
                out.setdefault(e.target[2], set()).add(e.value)
    return {k: list(v)[0] for k, v in out.items() if len(v) == 1}


def dtc_layout(ctx, rule="R-LAYOUT"):
    from spec import sae
    P = ctx.prog
    init = P.func("DTC", "__init__")
    # encode
    enc = construct(P, "DTC", (), (("spn", ("p", "spn")), ("fmi", ("p", "fmi")), ("oc", ("p", "oc"))))
    be = BitEval(param_leaf())
    v = be.ev(enc.fields["_dtc"])
    want = [0] * 32
    for lo, n, fld, slo in sae.DTC:
        if fld == "cm":
            continue
        for i in range(n):
            want[lo + i] = ("b", fld, slo + i)
    inst = "DTC encode: SPN 0..15 | FMI 16..20 | SPN 16..18 at 21..23 | OC 24..30 | CM 31 = 0"
    if v.window(0, 32) == want and v.width() is not None and v.width() <= 32:
        ctx.holds(rule, inst, v.describe())
    else:
        ctx.violated(rule, init, inst, "packed DTC is %s" % v.describe(), init.node, witness=v.describe())
    # decode
    allr = call_runs(P, init, [], (("dtc", ("p", "dtc")),))
    # the decode path: the one that derives the SPN from the given code
    dec = [r for r in allr if any(e.kind == "store" and e.target == ("attr", SELF, "_spn") and contains(e.value, ("p", "dtc")) for _, e in r.effects())]
    if not dec:
        ctx.unknown(rule, "DTC decode path not found")
        return
    idx = [i for i, e in dec[0].effects() if e.kind == "store" and e.target == ("attr", SELF, "_spn")][0]
    gl = lits(dec[0].guards(idx))
    inst = "DTC(dtc=x) decodes for every x that is not None (0x00000000 included)"
    if gl == {(mk_cmp("==", ("p", "dtc"), ("c", None)), False)}:
        ctx.holds(rule, inst)
    else:
        ctx.violated(rule, init, inst, "the decode branch is selected by %s, not by `dtc is not None`: a received code of 0 (SPN 0, FMI 0, OC 0) "
                     "takes the encode branch with spn=None" % ", ".join("%s is %s" % (pretty(g), p) for g, p in sorted(gl, key=repr)), init.node)
    rs = dec
    st = {e.target[2]: e.value for _, e in rs[0].effects() if e.kind == "store" and e.target[0] == "attr"}
    exp = {"_spn": [("b", "dtc", k) for k in range(16)] + [("b", "dtc", 21 + k) for k in range(3)],
           "_fmi": [("b", "dtc", 16 + k) for k in range(5)], "_oc": [("b", "dtc", 24 + k) for k in range(7)], "_cm": [("b", "dtc", 31)]}
    for fld, w in exp.items():
        inst = "DTC decode: %s" % fld
        if fld not in st:
            ctx.violated(rule, init, inst, "field not decoded", init.node)
            continue
        bv = be.ev(st[fld])
        if bv.window(0, len(w)) == w and bv.width() is not None and bv.width() <= len(w):
            ctx.holds(rule, inst, bv.describe())
        else:
            ctx.violated(rule, init, inst, "decoded from %s, J1939-73 says %s" % (bv.describe(), BV(w, 0).describe()), init.node)
    # decode o encode
    be2 = BitEval(lambda s: v if s == ("p", "dtc") else None)
    for fld, src, n in (("_spn", "spn", 19), ("_fmi", "fmi", 5), ("_oc", "oc", 7)):
        if fld in st:
            bv = be2.ev(st[fld])
            inst = "DTC decode(encode(spn, fmi, oc)).%s = identity on %d bits" % (fld, n)
            if bv.window(0, n) == [("b", src, k) for k in range(n)] and bv.width() is not None and bv.width() <= n:
                ctx.holds(rule, inst)
            else:
                ctx.violated(rule, init, inst, "comes back as %s" % bv.describe(), init.node)


def dm1_layout(ctx, rule="R-LAYOUT"):
    from spec import sae
    P = ctx.prog
    f = P.func("Dm1", "_send")
    DATA = field("_data")
    ok_send = 0
    for r in runs(ctx, f, unroll=1):
        it = [rec for rec in r.recs if rec.ev.kind == "for" and rec.ev.pol == "iter"]
        apps = [e for _, e in r.effects() if e.kind == "call" and e.value[1] == ("attr", DATA, "append")]
        if len(it) == 1 and len(apps) == 4:
            ok_send += 1
            dd = it[0].effects  # unused
            dic = None
            for x in walk(apps[0].value):
                if x[0] == "call" and x[1] == ("clsref", "DTC"):
                    dic = dict(x[3])
            if dic is None:
                ctx.violated(rule, f, "DM1 builder packs each code with DTC(...)", "appended bytes are %s" % pretty(apps[0].value[2][0])[:80], apps[0].node)
                return
            names = {}
            for k in ("spn", "fmi", "oc"):
                if dic.get(k) is not None and not is_const(dic.get(k)):
                    names[dic.get(k)] = k
            def leaf(s, names=names):
                if s in names:
                    return BV.input(names[s])
                return None
            be = BitEval(leaf)
            pr = []
            for k, e in enumerate(apps):
                try:
                    bv = be.ev(resolve_objects(P, e.value[2][0]))
                except AnalysisError as ex:
                    ctx.unknown(rule, "DM1 builder: %s" % ex)
                    return
                want = [0] * 8
                for lo, n, fld, slo in sae.DTC:
                    for i in range(n):
                        b = lo + i
                        if 8 * k <= b < 8 * k + 8 and fld != "cm" and fld in names.values():
                            want[b - 8 * k] = ("b", fld, slo + i)
                got = bv.window(0, 8)
                definite = [i for i in range(8) if got[i] != want[i] and got[i] != T_]
                if not definite and any(got[i] == T_ for i in range(8)):
                    ctx.unknown(rule, "DM1 builder: byte %d of a code is not interpretable in the known-bits domain (%s)" % (k, bv.describe()))
                    return
                if got != want or bv.width() is None or bv.width() > 8:
                    pr.append("byte %d of a code is %s" % (k, bv.describe()))
            inst = "DM1 builder: each code = 4 little-endian bytes of the packed DTC, in list order"
            it_src = it[0].ev.node.iter
            if pr:
                ctx.violated(rule, f, inst, "; ".join(pr[:3]), apps[0].node)
            elif ast.unparse(it_src) != "self._dtc_dic_list":
                ctx.violated(rule, f, inst, "codes are taken from %s" % ast.unparse(it_src), apps[0].node)
            else:
                ctx.holds(rule, inst)
            # the values come from the dictionary entry of this iteration
            want_src = {"spn": "spn", "fmi": "fmi", "oc": "oc"}
            for k, v in dic.items():
                if not (v[0] == "sub" and v[1][0] == "iter" and v[2] == ("c", k)) and not (k == "oc" and v == ("c", 0)):
                    ctx.violated(rule, f, "DM1 builder field source", "%s taken from %s" % (k, pretty(v)), apps[0].node)
            break
    if ok_send == 0:
        ctx.unknown(rule, "DM1 builder loop not recognised")
    # the payload is a new list every cycle (J1939-21 keeps a reference to it while a BAM is in flight)
    inplace = [e for r in runs(ctx, f, unroll=0) for _, e in r.effects()
               if (e.kind == "store" and e.target[0] == "sub" and e.target[1] == DATA and e.target[2][0] == "slice")
               or (e.kind == "call" and e.value[1] in (("attr", DATA, "clear"),))]
    rebinding = [e for r in runs(ctx, f, unroll=0) for _, e in r.effects() if e.kind == "store" and e.target == DATA]
    inst = "DM1 builder: each cycle builds its payload in a new list"
    if inplace or not rebinding:
        ctx.violated("R-FRESH-PAYLOAD", f, inst, "the payload is rebuilt in place in the list handed to send_pgn by the previous cycle: the transport "
                     "session still sending that list (BAM longer than the cycle time) transmits a blend of two cycles", (inplace or [None])[0].node if inplace else f.node)
    else:
        ctx.holds("R-FRESH-PAYLOAD", inst)
    # lamp bytes first
    for r in runs(ctx, f, unroll=0):
        st = [e for _, e in r.effects() if e.kind == "store" and e.target == DATA]
        if st:
            v = st[0].value
            inst = "DM1 builder: payload starts with the two lamp bytes"
            if v[0] == "call" and mname(v) == "get_data" and v[2] == (field("_lamp_status"),):
                ctx.holds(rule, inst)
            else:
                ctx.violated(rule, f, inst, "payload starts with %s" % pretty(v)[:60], st[0].node)
            break
    # send: PGN DM1, via ca.send_pgn; returns True
    consts = init_consts(ctx, "Dm1")
    pg = consts.get("_pgn")
    n = 0
    for r in runs(ctx, f, unroll=1):
        if r.term in ("raise", "exc"):
            continue
        n += 1
        sends = [e for _, e in r.effects() if e.kind == "call" and e.value[1] == ("attr", field("_ca"), "send_pgn")]
        ret = [e for _, e in r.effects() if e.kind == "ret"]
        inst = "DM1 cycle: every pass sends through ca.send_pgn and returns True (keeps the timer)"
        if len(sends) != 1 or not ret or ret[-1].value != ("c", True):
            ctx.violated("R-DM1-CYCLE", f, inst, "a pass has %d sends and returns %s" % (len(sends), pretty(ret[-1].value) if ret else None), f.node)
            return
        a = sends[0].value[2]
        pgf = field("_pgn")
        # evaluate the PF / PS arguments with the PGN field's constructor constant
        def num(x):
            v = G.renorm(G.subst(x, lambda y: pg if y == pgf and pg is not None else None))
            return v
        got = (num(a[0]), num(a[1]), num(a[2])) if len(a) >= 5 else None
        want = (("c", 0), ("c", sae.PGN["DM01"] >> 8), ("c", sae.PGN["DM01"] & 0xFF))
        if got != want or a[4] not in (DATA, r.evalr.heap.get(DATA)):
            ctx.violated("R-DM1-CYCLE", f, "DM1 is sent as PGN 0xFECA with the assembled payload", "send_pgn arguments are %s (pgn field %s)" % ([pretty(x)[:30] for x in a], pg), sends[0].node)
            return
    if n:
        ctx.holds("R-DM1-CYCLE", "DM1 cycle: every pass sends PGN 0xFECA through ca.send_pgn and returns True")
    # parser
    p = P.func("Dm1", "_parse_dm1_receive_data")
    for r in runs(ctx, p, unroll=1):
        it = [rec for rec in r.recs if rec.ev.kind == "for" and rec.ev.pol == "iter"]
        if len(it) != 1:
            continue
        dtcs = [x for _, e in r.effects() if isinstance(e.value, tuple) for x in walk(e.value) if x[0] == "call" and x[1] == ("clsref", "DTC")]
        if not dtcs:
            continue
        dsym = dict(dtcs[0][3]).get("dtc")
        ivar = None
        offs = {}
        for x in walk(dsym):
            if x[0] == "sub" and x[1] == DATA:
                a = affine(x[2])
                if a is None or len(a[0]) != 1:
                    ctx.unknown(rule, "DM1 parser index %s" % pretty(x[2]))
                    return
                (term, coef), = a[0].items()
                ivar = term
                offs[x] = (int(coef), int(a[1]))
        if ivar is None or ivar[0] != "iter" or ivar[1][0] != "call" or ivar[1][1] != ("glob", "range"):
            ctx.unknown(rule, "DM1 parser loop variable %s not a range" % (pretty(ivar) if ivar else None))
            return
        ra = ivar[1][2]
        if len(ra) == 1:
            start, count, step = 0, ra[0], 1
        elif len(ra) == 3 and is_const(ra[0]) and is_const(ra[2]) and cval(ra[2]) > 0:
            start, step = cval(ra[0]), cval(ra[2])
            count = mk_bin("//", mk_bin("-", ra[1], ra[0]), ra[2])
        else:
            ctx.unknown(rule, "DM1 parser range %s" % pretty(ivar[1]))
            return
        # byte position of index expression  coef*i + c  in iteration k:  coef*(start + step*k) + c
        inst = "DM1 parser: code i is bytes 4i+2 .. 4i+5 little-endian"
        def leaf(s, offs=offs):
            if s in offs:
                return BV.input("q%d" % (offs[s][0] * start + offs[s][1]), 8)
            return None
        bv = BitEval(leaf).ev(dsym)
        want = [("b", "q%d" % (2 + k // 8), k % 8) for k in range(32)]
        strides = {c * step for c, _ in offs.values()}
        if strides == {4} and bv.window(0, 32) == want and bv.width() is not None and bv.width() <= 32:
            ctx.holds(rule, inst)
        else:
            ctx.violated(rule, p, inst, "code assembled from %s with stride %s" % (bv.describe(), sorted(strides)), p.node)
        # count
        inst = "DM1 parser: number of codes = (len - 2) / 4"
        okc = False
        from .arith import qr_eval, Unk
        L = lensym(DATA)
        try:
            q = qr_eval(count, L, 4, 2, 2)
            okc = q.a == 1 and q.lo == q.hi == 0
        except Unk:
            okc = None
        if okc:
            ctx.holds(rule, inst)
        elif okc is None:
            ctx.unknown(rule, "DM1 parser loop count %s not evaluable" % pretty(count)[:80])
        else:
            ctx.violated(rule, p, inst, "loop count is %s" % pretty(count)[:80], p.node)
        # decoded fields delivered
        d = [x for _, e in r.effects() if e.kind == "call" and mname(e.value) == "append" for x in e.value[2] if x[0] == "dict"]
        if d:
            dd = dict(d[0][1])
            ok = all(dd.get(("c", k)) is not None and dd[("c", k)][0] == "attr" and dd[("c", k)][2] == k for k in ("spn", "fmi", "oc"))
            if ok:
                ctx.holds(rule, "DM1 parser delivers spn/fmi/oc of the decoded DTC")
            else:
                ctx.violated(rule, p, "DM1 parser delivers spn/fmi/oc", "delivered %s" % pretty(d[0])[:100], p.node)
        break
    else:
        ctx.unknown(rule, "DM1 parser loop not recognised")


def lamps(ctx, rule="R-LAMP"):
    from spec import sae
    P = ctx.prog
    cls = P.cls("DtcLamp")
    keys = cls.consts.get("_KEYS")
    lut = cls.consts.get("_DATA_LUT")
    if not isinstance(keys, list) or not isinstance(lut, dict):
        ctx.unknown(rule, "DtcLamp._KEYS / _DATA_LUT not constant")
        return
    # encodings vs J1939-73
    for name, (lamp, flash) in sae.LAMP_CODES.items():
        k = cls.consts.get(name)
        inst = "lamp code %s = (status %d, flash %d)" % (name, lamp, flash)
        if k is None or lut.get(k) != [lamp, flash]:
            ctx.violated(rule, P.func("DtcLamp", "get_data"), inst, "table maps %s to %s" % (name, lut.get(k)), cls.node)
        else:
            ctx.holds(rule, inst)
    if any(not (0 <= x <= 3) for v in lut.values() for x in v):
        ctx.violated(rule, P.func("DtcLamp", "get_data"), "lamp codes are 2-bit", "table holds %s" % lut, cls.node)
    # encoder: the loop over the constant key list is unrolled by the path enumerator
    g = P.func("DtcLamp", "get_data")
    data = None
    for r in runs(ctx, g):
        if r.term != "return" or any(p for _, p in r.guards()):
            continue
        rets = [e.value for _, e in r.effects() if e.kind == "ret"]
        if rets:
            data = rets[-1]
    if data is None:
        ctx.unknown(rule, "get_data: path on which every lamp state is valid not found")
        return
    status = ("p", "status_dic")
    def leaf(s):
        if s[0] == "sub" and is_const(s[2]) and s[2][1] in (0, 1) and s[1][0] == "sub" and s[1][1][0] == "dict" and s[1][2][0] == "sub" and is_const(s[1][2][2]):
            return BV.input("%s_%s" % ("lamp" if s[2][1] == 0 else "flash", s[1][2][2][1]), 2)
        return None
    be = BitEval(leaf)
    if data is None or data[0] != "list" or len(data[1]) != 2:
        ctx.unknown(rule, "get_data result not recognised: %s" % (pretty(data) if data else None))
        return
    for b, kind in ((0, "lamp"), (1, "flash")):
        bv = be.ev(data[1][b])
        want = [0] * 8
        for lo, key in sae.LAMPS:
            want[lo] = ("b", "%s_%s" % (kind, key), 0)
            want[lo + 1] = ("b", "%s_%s" % (kind, key), 1)
        inst = "lamp byte %d: pl bits 0-1, awl 2-3, rsl 4-5, mil 6-7 (%s)" % (b, kind)
        if bv.window(0, 8) == want and bv.width() is not None and bv.width() <= 8:
            ctx.holds(rule, inst)
        else:
            ctx.violated(rule, g, inst, "byte is %s" % bv.describe(), g.node)
    # decision tree inverts the table
    gs = P.func("DtcLamp", "get_status")
    for k, (lamp, flash) in lut.items():
        rs = call_runs(P, gs, [("c", lamp), ("c", flash)])
        rets = {e.value for r in rs for _, e in r.effects() if e.kind == "ret"}
        inst = "get_status(%d, %d) = %d (table entry maps back to its key)" % (lamp, flash, k)
        if rets == {("c", k)}:
            ctx.holds(rule, inst)
        else:
            ctx.violated(rule, gs, inst, "decision tree returns %s" % sorted(pretty(x) for x in rets), gs.node)
    # parser extraction positions
    p = P.func("Dm1", "_parse_dm1_receive_data")
    DATA = field("_data")
    def bl(s):
        if s[0] == "sub" and s[1] == DATA and is_const(s[2]):
            return BV.input("d%d" % s[2][1], 8)
        return None
    bd = BitEval(bl)
    got = {}
    for r in runs(ctx, p, unroll=0):
        for _, e in r.effects():
            if e.kind == "store" and e.target[0] == "sub" and e.target[1] == field("_lamp_status") and is_const(e.target[2]):
                v = e.value
                if v[0] == "call" and mname(v) == "get_status" and len(v[2]) == 2:
                    got[e.target[2][1]] = (bd.ev(v[2][0]), bd.ev(v[2][1]))
    for lo, key in sae.LAMPS:
        inst = "DM1 parser: lamp %s from bits %d-%d of bytes 0 (status) and 1 (flash)" % (key, lo, lo + 1)
        w0 = [("b", "d0", lo), ("b", "d0", lo + 1)]
        w1 = [("b", "d1", lo), ("b", "d1", lo + 1)]
        if key in got and got[key][0].window(0, 2) == w0 and got[key][0].width() == 2 and got[key][1].window(0, 2) == w1 and got[key][1].width() == 2:
            ctx.holds(rule, inst)
        elif key not in got or got[key][0].has_top() or got[key][1].has_top():
            ctx.unknown(rule, "%s: extraction construct not recognised" % inst)
        else:
            ctx.violated(rule, p, inst, "extracted from %s" % (got.get(key),), p.node)


def dm22_layout(ctx, rule="R-LAYOUT"):
    from spec import sae
    P = ctx.prog
    f = P.func("Dm22", "_send_request")
    for r in runs(ctx, f):
        sends = [e for _, e in r.effects() if e.kind == "call" and e.value[1] == ("attr", field("_ca"), "send_pgn")]
        if not sends:
            continue
        a = sends[0].value[2]
        data = a[4] if len(a) > 4 else None
        inst = "DM22 request payload"
        if data is None or data[0] != "list" or len(data[1]) != 8:
            ctx.violated(rule, f, inst, "payload is %s" % pretty(data)[:80], sends[0].node)
            return
        be = BitEval(param_leaf({"control_byte": 8}))
        pr = []
        for k in range(8):
            bv = be.ev(data[1][k])
            pr.extend("byte %d: %s" % (k, x) for x in check_bits(bv, sae.DM22[k], {"control": "control_byte"}))
        if pr:
            ctx.violated(rule, f, inst + " vs J1939-73 (SPN low/mid in bytes 6/7, SPN 16..18 in bits 5..7 and FMI in bits 0..4 of byte 8)",
                         "; ".join(pr[:4]), sends[0].node)
        else:
            ctx.holds(rule, inst + ": control, 0xFF fill, SPN and FMI at the J1939-73 positions")
        consts = init_consts(ctx, "Dm22")
        pgf = field("_pgn")
        ok = a[1] == mk_bin("&", mk_bin(">>", pgf, ("c", 8)), ("c", 255)) and consts.get("_pgn") == ("c", sae.PGN["DM22"]) \
            and a[2] == mk_bin("&", ("p", "dest_address"), ("c", 255))
        if ok:
            ctx.holds(rule, "DM22 goes to PGN 0xC300 with the destination in PS")
        else:
            ctx.violated(rule, f, "DM22 addressing", "send_pgn arguments %s" % [pretty(x)[:30] for x in a[:4]], sends[0].node)
    for name, ctl in (("request_clear_act_dtc", "ACT_REQ"), ("request_clear_pa_dtc", "PA_REQ")):
        g = P.func("Dm22", name)
        for r in runs(ctx, g):
            calls = [e for _, e in r.effects() if e.kind == "call" and is_self_call(e.value, "_send_request")]
            inst = "DM22 %s: control %d and (destination, fmi, spn) passed in the callee's order" % (name, sae.DM22_CONTROL[ctl])
            if len(calls) == 1:
                b = bind_args(calls[0].value, f)
                if b.get("control_byte") == ("c", sae.DM22_CONTROL[ctl]) and b.get("dest_address") == ("p", "dest_address") \
                        and b.get("fmi") == ("p", "fmi") and b.get("spn") == ("p", "spn"):
                    ctx.holds(rule, inst)
                else:
                    ctx.violated(rule, g, inst, "arguments bind to %s" % {k: pretty(v) for k, v in b.items()}, calls[0].node)


def reg_key(ctx, rule="R-REG-KEY"):
    """what is deregistered must be what was registered (removal matches on equality of the stored callable)"""
    P = ctx.prog
    pairs = (("add_timer", "remove_timer"), ("subscribe", "unsubscribe"), ("subscribe_request", "unsubscribe_request"))
    n = 0
    for cname, c in sorted(P.top_classes.items()):
        if cname in ("ElectronicControlUnit",):
            continue
        for reg, unreg in pairs:
            regs, unregs = [], []
            for fn in c.methods.values():
                if fn.name in (reg, unreg):
                    continue  # forwarding wrappers
                for s in ctx.cg.sites.get(fn.qual, []):
                    m = mname(s.sym)
                    if m in (reg, unreg) and s.sym[1][0] == "attr" and s.sym[1][1] != SELF:
                        t = [x for x in s.targets if x.name == m]
                        if not t:
                            continue
                        cb = ctx.cg.arg(s.sym, t[0], "callback")
                        (regs if m == reg else unregs).append((fn, s, cb))
            for fn, s, cb in unregs:
                n += 1
                inst = "%s.%s: %s(%s) removes what %s registered" % (cname, fn.name, unreg, pretty(cb), reg)
                if any(cb == rcb for _, _, rcb in regs):
                    ctx.holds(rule, inst)
                else:
                    ctx.violated(rule, fn, "%s.%s deregisters with the registered key" % (cname, fn.name),
                                 "%s(%s) can never match: this class registers only %s with %s - the registration stays active" % (
                                     unreg, pretty(cb), sorted({pretty(rcb) for _, _, rcb in regs}) or "nothing", reg), s.node)
    if n < 6:
        ctx.unknown(rule, "only %d deregistration sites found" % n)


def subscribe_once(ctx, rule="R-SUBSCRIBE-HOOK"):
    """Dm1.subscribe: every path leaves this object's receive hook registered with its CA - it is registered on the path, or a
    flag kept ON THIS OBJECT says an earlier call did it - and the callback is stored in this object's list"""
    P = ctx.prog
    f = P.func("Dm1", "subscribe")
    n = 0
    for r in runs(ctx, f):
        if r.term == "raise":
            continue
        n += 1
        gl = lits(r.guards())
        hooks = [e for _, e in r.effects() if e.kind == "call" and mname(e.value) == "subscribe" and e.value[1][1] == ("attr", SELF, "_ca")]
        stores = [e for _, e in r.effects() if e.kind in ("store", "aug")]
        app = [e for _, e in r.effects() if e.kind == "call" and mname(e.value) in ("append", "insert") and e.value[1][1] == ("attr", SELF, "_subscribers")
               and ("p", "callback") in e.value[2]]
        inst = "Dm1.subscribe path [%s]" % ("hook registered" if hooks else "hook already registered")
        shared = [e for e in stores if e.target[0] == "attr" and e.target[1] != SELF and e.target[1][0] in ("clsref", "glob")]
        if shared:
            ctx.violated(rule, f, "Dm1.subscribe keeps its registration state per object", "the 'receive hook registered' state is written to %s, "
                         "which all Dm1 objects share: after the first object subscribed, every other Dm1 object skips registering its own hook "
                         "and its subscribers never receive a DM1" % pretty(shared[0].target), shared[0].node)
            return
        if not app:
            ctx.violated(rule, f, inst, "the callback is not added to this object's subscriber list", f.node)
            continue
        if hooks:
            if hooks[0].value[2] != (("attr", SELF, "_receive"),):
                ctx.violated(rule, f, inst, "the CA is given %s instead of this object's _receive" % pretty(hooks[0].value[2][0]) if hooks[0].value[2] else "nothing", hooks[0].node)
                continue
            flag = [e for e in stores if e.target[0] == "attr" and e.target[1] == SELF]
            ctx.holds(rule, inst)
            continue
        # no registration on this path: it must be conditioned on a flag of this object that only a registering path sets
        flags = [g for g, p in gl if any(x[0] == "attr" and x[1] == SELF for x in walk(g))]
        if flags:
            ctx.holds(rule, inst)
        else:
            ctx.violated(rule, f, inst, "the receive hook is not registered and no per-object state says it already is", f.node)
    if n == 0:
        ctx.unknown(rule, "no paths through Dm1.subscribe")


def dm1_steps(ctx, rule="R-DM1-STEPS"):
    """the steps between the bus and the DM1 subscribers / between the sender's callback and the bus that nothing else makes up for:
    receive: a frame with the DM1 PGN is stored, parsed and handed to the subscribers - the code list is started afresh for every message
    and gets one entry per code; every subscriber is called with the source, the lamp states, the codes and the time stamp;
    send: each cycle asks the callback; stop_send removes the timer start_send registered; unsubscribe removes the subscriber;
    DM22: a request is handed to the CA's send_pgn."""
    P = ctx.prog
    res = {}

    def note(inst, ok, fn, node, why):
        if ok:
            res.setdefault(inst, None)
        elif res.get(inst) is None:
            res[inst] = (fn, node, why)

    def calls(r, pred):
        return [(i, e) for i, e in r.effects() if e.kind == "call" and pred(e.value)]
    f = P.func("Dm1", "_receive")
    for r in runs(ctx, f):
        if r.term in ("raise", "exc") or not any(p and g[0] == "cmp" and g[1] == "==" and ("p", "pgn") in (g[2], g[3]) for g, p in lits(r.guards())):
            continue
        st = [i for i, e in r.effects() if e.kind == "store" and e.target == field("_data") and e.value == ("p", "data")]
        pa = [i for i, _ in calls(r, lambda v: is_self_call(v, "_parse_dm1_receive_data"))]
        no = [i for i, e in calls(r, lambda v: is_self_call(v, "_notify_subscribers") and v[2] == (("p", "sa"), ("p", "timestamp")))]
        note("Dm1._receive: a DM1 frame is stored, parsed, then handed to the subscribers", bool(st) and bool(pa) and bool(no) and st[0] < pa[0] < no[0],
             f, f.node, "subscribers are not called, or get the lamp states and codes of an earlier message")
    f = P.func("Dm1", "_parse_dm1_receive_data")
    fresh = app = False
    for r in runs(ctx, f, unroll=1):
        for i, e in r.effects():
            if e.kind == "store" and e.target == field("_dtc_dic_list") and e.value == ("list", ()):
                fresh = True
            if e.kind == "call" and e.value[1] == ("attr", field("_dtc_dic_list"), "append") and e.value[2] and e.value[2][0][0] == "dict":
                keys = {k[1] for k, _ in e.value[2][0][1] if is_const(k)}
                app = app or {"spn", "fmi", "oc"} <= keys
    # the length plausibility tests of the parser let every legal DM1 through: 2 lamp bytes + 4 bytes per code, one code or more
    # (and the 8-byte single frame whose last two bytes are padding)
    from .codec import eval_pred
    LEN = lensym(field("_data"))
    rejected = None
    for r in runs(ctx, f, unroll=1):
        if r.term != "return" or any(e.kind in ("store", "call") and (e.kind == "store" or "append" in pretty(e.value)) for _, e in r.effects()
                                      if not (e.kind == "call" and "logger" in pretty(e.value))):
            continue
        conds = [(g, p) for g, p in r.guards() if contains(g, LEN)]
        if not conds or len(conds) != len(r.guards()):
            continue
        try:
            for n_ in [8] + [2 + 4 * k for k in range(1, 64)]:
                if all(bool(eval_pred(g, {LEN: n_})) == p for g, p in conds):
                    rejected = (n_, r)
                    break
        except (AnalysisError, KeyError, TypeError):
            continue
        if rejected:
            break
    note("Dm1 parser: every legal length (2 lamp bytes + 4 per code, from one code up; the 8-byte single frame) is accepted", rejected is None, f,
         rejected[1].recs[-1].ev.node if rejected else f.node,
         "a DM1 of %s bytes is rejected as malformed: its lamp states and codes never reach the subscribers" % (rejected[0] if rejected else "?"))
    note("Dm1 parser: the code list is started afresh for every message", fresh, f, f.node,
         "the codes of every message received so far pile up: subscribers get codes the sender did not send")
    note("Dm1 parser: one entry with spn / fmi / oc per code", app, f, f.node, "subscribers get an empty code list")
    f = P.func("Dm1", "_notify_subscribers")
    okc = False
    for r in runs(ctx, f, unroll=1):
        for i, e in r.effects():
            if e.kind == "call" and e.value[1][0] == "iter" and contains(e.value[1], field("_subscribers")) and len(e.value[2]) == 4 and \
                    e.value[2][0] == ("p", "sa") and e.value[2][3] == ("p", "timestamp"):
                okc = True
    note("Dm1 fan-out: every subscriber is called with (source, lamp states, codes, time stamp)", okc, f, f.node, "subscribers are not called")
    f = P.func("Dm1", "_send")
    asked = False
    for r in runs(ctx, f, unroll=1):
        for i, e in r.effects():
            if e.kind == "call" and e.value[1][0] == "sub" and e.value[1][1] == ("p", "cookie") and e.value[1][2] == ("c", "cb"):
                asked = True
    note("Dm1 sender: each cycle asks the registered callback for lamp states and codes", asked, f, f.node,
         "the DM1 carries what an earlier cycle (or nothing) supplied")
    f = P.func("Dm1", "stop_send")
    note("Dm1.stop_send removes a timer", any(calls(r, lambda v: mname(v) == "remove_timer") for r in runs(ctx, f)), f, f.node,
         "the cyclic DM1 goes on after stop_send")
    f = P.func("Dm1", "unsubscribe")
    note("Dm1.unsubscribe removes the subscriber", any(calls(r, lambda v: v[1] == ("attr", field("_subscribers"), "remove") and v[2] == (("p", "callback"),))
                                                      for r in runs(ctx, f)) or any(
        e.kind == "store" and e.target == field("_subscribers") for r in runs(ctx, f) for _, e in r.effects()), f, f.node,
         "the callback keeps being called after unsubscribe")
    f = P.func("Dm1", "subscribe")
    note("Dm1.subscribe records the subscriber", any(calls(r, lambda v: v[1] == ("attr", field("_subscribers"), "append") and v[2] == (("p", "callback"),))
                                                   for r in runs(ctx, f)), f, f.node, "the callback is never called")
    f = P.func("Dm22", "_send_request")
    note("Dm22 request is handed to send_pgn", any(calls(r, lambda v: mname(v) == "send_pgn") for r in runs(ctx, f)), f, f.node, "no DM22 frame is sent")
    for nm in ("request_clear_act_dtc", "request_clear_pa_dtc"):
        f = P.func("Dm22", nm)
        note("Dm22.%s builds a request" % nm, any(calls(r, lambda v: is_self_call(v, "_send_request")) for r in runs(ctx, f)), f, f.node, "no DM22 frame is sent")
    for inst, bad in sorted(res.items()):
        if bad is None:
            ctx.holds(rule, inst)
        else:
            fn, node, why = bad
            ctx.violated(rule, fn, inst, "not done: " + why, node)
    if len(res) < 10:
        ctx.unknown(rule, "DM1 steps not found (%d)" % len(res))
