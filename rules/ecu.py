"""Timer / registry rules of ElectronicControlUnit (C12)."""
import ast
from sa.sym import SELF, is_const, cval, pretty, walk, contains, root_field, mk_cmp, mk_not, mk_bool, mk_bin
from sa.model import AnalysisError
from sa import guards as G
from .common import mname, is_self_call, lensym, sub, field, affine_diff, bind_args, runs, lits, loc, Sinks
from .robust import parents, _in_try_catching
from .flow import TIME

ECU = "ElectronicControlUnit"
SHRINK = ("remove", "pop", "clear")


def _self_attr(n):
    return isinstance(n, ast.Attribute) and isinstance(n.value, ast.Name) and n.value.id == "self"


def _aliases(fnode, fld):
    """local names bound to self.<fld> by a plain assignment"""
    out = set()
    for n in ast.walk(fnode):
        if isinstance(n, ast.Assign) and _self_attr(n.value) and n.value.attr == fld:
            for t in n.targets:
                if isinstance(t, ast.Name):
                    out.add(t.id)
    return out


def _mentions(expr, fld, aliases=()):
    return any((_self_attr(x) and x.attr == fld) or (isinstance(x, ast.Name) and x.id in aliases) for x in ast.walk(expr))


def _shrinks(node, fld, aliases=()):
    """AST nodes under `node` that shrink self.<fld> (or a local alias of it) in place"""
    out = []
    for n in ast.walk(node):
        if isinstance(n, ast.Call) and isinstance(n.func, ast.Attribute) and n.func.attr in SHRINK and (
                (_self_attr(n.func.value) and n.func.value.attr == fld) or (isinstance(n.func.value, ast.Name) and n.func.value.id in aliases)):
            out.append(n)
        if isinstance(n, ast.Delete):
            for t in n.targets:
                if isinstance(t, ast.Subscript) and _self_attr(t.value) and t.value.attr == fld:
                    out.append(n)
    return out


def _leaves_loop_after(stmt_list, shrink_node):
    """every path from the shrinking statement leaves the enclosing loop (return / break directly after it)"""
    for blk in _blocks(stmt_list):
        for i, st in enumerate(blk):
            if any(x is shrink_node for x in ast.walk(st)) and not isinstance(st, (ast.If, ast.For, ast.While, ast.Try, ast.With)):
                rest = blk[i + 1:]
                return bool(rest) and isinstance(rest[0], (ast.Return, ast.Break))
    return False


def _blocks(stmts):
    yield stmts
    for st in stmts:
        for name in ("body", "orelse", "finalbody"):
            b = getattr(st, name, None)
            if isinstance(b, list) and b and isinstance(b[0], ast.stmt):
                yield from _blocks(b)
        for h in getattr(st, "handlers", []):
            yield from _blocks(h.body)


def iter_mut(ctx, rule="R-ITER-MUT"):
    """no loop iterates a live registry list while its body can shrink that list"""
    P, cg = ctx.prog, ctx.cg
    # shrinker functions per (class, field)
    shrinkers = {}
    for fn in P.all_funcs():
        if fn.cls is None:
            continue
        for n in ast.walk(fn.node):
            if isinstance(n, ast.Call) and isinstance(n.func, ast.Attribute) and n.func.attr in SHRINK and _self_attr(n.func.value):
                shrinkers.setdefault((fn.cls.name, n.func.value.attr), set()).add(fn.qual)
    registry = {(ECU, "_timer_events"), (ECU, "_subscribers")}
    # the call-out clause is armed for the timer list only: C12 states "adding, expiring or removing one timer never
    # delays or suppresses another"; for listeners it states only that an unsubscribed callback is not called again,
    # which live iteration of _subscribers satisfies (the DM14 facade even relies on it, see DESIGN.md section 4)
    callout = {(ECU, "_timer_events")}
    n = 0
    for fn in P.all_funcs():
        if fn.cls is None:
            continue
        for loop in ast.walk(fn.node):
            if not isinstance(loop, ast.For) or not _self_attr(loop.iter):
                continue
            fld = loop.iter.attr
            key = (fn.cls.name, fld)
            if key not in shrinkers and key not in registry:
                continue
            n += 1
            inst = "%s.%s iterates live self.%s" % (fn.cls.name, fn.name, fld)
            direct = [s for s in _shrinks(loop, fld) if not _leaves_loop_after(loop.body, s)]
            if direct:
                ctx.violated(rule, fn, inst + " and shrinks it in the loop body",
                             "removing an element while iterating the same list skips the element that follows it: a duplicate "
                             "registration survives, and the next timer/listener is not served in this pass", direct[0])
                continue
            indirect = None
            if key in callout:
                for c in ast.walk(loop):
                    if isinstance(c, ast.Call):
                        site = [s for s in cg.sites.get(fn.qual, []) if s.node is c]
                        if not site:
                            continue
                        s = site[0]
                        if s.resolved == "external":
                            indirect = (c, "a user callback (which may call %s)" % "/".join(sorted(q.split(".")[-1] for q in shrinkers.get(key, []))))
                        else:
                            for t in s.targets:
                                if cg.reach([t.qual]) & shrinkers.get(key, set()):
                                    indirect = (c, "%s, which reaches %s" % (t.qual, sorted(cg.reach([t.qual]) & shrinkers[key])[0]))
            if indirect and shrinkers.get(key):
                ctx.violated(rule, fn, inst + " while calling out",
                             "the loop body calls %s: a callback that deregisters (itself or another) shrinks the list under the iteration "
                             "and the next element is skipped" % indirect[1], indirect[0])
            else:
                ctx.holds(rule, inst + " without a reachable shrink")
    # loops over snapshots of the registries
    for fn in P.all_funcs():
        if fn.cls is None:
            continue
        for loop in ast.walk(fn.node):
            if isinstance(loop, ast.For) and not _self_attr(loop.iter):
                flds = [x.attr for x in ast.walk(loop.iter) if _self_attr(x) and (fn.cls.name, x.attr) in registry | set(shrinkers)]
                if flds and (fn.cls.name, flds[0]) in registry | set(shrinkers):
                    n += 1
                    ctx.holds(rule, "%s.%s iterates a snapshot of self.%s" % (fn.cls.name, fn.name, flds[0]))
    if n < 6:
        ctx.unknown(rule, "only %d loops over registry lists found" % n)


def remove_all(ctx, rule="R-REMOVE-ALL"):
    """remove_timer / unsubscribe remove every matching registration (path-based; helpers are inlined)"""
    P = ctx.prog
    for name, fld in (("remove_timer", "_timer_events"), ("unsubscribe", "_subscribers")):
        f = P.func(ECU, name)
        F = field(fld)
        inst = "%s removes every match" % name
        verdict = None
        node = f.node
        for r in runs(ctx, f, unroll=1):
            rebuilt = [e for _, e in r.effects() if e.kind == "store" and (e.target == F or (e.target[0] == "sub" and e.target[1] == F and e.target[2][0] == "slice"))
                       and e.value[0] == "comp"]
            if rebuilt:
                # rebuilding the registry from a snapshot (rebinding the field or assigning the whole slice) is not an in-place removal:
                # add_timer / subscribe on another thread (application thread vs. timer callback) between the snapshot and the
                # assignment is silently undone
                verdict = False
                why = "the registry is rebuilt from a snapshot and assigned back: a registration added by another thread in between is lost " \
                      "(add_timer returns normally, the callback never fires)"
                node = rebuilt[0].node
                break
            rem = [(i, e) for i, e in r.effects() if e.kind == "call" and e.value[1] in (("attr", F, "remove"), ("attr", F, "pop"))]
            if not rem:
                continue
            i, e = rem[0]
            node = e.node
            arg = e.value[2][0] if e.value[2] else None
            src = arg[1] if arg is not None and arg[0] == "iter" else None
            if src is None:
                verdict = False     # a removal that is not driven by an iteration: first match only
                why = "a single remove() deletes only the first matching registration"
            elif src == F:
                verdict = False
                why = "removal happens while iterating the live list: every second adjacent match survives"
            elif src[0] == "comp" and len(src[2]) == 1 and src[1][0] == "iter" and src[1][1] == src[2][0][0] and contains(src[2][0][0], F):
                # two passes: the matching records are selected first (a comprehension over the registry or a copy of it - reading only),
                # then removed one by one from the live list
                went_on = any(rec.ev.kind == "for" and rec.ev.pol in ("exhaust", "iter") for rec in r.recs[i + 1:]) or r.term == "cut"
                if not went_on and r.term in ("fall", "return"):
                    verdict = False
                    why = "the loop is left after the first registration it removed: further registrations of the same callback stay active"
                    break
                verdict = True if verdict is None else verdict
            elif src[0] in ("call", "sub") and contains(src, F):
                # iteration over a copy (list(x), x[:], x.copy()) - and the loop goes on after a removal (no break / return)
                went_on = any(rec.ev.kind == "for" and rec.ev.pol in ("exhaust", "iter") for rec in r.recs[i + 1:]) or r.term == "cut"
                if not went_on and r.term in ("fall", "return"):
                    verdict = False
                    why = "the loop is left after the first registration it removed: further registrations of the same callback stay active"
                    break
                verdict = True if verdict is None else verdict
            else:
                verdict = verdict
        if verdict is None:
            ctx.unknown(rule, "%s: removal construct not recognised" % f.qual)
        elif verdict:
            ctx.holds(rule, inst)
        else:
            ctx.violated(rule, f, inst, why, node)


def timer_rules(ctx):
    P = ctx.prog
    sinks = Sinks(ctx)
    # R-TIMER-FIRST
    f = P.func(ECU, "add_timer")
    ok = False
    for r in runs(ctx, f):
        for i, e in r.effects():
            for x in walk(e.value) if isinstance(e.value, tuple) else ():
                if x[0] == "dict":
                    d = dict(x[1])
                    dl = d.get(("c", "deadline"))
                    if dl is not None:
                        df = affine_diff(dl, TIME)
                        if df == ({("p", "delta_time"): 1}, 0) and d.get(("c", "delta_time")) == ("p", "delta_time") \
                                and d.get(("c", "callback")) == ("p", "callback") and d.get(("c", "cookie")) == ("p", "cookie"):
                            ok = True
                        else:
                            ctx.violated("R-TIMER-FIRST", f, "first deadline = now + delta", "registration stores deadline %s" % pretty(dl), e.node)
                            return
    if ok:
        ctx.holds("R-TIMER-FIRST", "add_timer stores now + delta_time with callback, cookie and period")
    else:
        ctx.unknown("R-TIMER-FIRST", "registration dict not found in add_timer")
    # R-WAKE
    for name in ("add_timer", "remove_timer"):
        g = P.func(ECU, name)
        for r in runs(ctx, g, unroll=2):
            if r.term in ("raise", "exc"):
                continue
            woke = any(e.kind == "call" and sinks.is_wake(g, e.value) for _, e in r.effects())
            inst = "%s wakes the job thread" % name
            wi = [i for i, e in r.effects() if e.kind == "call" and sinks.is_wake(g, e.value)]
            pub = [i for i, e in r.effects() if e.kind == "call" and mname(e.value) in ("append", "insert", "extend") and root_field(e.value[1][1]) == "_timer_events"]
            pub += [i for i, e in r.effects() if e.kind in ("store", "aug") and root_field(e.target) == "_timer_events"]
            if woke and name == "add_timer" and pub and max(wi) < max(pub):
                # wake-then-publish: the job thread can run its pass in between, not see the new event, and go back to sleep
                ctx.violated("R-WAKE", g, inst + " after publishing the event", "the wake-up token is posted before the event is added to the timer list: "
                             "a job pass running in between does not see the new timer and sleeps its old time (up to 5 s) - the timer fires late",
                             [e for i, e in r.effects() if i == max(wi)][0].node)
                break
            if woke:
                ctx.holds("R-WAKE", inst)
            else:
                ctx.violated("R-WAKE", g, inst, "the job thread keeps its old sleep time: a timer added now fires late (up to 5 s)", g.node)
                break
    # job loop
    j = P.func(ECU, "_async_job_thread")
    NOWL = None
    n_per = n_one = 0
    for r in _timer_loop_runs(ctx, j):
        for i, e in r.effects():
            local_form = False
            if e.kind == "store" and e.target[0] == "sub" and e.target[2] == ("c", "deadline") and e.target[1][0] != "dict" and \
                    any(x.kind == "call" and x.value[1][0] == "sub" and x.value[1][2] == ("c", "callback") for _, x in r.effects()):
                # catch-up done on a local and stored once: stored value = old deadline + k * period (k >= 1 on this path)
                d_ = affine_diff(e.value, sub(e.target[1], "deadline"))
                if d_ is not None and d_[1] == 0 and len(d_[0]) == 1 and list(d_[0]) == [sub(e.target[1], "delta_time")] and list(d_[0].values())[0] >= 1:
                    local_form = True
                elif d_ is not None and not (d_[1] == 0 and not d_[0]):
                    n_per += 1
                    ctx.violated("R-TIMER-PERIOD", j, "periodic re-arm adds whole periods", "deadline re-armed to %s, expected old deadline + whole periods" % pretty(e.value)[:80], e.node)
                    continue
            if local_form or (e.kind == "aug" and e.target[0] == "sub" and e.target[2] == ("c", "deadline") and e.extra == "+"):
                ev = e.target[1]
                n_per += 1
                inst = "periodic re-arm adds whole periods"
                if not local_form and e.value != sub(ev, "delta_time"):
                    ctx.violated("R-TIMER-PERIOD", j, inst, "deadline advanced by %s, expected the registration's period" % pretty(e.value), e.node)
                else:
                    ctx.holds("R-TIMER-PERIOD", inst)
                # boundary: exit condition of the catch-up loop must imply the scan's not-due condition
                loopc = [rec for rec in r.recs if rec.ev.kind == "cond" and rec.ev.extra == "loop" and rec.cond is not None and contains(rec.cond, sub(ev, "deadline"))]
                scan = [rec for rec in r.recs if rec.ev.kind == "cond" and rec.ev.extra != "loop" and rec.cond is not None
                        and contains(rec.cond, sub(ev, "deadline")) and rec.cond[0] in ("cmp", "not") and not any(
                            x[0] == "var" or (x[0] == "attr" and x[2] == "next_wakeup") for x in walk(rec.cond) if isinstance(x, tuple))]
                if loopc and scan:
                    # normalise heap-substituted deadline (d + k*period) back to the symbol: compare shapes on fresh symbols
                    C = _shape(loopc[0].cond)
                    N = _shape(scan[0].cond)
                    if C is None or N is None:
                        ctx.unknown("R-TIMER-PERIOD", "deadline comparisons not recognised")
                    else:
                        # this path runs the callback, so the scan test with its polarity on this path is the "due" condition
                        due = N if scan[0].pol else mk_not(N)
                        notdue = mk_not(due)
                        ok, cex = G.implies(mk_not(C), notdue)
                        inst = "catch-up loop exit implies 'not due' (no double fire at deadline == now)"
                        if ok:
                            ctx.holds("R-TIMER-PERIOD", inst)
                        else:
                            ctx.violated("R-TIMER-PERIOD", j, inst, "the catch-up loop stops at deadline == now but the scan treats deadline == now as due: "
                                         "woken exactly at the deadline, a periodic callback is called twice", loopc[0].ev.node, witness=cex)
            if e.kind == "call" and e.value[1][0] == "sub" and e.value[1][2] == ("c", "callback"):
                ev = e.value[1][1]
                # due test dominates the call
                due = [(g, p) for g, p in r.guards(i) if contains(g, sub(ev, "deadline"))]
                if e.value[2] != (sub(ev, "cookie"),):
                    ctx.violated("R-TIMER-ONESHOT", j, "callback gets its cookie", "callback called with %s" % [pretty(x) for x in e.value[2]], e.node)
    # one-shot removal and guarded remove: AST level
    pm = parents(j.node)
    rem = _shrinks(j.node, "_timer_events", _aliases(j.node, "_timer_events"))
    rebuild = [n for n in ast.walk(j.node) if isinstance(n, ast.Assign) and _self_attr(n.targets[0]) and n.targets[0].attr == "_timer_events"]
    inst = "a callback not returning True is removed in the same pass"
    if not rem and not rebuild:
        ctx.violated("R-TIMER-ONESHOT", j, inst, "expired one-shot timers are never removed: they fire again on every pass", j.node)
    else:
        ctx.holds("R-TIMER-ONESHOT", inst)
    # R-LIVE-CHECK
    al_j = _aliases(j.node, "_timer_events")
    loops = [n for n in ast.walk(j.node) if isinstance(n, ast.For) and _mentions(n.iter, "_timer_events", al_j)]
    for lp in loops:
        snap = not (_self_attr(lp.iter) or (isinstance(lp.iter, ast.Name) and lp.iter.id in al_j))
        if snap:
            # membership re-check of the live list before the callback
            inst = "timer dispatch over a snapshot re-checks liveness before calling"
            rechecks = False
            for r in _timer_loop_runs(ctx, j):
                for i, e in r.effects():
                    if e.kind == "call" and e.value[1][0] == "sub" and e.value[1][2] == ("c", "callback"):
                        evs = e.value[1][1]
                        rechecks = (("cmp", "in", evs, field("_timer_events")), True) in lits(r.guards(i))
            if rechecks:
                ctx.holds("R-LIVE-CHECK", inst)
            else:
                ctx.violated("R-LIVE-CHECK", j, inst, "a timer removed earlier in the same pass (by another callback) is still called after "
                             "remove_timer has returned", lp)
        for s in _shrinks(lp, "_timer_events", al_j):
            inst = "job-side removal of an expired timer tolerates a concurrent removal"
            guarded = _in_try_catching(s, pm, names=("ValueError", "Exception", "BaseException"))
            cur = s
            while cur in pm and not guarded:
                cur = pm[cur]
                if isinstance(cur, ast.If) and any(isinstance(o, ast.In) for c in ast.walk(cur.test) if isinstance(c, ast.Compare) for o in c.ops):
                    guarded = True
                if cur is lp:
                    break
            if guarded:
                ctx.holds("R-LIVE-CHECK", inst)
            else:
                ctx.violated("R-LIVE-CHECK", j, inst, "list.remove raises ValueError when the callback (or another thread) has already removed the "
                             "registration: the exception ends the job thread", s)
    # R-SLEEP-FRESH: the sleep time is computed against a clock reading taken after the callbacks of this pass
    waits = [n for n in ast.walk(j.node) if isinstance(n, ast.Call) and isinstance(n.func, ast.Attribute) and n.func.attr == "get"
             and _self_attr(n.func.value) and n.func.value.attr == "_job_thread_wakeup_queue"]
    for w in waits:
        targ = None
        for k in w.keywords:
            if k.arg == "timeout":
                targ = k.value
        if targ is None and len(w.args) >= 2:
            targ = w.args[1]
        inst = "sleep time = earliest deadline - a clock reading taken after this pass's callbacks"
        if targ is None:
            ctx.violated("R-SLEEP-FRESH", j, "the wait of the job thread is bounded", "the job thread waits without a timeout: no timer ever fires while it is idle", w)
            continue
        exprs, names, depth = [targ], set(), 0
        while depth < 4:
            depth += 1
            new = [x.id for e in exprs for x in ast.walk(e) if isinstance(x, ast.Name) and x.id not in names]
            if not new:
                break
            names |= set(new)
            exprs += [n.value for n in ast.walk(j.node) if isinstance(n, ast.Assign) and any(isinstance(t, ast.Name) and t.id in new for t in n.targets)]
        loop_end = max([getattr(lp, "end_lineno", lp.lineno) for lp in loops] or [0])
        fresh = [c for e in exprs for c in ast.walk(e) if isinstance(c, ast.Call) and ast.unparse(c.func) == "time.time" and c.lineno > loop_end]
        if fresh:
            ctx.holds("R-SLEEP-FRESH", inst)
        else:
            ctx.violated("R-SLEEP-FRESH", j, inst, "the sleep time is computed from a clock value read before the timer callbacks ran: the time a callback "
                         "takes is slept again, delaying every other pending timer by that much", w)
    if not waits:
        ctx.unknown("R-SLEEP-FRESH", "wait on the wake-up queue not found")
    # notify_subscribers over a snapshot re-checks liveness
    ns = P.func(ECU, "_notify_subscribers")
    for lp in [n for n in ast.walk(ns.node) if isinstance(n, ast.For) and any(_self_attr(x) and x.attr == "_subscribers" for x in ast.walk(n.iter))]:
        if not _self_attr(lp.iter):
            rechecks = [n for n in ast.walk(lp) if isinstance(n, ast.Compare) and any(isinstance(o, (ast.In, ast.NotIn)) for o in n.ops)
                        and any(_self_attr(c) and c.attr == "_subscribers" for c in n.comparators)]
            inst = "listener dispatch over a snapshot re-checks liveness before calling"
            if rechecks:
                ctx.holds("R-LIVE-CHECK", inst)
            else:
                ctx.violated("R-LIVE-CHECK", ns, inst, "a listener unsubscribed by an earlier callback of the same dispatch is still called after unsubscribe returned", lp)
    if n_per == 0:
        ctx.violated("R-TIMER-PERIOD", j, "periodic re-arm", "a callback returning True is not re-armed by its period", j.node)


def _timer_loop_runs(ctx, j):
    """runs of the body of the timer dispatch loop (one iteration, inner loops unrolled twice)"""
    from sa.paths import runs_of
    from sa.sym import SymEval
    from .common import contradictory
    loop = None
    al = _aliases(j.node, "_timer_events")
    for n in ast.walk(j.node):
        if isinstance(n, ast.For) and _mentions(n.iter, "_timer_events", al):
            loop = n
            break
    if loop is None:
        raise AnalysisError("anchor vanished: timer dispatch loop in %s" % j.qual)
    ev = SymEval(ctx.prog, j)
    for a in al:
        ev.env[a] = field("_timer_events")
    ev.env["now"] = ("p", "now")
    ev.env["next_wakeup"] = ("p", "next_wakeup")
    it = ev.expr(loop.iter)
    ev.uid += 1
    ev._bind_target(loop.target, ("iter", it, ev.uid))
    return [r for r in runs_of(ctx.prog, j, unroll=2, body=loop.body, evalr=ev) if not contradictory(r) and r.term != "cut"]


def _shape(c):
    """(deadline-ish < now-ish) comparisons reduced to symbols D, N"""
    D, N = ("p", "D"), ("p", "N")

    def side(x):
        if any(isinstance(y, tuple) and y[:1] == ("sub",) and y[2] == ("c", "deadline") for y in walk(x)):
            return D
        return N
    if c[0] == "not":
        inner = _shape(c[1])
        return None if inner is None else mk_not(inner)
    if c[0] == "cmp" and c[1] in ("<", "=="):
        a, b = side(c[2]), side(c[3])
        if a == b:
            return None
        return mk_cmp(c[1], a, b)
    return None


def wake_nonblocking(ctx, rule="R-WAKE-NONBLOCK"):
    """posting a wake-up token can never block: the queue is unbounded, or the put is non-blocking.  The job thread is the only consumer
    of the tokens and also posts them (timer callbacks that add timers, re-entrant replies): a blocking put on a full queue stops it for good"""
    P = ctx.prog
    init = P.func(ECU, "__init__")
    wake = P.func(ECU, "_job_thread_wakeup")
    unbounded = None
    qfield = None
    # which field does the wake-up put into?
    for n in ast.walk(wake.node):
        if isinstance(n, ast.Call) and isinstance(n.func, ast.Attribute) and n.func.attr in ("put", "put_nowait") and isinstance(n.func.value, ast.Attribute):
            qfield = n.func.value.attr
            putcall = n
    if qfield is None:
        ctx.unknown(rule, "no queue put in %s" % wake.qual)
        return
    for n in ast.walk(init.node):
        if isinstance(n, ast.Assign) and any(isinstance(t, ast.Attribute) and t.attr == qfield for t in n.targets) and isinstance(n.value, ast.Call):
            c = n.value
            name = c.func.attr if isinstance(c.func, ast.Attribute) else c.func.id if isinstance(c.func, ast.Name) else None
            if name in ("Queue", "SimpleQueue", "LifoQueue"):
                size = c.args[0] if c.args else next((k.value for k in c.keywords if k.arg == "maxsize"), None)
                if name == "SimpleQueue" or size is None:
                    unbounded = True
                else:
                    v = P.const_eval(size, init.mod, init.cls)
                    unbounded = isinstance(v, int) and v <= 0
                qnode = n
    inst = "the wake-up of the job thread cannot block"
    if unbounded is None:
        ctx.unknown(rule, "construction of %s not found in %s" % (qfield, init.qual))
        return
    nonblocking = putcall.func.attr == "put_nowait" or any(k.arg == "block" and isinstance(k.value, ast.Constant) and k.value.value is False for k in putcall.keywords) \
        or (len(putcall.args) > 1 and isinstance(putcall.args[1], ast.Constant) and putcall.args[1].value is False)
    if unbounded or nonblocking:
        ctx.holds(rule, inst, "unbounded queue" if unbounded else "non-blocking put")
    else:
        ctx.violated(rule, init, inst, "the wake-up queue is bounded and %s blocks when it is full: the job thread, the only consumer of the tokens, posts tokens "
                     "itself (timer callbacks, re-entrant replies) and stops for good on its own put once enough tokens are pending" % ast.unparse(putcall)[:50], qnode)


def timer_scan_all(ctx, rule="R-TIMER-SCAN-ALL"):
    """every pass of the job thread examines every registered timer: the scan over the timer list is not left early.  A scan that stops at
    the first timer that is not due is only right for a list kept in deadline order - it is reported when some site that adds a timer or
    moves a deadline does not re-establish the order (the timers behind the first not-due one are then not examined although they are due)."""
    P = ctx.prog
    j = P.func(ECU, "_async_job_thread")
    al = _aliases(j.node, "_timer_events")
    loops = [n for n in ast.walk(j.node) if isinstance(n, ast.For) and _mentions(n.iter, "_timer_events", al)]
    # a scan over a snapshot bound to a local first
    snaps = {t.id for n in ast.walk(j.node) if isinstance(n, ast.Assign) and _mentions(n.value, "_timer_events", al)
             for t in n.targets if isinstance(t, ast.Name)}
    loops += [n for n in ast.walk(j.node) if isinstance(n, ast.For) and n not in loops and any(
        isinstance(x, ast.Name) and x.id in snaps for x in ast.walk(n.iter))]
    if not loops:
        raise AnalysisError("anchor vanished: timer dispatch loop in %s" % j.qual)
    pm = parents(j.node)

    def innermost_loop(n):
        p = pm.get(n)
        while p is not None and not isinstance(p, (ast.For, ast.While)):
            if isinstance(p, (ast.FunctionDef, ast.Lambda)):
                return None
            p = pm.get(p)
        return p

    def shutdown_guarded(n, loop):
        p = pm.get(n)
        while p is not None and p is not loop:
            if isinstance(p, ast.If) and any(isinstance(x, ast.Attribute) and x.attr == "_job_thread_end" for x in ast.walk(p.test)):
                return True
            p = pm.get(p)
        return False
    ORDER = ("sort", "insort", "insort_left", "insort_right", "heappush", "heapify", "heapreplace", "heappushpop")

    def orders(fn):
        return any(isinstance(n, ast.Call) and ((isinstance(n.func, ast.Attribute) and n.func.attr in ORDER) or
                                                (isinstance(n.func, ast.Name) and n.func.id in ORDER + ("sorted",))) for n in ast.walk(fn))
    for loop in loops:
        exits = [n for n in ast.walk(loop) if (isinstance(n, ast.Break) and innermost_loop(n) is loop) or
                 (isinstance(n, ast.Return) and innermost_loop(n) is not None)]
        exits = [n for n in exits if not shutdown_guarded(n, loop)]
        inst = "timer scan examines every registered timer in every pass"
        if not exits:
            ctx.holds(rule, inst)
            continue
        # sites that add a timer or move a deadline
        cls = P.cls(ECU)
        unordered = []
        for mn, m in sorted(cls.methods.items()):
            touches = False
            for n in ast.walk(m.node):
                if isinstance(n, ast.Call) and isinstance(n.func, ast.Attribute) and n.func.attr in ("append", "insert", "extend") and \
                        _mentions(n.func.value, "_timer_events", _aliases(m.node, "_timer_events")):
                    touches = True
                if isinstance(n, (ast.Assign, ast.AugAssign)):
                    for t in (n.targets if isinstance(n, ast.Assign) else [n.target]):
                        if isinstance(t, ast.Subscript) and isinstance(t.slice, ast.Constant) and t.slice.value == "deadline":
                            touches = True
            if touches and not orders(m.node):
                unordered.append(mn)
        if unordered:
            ctx.violated(rule, j, inst, "the scan over the timer list is left at line %d before all timers were examined, and %s adds a timer / moves a "
                         "deadline without re-establishing any order of the list: a due timer behind the exit point is not called until a later pass "
                         "(one timer delays another)" % (exits[0].lineno, ", ".join(unordered)), exits[0])
        else:
            ctx.unknown(rule, "the timer scan is left early at line %d and every site orders the list: order invariant not decided" % exits[0].lineno)


def wake_consume(ctx, rule="R-WAKE-CONSUME"):
    """a wake-up token posted while a job pass is running asks for ANOTHER pass (the state change it announces may have happened after the
    pass looked at that session / timer).  Between the start of a pass and the blocking wait that ends it, the job thread therefore takes
    nothing out of the wake-up queue; the wait itself is the only consumer."""
    P = ctx.prog
    j = P.func(ECU, "_async_job_thread")
    Q = "_job_thread_wakeup_queue"
    loops = [n for n in ast.walk(j.node) if isinstance(n, ast.While)]
    outer = None
    for w in loops:
        if any(isinstance(x, ast.Call) and isinstance(x.func, ast.Attribute) and x.func.attr == "async_job_thread" for x in ast.walk(w)):
            outer = w
            break
    if outer is None:
        raise AnalysisError("anchor vanished: job loop calling the data link layer's pass in %s" % j.qual)
    al = _aliases(j.node, Q)

    def on_queue(n):
        return any((_self_attr(x) and x.attr == Q) or (isinstance(x, ast.Name) and x.id in al) for x in ast.walk(n))
    pass_line = min(x.lineno for x in ast.walk(outer) if isinstance(x, ast.Call) and isinstance(x.func, ast.Attribute) and x.func.attr == "async_job_thread")
    consumers = []
    waits = []
    for x in ast.walk(outer):
        if isinstance(x, ast.Call) and isinstance(x.func, ast.Attribute) and on_queue(x.func.value):
            a = x.func.attr
            if a == "get":
                kw = {k.arg: k.value for k in x.keywords}
                block = x.args[0] if x.args else kw.get("block")
                timeout = x.args[1] if len(x.args) > 1 else kw.get("timeout")
                nonblock = isinstance(block, ast.Constant) and block.value in (False, 0)
                if nonblock:
                    consumers.append(x)
                else:
                    waits.append(x)
            elif a in ("get_nowait", "clear", "popleft", "pop"):
                consumers.append(x)
    inst = "the job thread takes wake-up tokens only in the blocking wait that ends a pass"
    late = [x for x in consumers if x.lineno > pass_line]
    if late:
        ctx.violated(rule, j, inst, "wake-up tokens are removed without waiting at line %d, after the pass over the sessions has started (line %d): a "
                     "token posted by a reply that arrived after the pass looked at its session is dropped, and the thread sleeps until the "
                     "session's time-out instead of serving the reply" % (late[0].lineno, pass_line), late[0])
    elif not waits:
        ctx.unknown(rule, "blocking wait on the wake-up queue not found in %s" % j.qual)
    else:
        ctx.holds(rule, inst)


def config_range(ctx, rule="R-CONFIG-RANGE"):
    """the constructor accepts every packets-per-CTS setting the properties quantify over (1..255): no raising path of its argument check is
    selected by a value in that range"""
    from .codec import eval_pred
    P = ctx.prog
    f = P.func(ECU, "__init__")
    X = ("p", "max_cmdt_packets")
    bad = None
    n = 0
    pm = parents(f.node)
    for r in runs(ctx, f):
        if r.term not in ("raise",):
            continue
        gs = r.guards()
        # the raise statement reached must sit directly under a test of this argument (other raises of the constructor are not its business)
        rn = r.recs[-1].ev.node if r.recs else None
        par = pm.get(rn) if rn is not None else None
        if not (isinstance(par, ast.If) and any(isinstance(x, ast.Name) and x.id == "max_cmdt_packets" for x in ast.walk(par.test))):
            continue
        conds = [(g, p) for g, p in gs if contains(g, X)]
        n += 1
        try:
            for v in range(1, 256):
                if all(bool(eval_pred(g, {X: v})) == p for g, p in conds):
                    bad = (v, r)
                    break
        except (AnalysisError, KeyError, TypeError):
            continue
        if bad:
            break
    inst = "ElectronicControlUnit(max_cmdt_packets=n) is accepted for every n in 1..255"
    if bad:
        ctx.violated(rule, f, inst, "the constructor raises for max_cmdt_packets = %d, a legal packets-per-CTS setting" % bad[0], bad[1].recs[-1].ev.node)
    elif n:
        ctx.holds(rule, inst)
    else:
        ctx.holds(rule, inst, "no argument check on max_cmdt_packets")
