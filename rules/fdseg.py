"""FD segmentation idiom (numpy split/reshape) and the FD DT builder."""
from sa.sym import SELF, is_const, cval, pretty, walk, contains, root_field, mk_cmp, mk_not, mk_bin
from sa import guards as G
from .common import mname, is_self_call, lensym, sub, field, affine_diff, bind_args, runs, lits, loc
from .arith import qr_eval, Unk

DATA = ("p", "data")
NP = ("glob", "np")


def _np(name):
    return ("attr", NP, name)


def seg_const_fd(ctx, L, rule="R-SEG-CONST-FD"):
    f = L.send_pgn
    K = L.seg
    n = 0
    for r in runs(ctx, f):
        for i, e in r.effects():
            if e.kind == "store" and e.value[0] == "dict" and root_field(e.target) == "_snd_buffer":
                n += 1
                d = dict(e.value[1])
                dl = d.get(("c", "data"))
                inst = "22 payload chunking (session state %s)" % pretty(d.get(("c", "state")))
                ok, why = _chunks_of(dl, K, r, i)
                if ok == "skip":
                    continue
                if ok is None:
                    ctx.unknown(rule, "%s: chunking idiom not recognised: %s" % (inst, why))
                elif ok:
                    ctx.holds(rule, inst, why)
                else:
                    ctx.violated(rule, f, inst, why, e.node)
    if n == 0:
        ctx.unknown(rule, "no FD send-session creation found")
    # DT builder: header 4 bytes, keeps up to K data bytes, pads with 0xFF to LUT[len]
    b = L.builder("__send_tp_dt")
    m = 0
    for r in runs(ctx, b):
        sends = [(i, e) for i, e in r.effects() if e.kind == "call" and is_self_call(e.value, "__send_message")]
        if not sends:
            continue
        m += 1
        i, e = sends[0]
        payload = e.value[2][2] if len(e.value[2]) > 2 else None
        inst = "22 FD.TP.DT builder %s path" % ("truncate" if payload is not None and payload[0] == "sub" else "pad")
        iv = G.intervals(r.guards(i))
        if payload is None:
            ctx.unknown(rule, "DT builder payload not found")
            continue
        if payload[0] == "sub" and payload[2][0] == "slice":
            hi = payload[2][2]
            if payload[2][1] is not None or hi != ("c", K + 4):
                ctx.violated(rule, b, inst, "frame truncated to %s bytes, expected 4 header + %d data bytes" % (pretty(hi), K), e.node)
            else:
                ctx.holds(rule, inst)
        elif payload[0] == "pad":
            if payload[3] != ("c", 255):
                ctx.violated(rule, b, inst, "FD.TP.DT pad byte is %s, expected 0xFF" % pretty(payload[3]), e.node)
            else:
                ln = lensym(payload[1])
                hi = iv.get(ln, [None, None])[1]
                if hi is None or hi > K + 4:
                    ctx.violated(rule, b, inst, "un-truncated frame may be longer than %d bytes on the padding path" % (K + 4), e.node)
                else:
                    ctx.holds(rule, inst)
        else:
            ctx.unknown(rule, "DT builder payload %s not recognised" % pretty(payload)[:80])
    if m < 2:
        ctx.unknown(rule, "FD DT builder paths not found (%d)" % m)


def _chunks_of(dl, K, r, i):
    """recognise: full = int(len/K); parts = np.split(np.array(data), [full*K]);
       list = np.reshape(parts[0], (-1, K)).tolist() (+ parts[1].tolist() appended when present)"""
    if dl is None:
        return None, "no 'data' in the session"
    # plain comprehension alternative: [data[i:i+K] for i in range(0, len(data), K)]
    if dl[0] == "comp":
        elt, gens = dl[1], dl[2]
        if len(gens) == 1 and gens[0][0][0] == "call" and gens[0][0][1] == ("glob", "range"):
            a = gens[0][0][2]
            if len(a) == 3 and a[0] == ("c", 0) and a[1] == lensym(DATA) and a[2] == ("c", K) and elt[0] == "sub" and elt[1] == DATA \
                    and elt[2][0] == "slice":
                d = affine_diff(elt[2][2], elt[2][1])
                if d == ({}, K):
                    return True, "data[i:i+%d] for i in range(0, len, %d)" % (K, K)
                return False, "chunks are data[i:i+%s]" % (d,)
        return None, pretty(dl)[:100]
    parts = dl[1] if dl[0] == "cat" else (dl,)
    head = parts[0]
    # head = reshape(split(array(data), [cut])[0], (-1, K)).tolist()
    def un_tolist(x):
        if x[0] == "call" and x[1][0] == "attr" and x[1][2] == "tolist" and not x[2]:
            return x[1][1]
        return None
    h = un_tolist(head)
    if h is None or h[0] != "call" or h[1] != _np("reshape") or len(h[2]) != 2:
        return None, pretty(dl)[:100]
    src, shape = h[2]
    if shape != ("tuple", (("c", -1), ("c", K))):
        return False, "segments are reshaped to %s, expected rows of %d bytes" % (pretty(shape), K)
    if src[0] != "sub" or src[2] != ("c", 0):
        return None, "reshape source %s" % pretty(src)[:80]
    sp = src[1]
    if sp[0] != "call" or sp[1] != _np("split") or len(sp[2]) != 2:
        return None, "split %s" % pretty(sp)[:80]
    arr, cuts = sp[2]
    if arr != ("call", _np("array"), (DATA,), ()):
        return False, "split source is %s, not the payload" % pretty(arr)
    if cuts[0] != "list" or len(cuts[1]) != 1:
        return None, "cut list %s" % pretty(cuts)
    cut = cuts[1][0]
    try:
        for rlo, rhi in ((0, 0), (1, K - 1)):
            v = qr_eval(cut, lensym(DATA), K, rlo, rhi)
            if not (v.a == K and v.lo == v.hi == 0):
                return False, "split point %s is not %d*floor(len/%d) (evaluates to %r for remainder in [%d,%d])" % (pretty(cut), K, K, v, rlo, rhi)
    except Unk as u:
        return None, "split point %s (%s)" % (pretty(cut), u)
    # remainder appended: second part must be split(...)[1].tolist() wrapped in a one-element list
    if len(parts) == 1:
        # path where no remainder chunk is appended: must be conditioned on len(list_of_arr) > 1 being false - always 2 parts with one cut
        if (mk_cmp("<", ("c", 1), lensym(sp)), False) in lits(r.guards(i)):
            return "skip", "np.split with one cut point always yields two parts: this path is infeasible"
        if any(x[0] == "sub" and x[1] == sp and x[2] == ("c", 1) for g, _ in lits(r.guards(i)) for x in walk(g)):
            return None, "remainder chunk appended under a condition on the remainder part itself (not decided)"
        return False, "remainder chunk (len %% %d bytes) is not appended on this path" % K
    tail = parts[1]
    if tail[0] != "list" or len(tail[1]) != 1:
        return None, "tail %s" % pretty(tail)[:80]
    t = un_tolist(tail[1][0])
    if t is None or t != ("sub", sp, ("c", 1)):
        return False, "appended remainder is %s, expected the second part of the split" % pretty(tail[1][0])[:80]
    return True, "np.split at %d*floor(len/%d), rows of %d, remainder last" % (K, K, K)


def fd_sender_steps(ctx, L, rule="R-FD-SENDER"):
    """J1939-22 originator, job pass: what each step must do for the message to arrive.  Every data segment handed to the bus advances the
    segment index (else the same segment is sent for ever); the end-of-message status follows the last segment of a connection-mode
    transfer and ends a broadcast (the responder delivers only on it); after the last broadcast segment the session waits to send it."""
    from .flow import scan_runs
    from .common import sub, lits
    from sa.sym import is_const
    f = L.job
    st = L.states
    res = {}

    def note(key, ok, node):
        if ok:
            res.setdefault(key, None)
        elif res.get(key) is None:
            res[key] = node
    for r in scan_runs(ctx, L, "_snd_buffer", unroll=1):
        if r.term in ("raise", "cut"):
            continue
        gl = lits(r.guards())
        state = [x[1] for g, p in gl if p and g[0] == "cmp" and g[1] == "==" and any(y[0] == "sub" and y[2] == ("c", "state") for y in (g[2], g[3]))
                 for x in (g[2], g[3]) if is_const(x)]
        if not state:
            continue
        name = {v: k for k, v in st.items()}.get(state[0])
        dts = L.calls(r, "__send_tp_dt")
        eoms = L.calls(r, "__send_tp_eom_status")
        adv = [e for _, e in r.effects() if e.kind in ("aug", "store") and e.target[0] == "sub" and e.target[2] == ("c", "next_packet_to_send")]
        new_state = [e.value[1] for _, e in r.effects() if e.kind == "store" and e.target[0] == "sub" and e.target[2] == ("c", "state") and is_const(e.value)]
        last = r.recs[-1].ev.node if r.recs else f.node
        if name in ("SENDING_RTS_CTS", "SENDING_BAM") and dts:
            note("%s: every segment sent advances the segment index" % name, len(adv) >= len(dts), dts[0][1].node)
        if name == "SENDING_RTS_CTS" and dts:
            # the segment index of a DT that is sent is below the segment count: the loop test is strict
            i0 = dts[0][0]
            strict = any(g[0] == "cmp" and g[1] == "<" and p is True and any(y[0] == "sub" and y[2] == ("c", "next_packet_to_send") for y in (g[2],))
                         and any(y[0] == "sub" and y[2] == ("c", "num_segments") for y in (g[3],)) for g, p in lits(r.guards(i0)))
            loose = any(g[0] == "cmp" and g[1] == "<" and p is False and any(y[0] == "sub" and y[2] == ("c", "num_segments") for y in (g[2],))
                        and any(y[0] == "sub" and y[2] == ("c", "next_packet_to_send") for y in (g[3],)) for g, p in lits(r.guards(i0)))
            if strict or loose:
                note("SENDING_RTS_CTS: a segment is sent only while the index is below the segment count", strict and not loose, dts[0][1].node)
        if name == "SENDING_RTS_CTS" and st.get("WAITING_EOM_ACK") in new_state:
            note("SENDING_RTS_CTS: the end-of-message status follows the last segment", bool(eoms), last)
        if name == "SENDING_EOM_STATUS":
            note("SENDING_EOM_STATUS: the end-of-message status of the broadcast is sent", bool(eoms), last)
        if name == "SENDING_BAM" and dts:
            more = any(g[0] == "cmp" and g[1] == "<" and p is False and any(y[0] == "sub" and y[2] == ("c", "num_segments") for y in (g[2], g[3])) for g, p in gl)
            if more:
                note("SENDING_BAM: after the last segment the session goes on to send the end-of-message status",
                     st.get("SENDING_EOM_STATUS") in new_state or bool(eoms), last)
    for key, bad in sorted(res.items()):
        inst = "22 job pass, %s" % key
        if bad is None:
            ctx.holds(rule, inst)
        else:
            ctx.violated(rule, f, inst, "a path of the job pass does not do this: the responder never completes the message (it delivers on the "
                         "end-of-message status) or the same segment is repeated", bad)
    if len(res) < 3:
        ctx.unknown(rule, "%s: sender steps not found (%d)" % (f.qual, len(res)))
