"""Flow-control and pacing rules (C09; R-CTS-BORDER shared with C01/C02)."""
import ast
from sa.sym import (SELF, is_const, cval, pretty, walk, contains, root_field, mk_cmp, mk_not, mk_bool, mk_bin)
from sa.model import AnalysisError
from sa import guards as G
from .common import (mname, is_self_call, lensym, sub, field, affine, affine_eq, affine_diff, min_leaves, bind_args,
                     runs, lits, loc)
from .transport import GLOBAL
from .session import MID_SA, DEST, _fd_session_rx

TIME = ("call", ("attr", ("glob", "time"), "time"), (), ())
OWN_MAX = field("_max_cmdt_packets")


def _d(i):
    return ("sub", ("p", "data"), ("c", i))


def _le24(a, b, c):
    def m(x):
        return mk_bin("&", x, ("c", 255))
    return mk_bin("|", m(_d(a)), mk_bin("|", mk_bin("<<", m(_d(b)), ("c", 8)), mk_bin("<<", m(_d(c)), ("c", 16))))


class RxNames:
    """per-layer names of the responder-side entry fields and frame fields"""

    def __init__(self, L):
        self.L = L
        if L.fd:
            self.key = ("call", ("attr", SELF, "_buffer_hash"), (_fd_session_rx(), MID_SA, DEST), ())
            self.border, self.window, self.total = "next_cts_border", "num_segments_max_rec", "num_segments"
            self.rts_window = _d(7)
            self.cts_grant_param, self.cts_next_param = "num_segments_that_can_be_sent", "next_packet"
        else:
            self.key = ("call", ("attr", SELF, "_buffer_hash"), (MID_SA, DEST), ())
            self.border, self.window, self.total = "next_packet", "num_packages_max_rec", "num_packages"
            self.rts_window = _d(4)
            self.cts_grant_param, self.cts_next_param = "num_packets", "next_packet"
        self.E = ("sub", field("_rcv_buffer"), self.key)


def _rts_creation(ctx, L, N):
    """the dict display that creates a receive session in the RTS branch: (run, rec index, dict)"""
    rts = L.const("ctl", "RTS")
    out = []
    for r in runs(ctx, L.cm):
        if not any(p and g[0] == "cmp" and g[1] == "==" and ("c", rts) in (g[2], g[3]) for g, p in lits(r.guards())):
            continue
        for i, e in r.effects():
            if e.kind == "store" and e.target == N.E and e.value[0] == "dict":
                out.append((r, i, dict(e.value[1])))
    return out


def _expand(s, d):
    """min-leaves with entry fields replaced by their creation values"""
    out = []
    for l in min_leaves(s):
        if l[0] == "sub" and l[2][0] == "c" and ("c", l[2][1]) in d and l[1][0] == "sub" and l[1][1] == field("_rcv_buffer"):
            out.extend(min_leaves(d[("c", l[2][1])]))
        else:
            out.append(l)
    return out


def grant_min(ctx, L, rule="R-GRANT-MIN"):
    """every CTS grant is a min-closure over own maximum, the RTS window byte and the remaining count"""
    N = RxNames(L)
    cr = _rts_creation(ctx, L, N)
    if not cr:
        ctx.unknown(rule, "receive-session creation in the RTS branch not found (%s)" % L.cm.qual)
        return
    r, ci, d = cr[0]
    total_frame = d.get(("c", N.total))
    b = L.builder("__send_tp_cts")
    # first CTS
    first = [(i, e) for i, e in L.calls(r, "__send_tp_cts") if i >= ci]
    inst = "%s first CTS grant" % L.tag
    if not first:
        ctx.violated(rule, L.cm, inst, "no CTS is sent after opening the receive session", L.cm.node)
    else:
        a = bind_args(first[0][1].value, b)
        g = a.get(N.cts_grant_param)
        leaves = min_leaves(g) if g else []
        miss = []
        if OWN_MAX not in leaves:
            miss.append("own maximum (_max_cmdt_packets)")
        if N.rts_window not in leaves:
            miss.append("the RTS window byte %s" % pretty(N.rts_window))
        if total_frame is None or not any(affine_eq(l, total_frame) for l in leaves):
            miss.append("the total packet count")
        if miss:
            ctx.violated(rule, L.cm, inst, "grant %s is not bounded by %s" % (pretty(g), ", ".join(miss)), first[0][1].node)
        else:
            ctx.holds(rule, inst, "min over %s" % ", ".join(pretty(x) for x in leaves))
        if a.get(N.cts_next_param) != ("c", 1):
            ctx.violated(rule, L.cm, inst + " next", "first CTS names packet %s, expected 1" % pretty(a.get(N.cts_next_param)), first[0][1].node)
        if a.get("src_address") != DEST or a.get("dest_address") != MID_SA:
            ctx.violated(rule, L.cm, inst + " addressing", "CTS sent %s -> %s, expected responder -> originator" % (
                pretty(a.get("src_address")), pretty(a.get("dest_address"))), first[0][1].node)
    # follow-up CTS in the DT handler
    n = 0
    for r2 in runs(ctx, L.dt):
        for i, e in L.calls(r2, "__send_tp_cts"):
            n += 1
            a = bind_args(e.value, b)
            g = a.get(N.cts_grant_param)
            leaves = _expand(g, d) if g else []
            inst = "%s follow-up CTS grant" % L.tag
            remaining = mk_bin("-", sub(N.E, N.total), sub(N.E, N.border))
            miss = []
            if OWN_MAX not in leaves:
                miss.append("own maximum")
            if N.rts_window not in leaves:
                miss.append("the RTS window byte")
            if not any(affine_eq(l, remaining) for l in leaves):
                miss.append("the remaining count (total - covered)")
            if miss:
                ctx.violated(rule, L.dt, inst, "grant %s is not bounded by %s" % (pretty(g), ", ".join(miss)), e.node)
            else:
                ctx.holds(rule, inst, "min over %s" % ", ".join(pretty(x) for x in leaves))
            if a.get("src_address") != DEST or a.get("dest_address") != MID_SA:
                ctx.violated(rule, L.dt, inst + " addressing", "CTS sent %s -> %s, expected responder -> originator" % (
                    pretty(a.get("src_address")), pretty(a.get("dest_address"))), e.node)
    if n == 0:
        ctx.violated(rule, L.dt, "%s follow-up CTS" % L.tag, "the DT handler never sends a CTS: windows smaller than the message stall", L.dt.node)
    # the window announced in our own RTS is min(own maximum, total)
    for r3 in runs(ctx, L.send_pgn):
        for i, e in L.calls(r3, "__send_tp_rts"):
            a = bind_args(e.value, L.builder("__send_tp_rts"))
            w = a.get("max_cmdt_packets")
            leaves = min_leaves(w) if w else []
            inst = "%s RTS announces window" % L.tag
            if OWN_MAX in leaves and all(l == OWN_MAX or l == a.get("num_packets", a.get("num_segments")) for l in leaves):
                ctx.holds(rule, inst)
            else:
                ctx.violated(rule, L.send_pgn, inst, "RTS window byte is %s, expected min(own maximum, total)" % pretty(w), e.node)


def cts_border(ctx, L, rule="R-CTS-BORDER"):
    """responder window bookkeeping: CTS at the border, grant min(W, N-B), next B+1, B' = min(B+W, N)"""
    N = RxNames(L)
    cr = _rts_creation(ctx, L, N)
    if not cr:
        ctx.unknown(rule, "receive-session creation not found")
        return
    r, ci, d = cr[0]
    b = L.builder("__send_tp_cts")
    first = [(i, e) for i, e in L.calls(r, "__send_tp_cts") if i >= ci]
    inst = "%s initial border = first grant" % L.tag
    if first:
        a = bind_args(first[0][1].value, b)
        g = a.get(N.cts_grant_param)
        b0 = d.get(("c", N.border))
        w0 = d.get(("c", N.window))
        if b0 is None or w0 is None:
            ctx.violated(rule, L.cm, inst, "session is created without '%s'/'%s'" % (N.border, N.window), first[0][1].node)
        elif set(min_leaves(b0)) != set(min_leaves(g)) or set(min_leaves(w0)) != set(min_leaves(g)):
            ctx.violated(rule, L.cm, inst, "first grant %s, initial border %s and window %s disagree" % (pretty(g), pretty(b0), pretty(w0)),
                         first[0][1].node)
        else:
            ctx.holds(rule, inst)
    B, W, T = sub(N.E, N.border), sub(N.E, N.window), sub(N.E, N.total)
    seq = _d(0) if not L.fd else _le24(1, 2, 3)
    n = 0
    for r2 in runs(ctx, L.dt):
        ctss = L.calls(r2, "__send_tp_cts")
        if not ctss:
            continue
        n += 1
        i, e = ctss[0]
        a = bind_args(e.value, b)
        inst = "%s follow-up CTS" % L.tag
        problems = []
        # trigger: reaching the border must send a CTS (and only destination-specific)
        trig = [g for g, p in r2.guards(i) if contains(g, B)]
        if not trig:
            problems.append("CTS is not conditioned on the border")
        else:
            F = G.conj([(g, p) for g, p in r2.guards(i) if contains(g, B)])
            spec = mk_not(mk_cmp("==", DEST, GLOBAL))
            ok1, _ = G.implies(mk_bool("and", [mk_cmp("==", seq, B), spec]), F)
            ok2, _ = G.implies(F, mk_not(mk_cmp("<", seq, B)))
            if not ok1:
                problems.append("a packet whose number equals the border does not trigger the CTS (%s)" % pretty(F))
            if not ok2:
                problems.append("CTS may be sent before the border is reached (%s)" % pretty(F))
        if not any(g == mk_cmp("==", DEST, GLOBAL) and not p for g, p in lits(r2.guards(i))):
            problems.append("CTS is not restricted to destination-specific transfers")
        g = a.get(N.cts_grant_param)
        if g is None or sorted(map(repr, min_leaves(g))) != sorted(map(repr, [W, mk_bin("-", T, B)])):
            ok = g is not None and len(min_leaves(g)) == 2 and W in min_leaves(g) and any(affine_eq(l, mk_bin("-", T, B)) for l in min_leaves(g))
            if not ok:
                problems.append("grant is %s, expected min(window, total - border)" % pretty(g))
        nx = a.get(N.cts_next_param)
        dn = affine_diff(nx, B) if nx else None
        if dn is None or dn != ({}, 1):
            problems.append("next packet is %s, expected border + 1" % pretty(nx))
        st = [x for _, x in r2.effects() if x.kind == "store" and x.target == B]
        if not st:
            problems.append("border is not advanced after the CTS")
        else:
            lv = min_leaves(st[0].value)
            ok = len(lv) == 2 and T in lv and any(affine_eq(l, mk_bin("+", B, W)) for l in lv)
            if not ok:
                problems.append("border advanced to %s, expected min(border + window, total)" % pretty(st[0].value))
        if problems:
            ctx.violated(rule, L.dt, inst, "; ".join(problems), e.node)
        else:
            ctx.holds(rule, inst, "at seq==B: grant min(W, N-B), next B+1, B'=min(B+W, N)")
    if n == 0:
        ctx.unknown(rule, "no follow-up CTS path in %s" % L.dt.qual)


def scan_runs(ctx, L, table="_snd_buffer", unroll=1):
    """runs of the body of the job-thread scan loop over `table` (one iteration, inner loops unrolled)"""
    import ast
    key = ("scan", L.cls, table, unroll)
    cache = ctx.__dict__.setdefault("_runs_cache", {})
    if key in cache:
        return cache[key]
    from sa.paths import runs_of
    from sa.sym import SymEval
    from .common import contradictory
    loop = None
    host = L.job

    def over_table(fnode, n):
        if not isinstance(n, ast.For):
            return False
        if any(isinstance(x, ast.Attribute) and x.attr == table for x in ast.walk(n.iter)):
            return True
        # `keys = <expression over the table>` ... `for k in keys:`
        if isinstance(n.iter, ast.Name):
            for a in ast.walk(fnode):
                if isinstance(a, ast.Assign) and any(isinstance(t, ast.Name) and t.id == n.iter.id for t in a.targets) and \
                        any(isinstance(x, ast.Attribute) and x.attr == table for x in ast.walk(a.value)) and a.lineno < n.lineno:
                    return True
        return False
    for n in ast.walk(L.job.node):
        if over_table(L.job.node, n):
            loop = n
            break
    if loop is None:
        # the scan may have been moved into a private helper that only the job pass calls
        from .common import is_helper, owners
        for fn in ctx.prog.all_funcs():
            if fn.cls is None or fn.cls.name != L.cls or not is_helper(fn) or owners(ctx, fn) != {L.job.qual}:
                continue
            for n in ast.walk(fn.node):
                if isinstance(n, ast.For) and any(isinstance(x, ast.Attribute) and x.attr == table for x in ast.walk(n.iter)):
                    loop, host = n, fn
                    break
            if loop is not None:
                break
    if loop is None:
        raise AnalysisError("anchor vanished: scan loop over %s in %s" % (table, L.job.qual))
    ev = SymEval(ctx.prog, host)
    # statements before the loop at function level (next_wakeup = now + 5.0)
    for st in L.job.node.body:
        if st is loop:
            break
        if isinstance(st, ast.Assign) and not (isinstance(st.value, ast.Call) and host is not L.job and
                                               any(isinstance(x, ast.Attribute) and isinstance(x.value, ast.Name) and x.value.id == "self" for x in ast.walk(st.value.func))):
            try:
                ev.step(st)
            except AnalysisError:
                pass
    if host is not L.job:
        for st in host.node.body:
            if st is loop:
                break
            if isinstance(st, ast.Assign):
                ev.step(st)
    it = ev.expr(loop.iter)
    ev.uid += 1
    ev._bind_target(loop.target, ("iter", it, ev.uid))
    rs = [r for r in runs_of(ctx.prog, host, unroll=unroll, body=loop.body, evalr=ev) if not contradictory(r) and r.term != "cut"]
    # (paths of `while True` loops that do not leave within the unrolling bound are cut: the scan rules are about what
    #  has happened when the iteration ends, which such a path prefix does not show)
    cache[key] = rs
    ctx.__dict__.setdefault("_scan_host", {})[(L.cls, table)] = host
    return rs


def _job_entry(run, i, L):
    """entry Sym of the send session handled at record i of a job run"""
    for g, p in lits(run.guards(i)):
        if p and g[0] == "cmp" and g[1] == "==":
            for x in (g[2], g[3]):
                if x[0] == "sub" and x[2] == ("c", "state"):
                    return x[1]
    return None


def _tx_entry(L):
    sess = (_fd_session_rx(),) if L.fd else ()
    key = ("call", ("attr", SELF, "_buffer_hash"), sess + (DEST, MID_SA), ())
    return ("sub", field("_snd_buffer"), key)


def dt_typestate(ctx, L, rule="R-DT-TYPESTATE"):
    """no DT before the first CTS, none after a hold: who stores the 'sending' state and where"""
    sending = L.const("state", "SENDING_RTS_CTS" if L.fd else "SENDING_IN_CTS")
    bamst = L.const("state", "SENDING_BAM" if L.fd else "SENDING_BM")
    waiting = L.const("state", "WAITING_CTS")
    cts = L.const("ctl", "CTS")
    P = ctx.prog
    # (1) DT sends in the job thread are under a sending state
    n = 0
    for r in runs(ctx, L.job):
        for i, e in L.calls(r, "__send_tp_dt"):
            n += 1
            ok = any(p and g[0] == "cmp" and g[1] == "==" and (("c", sending) in (g[2], g[3]) or ("c", bamst) in (g[2], g[3]))
                     for g, p in lits(r.guards(i)))
            if ok:
                ctx.holds(rule, "%s job DT sends are under state SENDING" % L.tag)
            else:
                ctx.violated(rule, L.job, "%s job DT send" % L.tag, "a data packet is sent outside the sending states", e.node)
    if n == 0:
        ctx.unknown(rule, "no DT send in %s" % L.job.qual)
    # (2) only the job thread sends DT
    from .common import owners
    for fn in P.all_funcs():
        if fn.cls is not None and fn.cls.name == L.cls and fn is not L.job:
            for s in ctx.cg.sites.get(fn.qual, []):
                if is_self_call(s.sym, "__send_tp_dt"):
                    # a helper reached only through the job scan is part of it (its body is inlined into the job paths of (1))
                    own = owners(ctx, fn)
                    if own and own <= {L.job.qual}:
                        continue
                    ctx.violated(rule, fn, "%s DT send outside the job scan" % L.tag, "data packet sent from %s" % fn.name, s.node)
    # (3) who stores the connection-mode sending state
    E = _tx_entry(L)
    m = 0
    for fn in (L.cm, L.dt, L.send_pgn, L.job, L.notify):
        for r in runs(ctx, fn):
            for i, e in r.effects():
                vals = []
                if e.kind == "store" and e.target[0] == "sub" and e.target[2] == ("c", "state"):
                    vals = [e.value]
                elif e.kind == "store" and e.value[0] == "dict" and root_field(e.target) == "_snd_buffer":
                    vals = [dict(e.value[1]).get(("c", "state"), ("c", None))]
                for v in vals:
                    if v != ("c", sending):
                        continue
                    m += 1
                    inst = "%s store of the connection-mode sending state" % L.tag
                    gl = lits(r.guards(i))
                    in_cts = fn is L.cm and any(p and g[0] == "cmp" and g[1] == "==" and ("c", cts) in (g[2], g[3]) for g, p in gl)
                    grantbyte = _d(7) if L.fd else _d(1)
                    nonzero = any((not p) and g == mk_cmp("==", grantbyte, ("c", 0)) for g, p in gl)
                    if not in_cts:
                        ctx.violated(rule, fn, inst, "state SENDING is entered outside the CTS handler (%s)" % fn.name, e.node)
                    elif not nonzero:
                        ctx.violated(rule, fn, inst, "state SENDING is entered although the CTS may grant zero packets (hold)", e.node)
                    elif e.target != sub(E, "state"):
                        ctx.violated(rule, fn, inst, "state stored into %s, not the session addressed by the CTS" % pretty(e.target), e.node)
                    else:
                        ctx.holds(rule, inst + " only in the CTS handler with a non-zero grant")
    if m == 0:
        ctx.violated(rule, L.cm, "%s CTS handler" % L.tag, "no path stores the sending state: a CTS never starts the data transfer", L.cm.node)
    # (4) creation states
    for r in runs(ctx, L.send_pgn):
        for i, e in r.effects():
            if e.kind == "store" and e.value[0] == "dict" and root_field(e.target) == "_snd_buffer":
                st = dict(e.value[1]).get(("c", "state"))
                bam = bool(L.calls(r, "__send_tp_bam"))
                want = bamst if bam else waiting
                inst = "%s new %s session state" % (L.tag, "BAM" if bam else "RTS/CTS")
                if st == ("c", want):
                    ctx.holds(rule, inst)
                else:
                    ctx.violated(rule, L.send_pgn, inst, "created in state %s, expected %d" % (pretty(st), want), e.node)


def hold(ctx, L, rule="R-HOLD"):
    """a zero-packet CTS only extends the wait"""
    cts = L.const("ctl", "CTS")
    E = _tx_entry(L)
    grantbyte = _d(7) if L.fd else _d(1)
    n = 0
    for r in runs(ctx, L.cm):
        gl = lits(r.guards())
        if not any(p and g[0] == "cmp" and g[1] == "==" and ("c", cts) in (g[2], g[3]) for g, p in gl):
            continue
        if not any(p and g == mk_cmp("==", grantbyte, ("c", 0)) for g, p in gl):
            continue
        n += 1
        inst = "%s hold (zero-packet CTS) path" % L.tag
        st = [e for _, e in r.effects() if e.kind in ("store", "aug", "del") and root_field(e.target) in ("_snd_buffer", "_rcv_buffer")]
        bad = [e for e in st if e.target != sub(E, "deadline")]
        sends = [e for _, e in r.effects() if L.is_send(L.cm, e)]
        if bad:
            ctx.violated(rule, L.cm, inst, "a hold modifies %s" % pretty(bad[0].target), bad[0].node)
        elif sends:
            ctx.violated(rule, L.cm, inst, "a hold sends a frame", sends[0].node)
        elif not st:
            ctx.violated(rule, L.cm, inst, "a hold does not extend the deadline", r.recs[-1].ev.node)
        else:
            v = st[0].value
            d = affine_diff(v, TIME)
            th = L.const("timeout", "Th")
            t4 = L.const("timeout", "T4")
            if d is None or d[0] or not (float(d[1]) in (th, t4)):
                ctx.violated(rule, L.cm, inst, "hold deadline is %s, expected now + Th/T4" % pretty(v), st[0].node)
            else:
                ctx.holds(rule, inst)
    if n == 0:
        ctx.violated(rule, L.cm, "%s hold path" % L.tag, "a CTS with zero packets is not treated as a hold", L.cm.node)


def window_affine(ctx, L, rule="R-WINDOW-AFFINE"):
    """packets sent per CTS = granted count: next_wait_on_cts = index + grant - 1, burst leaves at it"""
    cts = L.const("ctl", "CTS")
    E = _tx_entry(L)
    idx = sub(E, "next_packet_to_send")
    total = sub(E, L.npk)
    grantbyte = _d(7) if L.fd else _d(1)
    n = 0
    for r in runs(ctx, L.cm):
        for i, e in r.effects():
            if e.kind == "store" and e.target == sub(E, "next_wait_on_cts"):
                n += 1
                gl = r.guards(i)
                # current value of the index on this path (FD overwrites it from the CTS)
                cur_idx = r.evalr.heap.get(idx, idx)
                # value = cur_idx + g - 1
                g = None
                d = affine_diff(e.value, cur_idx)
                inst = "%s window end after CTS" % L.tag
                if d is None:
                    ctx.unknown(rule, "window end %s is not affine" % pretty(e.value))
                    continue
                # the granted term(s)
                allowed = [grantbyte, total, OWN_MAX]
                from sa.sym import mk_bin as _mb
                gs = mk_bin("+", mk_bin("-", e.value, cur_idx), ("c", 1))
                ok = False
                cands = [grantbyte, total, OWN_MAX, mk_bin("-", total, cur_idx)]
                if not L.fd:
                    cands.append(mk_bin("-", total, mk_bin("-", _d(2), ("c", 1))))
                for cnd in cands:
                    if affine_eq(gs, cnd):
                        ok = True
                        g = cnd
                if not ok:
                    # min-closure spelling: index + min(grant byte, clamps...) - 1
                    from .common import affine as _aff, min_leaves as _ml
                    af = _aff(gs)
                    if af is not None and af[1] == 0 and len(af[0]) == 1 and list(af[0].values()) == [1]:
                        leaves = _ml(list(af[0])[0])
                        clamped_path = any(p_ and g_[0] == "cmp" and g_[1] == "<" and affine_eq(g_[3], grantbyte) and any(affine_eq(g_[2], l) for l in leaves)
                                           for g_, p_ in lits(gl))
                        if len(leaves) > 1 and all(any(affine_eq(l, c) for c in cands) for l in leaves) and \
                                (any(affine_eq(l, grantbyte) for l in leaves) or clamped_path):
                            ok = True
                            # clamped to the total (or the remaining count) inside the closure?
                            g = total if any(affine_eq(l, total) or affine_eq(l, mk_bin("-", total, cur_idx)) for l in leaves) else grantbyte
                            if g == total:
                                ctx.holds(rule, inst, "index + min(%s) - 1" % ", ".join(pretty(l)[:30] for l in leaves))
                                continue
                if not ok:
                    ctx.violated(rule, L.cm, inst, "window end is index + (%s) - 1: the burst sends that many packets, which is not the "
                                 "CTS grant or one of its clamps" % pretty(gs), e.node)
                    continue
                # clamp soundness: the grant used is <= total on this path
                if g == grantbyte:
                    F = G.conj(gl)
                    okc, cex = G.implies(F, mk_not(mk_cmp("<", total, grantbyte)))
                    if not okc:
                        ctx.violated(rule, L.cm, inst + " clamp", "peer's grant is used without clamping it to the total packet count", e.node, witness=cex)
                        continue
                ctx.holds(rule, inst, "index + %s - 1" % pretty(g))
    if n == 0:
        ctx.violated(rule, L.cm, "%s CTS handler" % L.tag, "the CTS handler does not set the window end", L.cm.node)
    # burst loop: leaves when the pre-increment index equals the window end
    sending = L.const("state", "SENDING_RTS_CTS" if L.fd else "SENDING_IN_CTS")
    waiting = L.const("state", "WAITING_CTS")
    m = 0
    for r in scan_runs(ctx, L, unroll=2):
        sends = []
        for i, e in L.calls(r, "__send_tp_dt"):
            if any(p and g[0] == "cmp" and g[1] == "==" and ("c", sending) in (g[2], g[3]) for g, p in lits(r.guards(i))):
                sends.append((i, e))
        if not sends:
            continue
        Ej = _job_entry(r, sends[0][0], L)
        if Ej is None:
            continue
        wait = sub(Ej, "next_wait_on_cts")
        idx0 = sub(Ej, "next_packet_to_send")
        # guards of the form (idx0 + k == wait)
        hits = []
        for j, rec in enumerate(r.recs):
            if rec.cond is not None and rec.cond[0] == "cmp" and rec.cond[1] == "==" and wait in (rec.cond[2], rec.cond[3]):
                other = rec.cond[2] if rec.cond[3] == wait else rec.cond[3]
                dd = affine_diff(other, idx0)
                hits.append((j, rec.pol, dd))
        # every iteration that sends a data packet and stays in the sending state compares its index with the window end
        # (an iteration that cannot reach the comparison keeps sending past the grant)
        untested = None
        for (i, e) in sends:
            if sub(_job_entry(r, i, L) or Ej, "state") != sub(Ej, "state"):
                continue
            lo = max([k for k in range(i) if r.recs[k].ev.kind == "cond" and r.recs[k].ev.extra == "loop"] or [0])
            hi = min([k for k in range(i + 1, len(r.recs)) if r.recs[k].ev.kind == "cond" and r.recs[k].ev.extra == "loop"] or [len(r.recs)])
            tested = any(j_ in range(lo, hi) for j_, _, _ in hits)
            leaves = any(x.kind == "store" and x.target == sub(Ej, "state") and x.value != ("c", sending)
                         for k, x in r.effects() if lo <= k < hi)
            if not tested and not leaves:
                untested = e
                break
        if untested is not None:
            m += 1
            ctx.violated(rule, L.job, "%s burst loop leaves at the window end" % L.tag, "a data packet is sent in a loop iteration that keeps the session in the "
                         "sending state without comparing the packet index with the window end: segments beyond the CTS grant are sent", untested.node)
            continue
        if not hits:
            continue
        m += 1
        inst = "%s burst loop leaves at the window end" % L.tag
        for j, pol, dd in hits:
            # k-th test must compare the pre-increment index of the k-th packet
            k = sum(1 for (i, _) in sends if i < j) if L.fd else sum(1 for (i, _) in sends if i < j)
        # after a true test: no further DT send on the run and state back to WAITING_CTS
        ok = True
        for j, pol, dd in hits:
            if dd is None or dd[0]:
                ctx.violated(rule, L.job, inst, "window test compares %s with the window end" % "a non-index value", r.recs[j].ev.node)
                ok = False
                break
            # index of the packet this test belongs to = index of the loop iteration it is in
            tnode = r.recs[j].ev.node
            pk = sum(1 for rec in r.recs[:j] if (rec.ev.kind == "cond" and rec.ev.extra == "loop" and rec.pol) or
                     (rec.ev.kind == "for" and rec.ev.pol == "iter" and any(x is tnode for x in ast.walk(rec.ev.node)))) - 1
            if int(dd[1]) != pk:
                ctx.violated(rule, L.job, inst, "window test uses index %+d relative to the packet being sent (expected the pre-increment index)" % (int(dd[1]) - pk),
                             r.recs[j].ev.node)
                ok = False
                break
            if pol:
                later = [i for (i, _) in sends if i > j + (0 if L.fd else 6)]
                later = [i for (i, _) in sends if i > j and not _same_iter(r, j, i)]
                if later:
                    ctx.violated(rule, L.job, inst, "a further data packet is sent after the window end was reached", r.recs[later[0]].ev.node)
                    ok = False
                    break
                stw = [x for jj, x in r.effects() if jj > j and x.kind == "store" and x.target == sub(Ej, "state")]
                if not stw or stw[0].value != ("c", waiting):
                    ctx.violated(rule, L.job, inst, "state does not return to WAITING_CTS at the window end", r.recs[j].ev.node)
                    ok = False
                    break
        if ok:
            ctx.holds(rule, inst)
    if m == 0:
        ctx.violated(rule, L.job, "%s burst loop" % L.tag, "the burst loop never tests the window end: more packets than granted are sent", L.job.node)


def _same_iter(run, j, i):
    """records j and i are in the same iteration of the innermost while loop (no loop test in between)"""
    lo, hi = min(i, j), max(i, j)
    for k in range(lo + 1, hi + 1):
        ev = run.recs[k].ev
        if ev.kind == "cond" and ev.extra == "loop":
            return False
    return True


def bam_pace(ctx, L, rule="R-BAM-PACE"):
    """one BAM DT per expiry, re-armed with now + configured interval; CMDT pacing when configured"""
    from spec import sae
    bamst = L.const("state", "SENDING_BAM" if L.fd else "SENDING_BM")
    sending = L.const("state", "SENDING_RTS_CTS" if L.fd else "SENDING_IN_CTS")
    BAMI = field("_minimum_tp_bam_dt_interval")
    CMI = field("_minimum_tp_rts_cts_dt_interval")
    n = 0
    for r in scan_runs(ctx, L, unroll=2):
        sends = [(i, e) for i, e in L.calls(r, "__send_tp_dt")
                 if any(p and g[0] == "cmp" and g[1] == "==" and ("c", bamst) in (g[2], g[3]) for g, p in lits(r.guards(i)))]
        if not sends:
            continue
        # group by outer iteration (entry Sym)
        by = {}
        for i, e in sends:
            by.setdefault(_job_entry(r, i, L), []).append((i, e))
        for Ej, lst in by.items():
            n += 1
            inst = "%s BAM: one DT per expiry" % L.tag
            if len(lst) > 1:
                ctx.violated(rule, L.job, inst, "%d broadcast data packets are sent in one expiry of one session" % len(lst), lst[1][1].node)
                continue
            ctx.holds(rule, inst)
            i, e = lst[0]
            idx = sub(Ej, "next_packet_to_send")
            more = [(g, p) for g, p in r.guards() if contains(g, idx) and contains(g, sub(Ej, L.npk))]
            st = [x for _, x in r.effects() if x.kind == "store" and x.target == sub(Ej, "deadline")]
            dele = [x for _, x in r.effects() if x.kind == "del" and x.target == Ej]
            if st:
                d = affine_diff(st[0].value, TIME)
                inst2 = "%s BAM re-arm = now + configured interval" % L.tag
                if d is not None and d == ({BAMI: 1}, 0):
                    ctx.holds(rule, inst2)
                else:
                    ctx.violated(rule, L.job, inst2, "next broadcast packet is scheduled at %s" % pretty(st[0].value), st[0].node)
            elif not dele:
                ctx.violated(rule, L.job, "%s BAM re-arm" % L.tag, "after a broadcast packet the session is neither re-armed nor removed", e.node)
    if n == 0:
        ctx.unknown(rule, "BAM send branch not found in %s" % L.job.qual)
    # first packet armed the same way
    for r in runs(ctx, L.send_pgn):
        if not L.calls(r, "__send_tp_bam"):
            continue
        for i, e in r.effects():
            if e.kind == "store" and e.value[0] == "dict" and root_field(e.target) == "_snd_buffer":
                dl = dict(e.value[1]).get(("c", "deadline"))
                d = affine_diff(dl, TIME) if dl else None
                inst = "%s first BAM packet armed at now + configured interval" % L.tag
                if d is not None and d == ({BAMI: 1}, 0):
                    ctx.holds(rule, inst)
                else:
                    ctx.violated(rule, L.send_pgn, inst, "first broadcast packet is scheduled at %s" % pretty(dl), e.node)
    # default interval
    init = ctx.prog.func(L.cls, "__init__")
    want = sae.BAM_MIN_INTERVAL_22 if L.fd else sae.BAM_MIN_INTERVAL_21
    got = set()
    for r in runs(ctx, init):
        for i, e in r.effects():
            if e.kind == "store" and e.target == BAMI:
                isnone = any(p and g == mk_cmp("==", ("p", "minimum_tp_bam_dt_interval"), ("c", None)) for g, p in lits(r.guards(i)))
                nonec = mk_cmp("==", ("p", "minimum_tp_bam_dt_interval"), ("c", None))
                if e.value[0] == "ife" and e.value[1] in (nonec, mk_not(nonec)):
                    # chosen by a conditional expression: the two cases
                    a_, b_ = (e.value[2], e.value[3]) if e.value[1] == nonec else (e.value[3], e.value[2])
                    got.add((True, a_))
                    got.add((False, b_))
                    continue
                got.add((isnone, e.value))
    inst = "%s default BAM interval %.3f s, configured value otherwise" % (L.tag, want)
    if (True, ("c", want)) in got and (False, ("p", "minimum_tp_bam_dt_interval")) in got and len(got) == 2:
        ctx.holds(rule, inst)
    else:
        ctx.violated(rule, init, inst, "interval initialisation is %s" % sorted((a, pretty(b)) for a, b in got), init.node)
    # CMDT pacing
    m = 0
    for r in scan_runs(ctx, L, unroll=2):
        sends = [(i, e) for i, e in L.calls(r, "__send_tp_dt")
                 if any(p and g[0] == "cmp" and g[1] == "==" and ("c", sending) in (g[2], g[3]) for g, p in lits(r.guards(i)))]
        if not sends:
            continue
        js = [j for j, rec in enumerate(r.recs) if rec.cond is not None and (mk_cmp("==", CMI, ("c", None)), False) in lits([(rec.cond, rec.pol)])]
        if js:
            j = js[0]
            m += 1
            inst = "%s connection-mode pacing when an interval is configured" % L.tag
            Ej = _job_entry(r, sends[0][0], L)
            st = [x for jj, x in r.effects() if x.kind == "store" and x.target == sub(Ej, "deadline") and _same_iter(r, j, jj)]
            ds = [affine_diff(x.value, TIME) for x in st]
            later = [i for (i, _) in sends if i > j and not _same_iter(r, j, i)]
            if later:
                ctx.violated(rule, L.job, inst, "a second packet follows without waiting for the configured interval", r.recs[later[0]].ev.node)
            elif not any(d is not None and d == ({CMI: 1}, 0) for d in ds):
                ctx.violated(rule, L.job, inst, "paced packet re-armed at %s" % ([pretty(x.value) for x in st] or None), r.recs[j].ev.node)
            else:
                ctx.holds(rule, inst)
    if m == 0:
        ctx.violated(rule, L.job, "%s connection-mode pacing" % L.tag, "the configured minimum DT interval is not honoured by the burst loop", L.job.node)


def burst_bound(ctx, L, rule="R-BURST-BOUND"):
    """originator, job pass: a data packet is sent only while its index is below the packet count - the test that admits the next packet is
    strict.  With `<=` a CTS that arrives after the last packet (or the broadcast pacing after the last packet) sends one packet beyond the
    end of the message (J1939-22: IndexError in the job thread)."""
    from .common import lits
    res = {}
    for r in scan_runs(ctx, L, "_snd_buffer", unroll=1):
        if r.term in ("raise", "cut"):
            continue
        dts = L.calls(r, "__send_tp_dt")
        if not dts:
            continue
        gl = lits(r.guards(dts[0][0]))
        idx = lambda y: y[0] == "sub" and y[2] == ("c", "next_packet_to_send")
        tot = lambda y: y[0] == "sub" and y[2] == ("c", L.npk)
        strict = any(g[0] == "cmp" and g[1] == "<" and p is True and idx(g[2]) and tot(g[3]) for g, p in gl)
        loose = any(g[0] == "cmp" and g[1] == "<" and p is False and tot(g[2]) and idx(g[3]) for g, p in gl)
        if strict or loose:
            key = "%s job pass: a data packet is sent only while next_packet_to_send < %s" % (L.tag, L.npk)
            if strict and not loose:
                res.setdefault(key, None)
            else:
                res[key] = dts[0][1].node
    for key, bad in res.items():
        if bad is None:
            ctx.holds(rule, key)
        else:
            ctx.violated(rule, L.job, key, "the admitting test also lets index == count through: one packet beyond the end of the message is sent", bad)
    if not res:
        ctx.unknown(rule, "%s: admitting test of the burst loop not found" % L.job.qual)
