"""Rules that are not tied to one protocol element."""
import ast
from sa.sym import walk, pretty
from sa.model import AnalysisError
from .common import runs


def _locals(fn):
    names = set()
    for n in ast.walk(fn.node):
        if isinstance(n, ast.Name) and isinstance(n.ctx, (ast.Store, ast.Del)):
            names.add(n.id)
        elif isinstance(n, ast.ExceptHandler) and n.name:
            names.add(n.name)
    for n in ast.walk(fn.node):
        if isinstance(n, (ast.Global, ast.Nonlocal)):
            names -= set(n.names)
        if isinstance(n, (ast.FunctionDef, ast.Lambda)) and n is not fn.node:
            # names bound only inside nested functions are not locals of this one
            pass
    a = fn.node.args
    names -= {x.arg for x in a.posonlyargs + a.args + a.kwonlyargs}
    return names


def local_defined(ctx, funcs, rule="R-LOCAL-DEFINED", why=""):
    """no feasible path reads a local variable before it is assigned (the read raises UnboundLocalError - in a timer callback or in the job
    pass that ends the job thread).  The path enumeration evaluates an unassigned name as a global; a local of the function that shows up as
    a global in an effect or a condition of a feasible path is such a read."""
    import builtins
    for fn in funcs:
        names = _locals(fn)
        # names that are bound nowhere - not in the function, not at module level, not a builtin - are read as globals too (NameError)
        mod = ctx.prog.modules.get(fn.mod)
        known = set(dir(builtins))
        if mod is not None:
            for n in ast.walk(mod):
                if isinstance(n, (ast.FunctionDef, ast.ClassDef)):
                    known.add(n.name)
                elif isinstance(n, (ast.Import, ast.ImportFrom)):
                    known |= {(a.asname or a.name).split(".")[0] for a in n.names}
                elif isinstance(n, ast.Name) and isinstance(n.ctx, ast.Store):
                    known.add(n.id)
                elif isinstance(n, ast.arg):
                    known.add(n.arg)
        unbound = {n.id for n in ast.walk(fn.node) if isinstance(n, ast.Name) and isinstance(n.ctx, ast.Load)} - known
        names = names | unbound
        inst = "%s: every local is assigned before it is read on every path" % fn.qual.split(":")[-1]
        if not names:
            ctx.holds(rule, inst)
            continue
        try:
            tries = [n for n in ast.walk(fn.node) if isinstance(n, ast.Try)]
            if tries:
                # statements in a try body may raise at any call: the handlers are entered with whatever was assigned until then
                from sa.paths import runs_of
                from .common import contradictory
                inside = {id(x) for t in tries for b in t.body for x in ast.walk(b)}

                def may_raise(node, inside=inside):
                    if id(node) in inside and any(isinstance(x, ast.Call) for x in ast.walk(node)):
                        return {"*"}
                    return set()
                rs = [r for r in runs_of(ctx.prog, fn, unroll=1, may_raise=may_raise) if not contradictory(r)]
            else:
                rs = runs(ctx, fn)
        except AnalysisError as ex:
            ctx.unknown(rule, "%s: %s" % (inst, ex))
            continue
        bad = None
        for r in rs:
            for rec in r.recs:
                syms = ([rec.cond] if rec.cond is not None else []) + [x for e in rec.effects for x in (e.target, e.value) if isinstance(x, tuple)]
                for s in syms:
                    for x in walk(s):
                        if isinstance(x, tuple) and len(x) == 2 and x[0] == "glob" and x[1] in names and bad is None:
                            bad = (x[1], rec)
                if bad:
                    break
            if bad:
                break
        if bad is None:
            ctx.holds(rule, inst)
        else:
            name, rec = bad
            ctx.violated(rule, fn, inst, "`%s` is read at line %s on a path that has not assigned it: UnboundLocalError / NameError%s" % (
                name, getattr(rec.ev.node, "lineno", "?"), why), rec.ev.node)
