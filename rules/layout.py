"""Byte/bit layout rules (C03, C11, C14, C15, C16, C17): builders and parsers vs the SAE tables in spec/sae.py."""
from sa.sym import SELF, is_const, cval, pretty, walk, contains, root_field, mk_cmp, mk_not, mk_bin
from sa.model import AnalysisError
from sa import guards as G
from sa.bits import BV, BitEval, T
from sa.objeval import construct, call_runs, Obj
from .common import mname, is_self_call, lensym, sub, field, bind_args, runs, lits, loc

VALUE_CLASSES = ("MessageId", "ParameterGroupNumber", "Name", "DTC")


def resolve_objects(prog, s):
    """replace <ValueClass>(...).prop by the abstractly evaluated property"""
    def fn(x):
        if x[0] == "attr" and x[1][0] == "call" and x[1][1][0] == "clsref" and x[1][1][1] in VALUE_CLASSES:
            o = construct(prog, x[1][1][1], x[1][2], x[1][3])
            return o.get(x[2])
        return None
    return G.subst(s, fn)


def param_leaf(widths=None):
    widths = widths or {}
    def leaf(s):
        if s[0] == "p":
            return BV.input(s[1], widths.get(s[1]))
        return None
    return leaf


def check_bits(bv, spec, fmap, nbits=8, consts=None):
    """compare a BV with a spec entry list; returns list of problems"""
    want = [0] * nbits
    for ent in spec:
        if ent[0] == "const":
            for i in range(nbits):
                want[i] = (ent[1] >> i) & 1
        elif ent[0] == "constbits":
            _, lo, n, v = ent
            for i in range(n):
                want[lo + i] = (v >> i) & 1
        else:
            lo, n, src, slo = ent
            m = fmap.get(src, src)
            for i in range(n):
                if isinstance(m, int):
                    want[lo + i] = (m >> (slo + i)) & 1
                elif isinstance(m, BV):
                    want[lo + i] = m.bit(slo + i)
                else:
                    want[lo + i] = ("b", m, slo + i)
    probs = []
    got = bv.window(0, nbits)
    if bv.width() is None or bv.width() > nbits:
        probs.append("value is not confined to %d bits (%s)" % (nbits, bv.describe()))
    vague = []
    for i in range(nbits):
        if got[i] != want[i]:
            if got[i] == T:
                vague.append(i)
                continue
            probs.append("bit %d is %s, specification says %s" % (i, _b(got[i]), _b(want[i])))
            if len(probs) > 3:
                break
    if vague and not probs:
        # only bits the domain could not interpret differ: undecided, not a finding (Ctx.violated routes the marker to UNKNOWN)
        return ["NOT-INTERPRETABLE bits %s (%s)" % (vague[:6], bv.describe())]
    return probs


def _b(b):
    if isinstance(b, tuple):
        return "%s[%d]" % (b[1], b[2])
    return str(b)


def send_call(ctx, L, run, func):
    """the single __send_message call on a builder run: (id sym, ext sym, data sym, kwargs dict)"""
    for i, e in run.effects():
        if e.kind == "call" and is_self_call(e.value, "__send_message"):
            a = e.value[2]
            return (a[0] if a else None, a[1] if len(a) > 1 else None, a[2] if len(a) > 2 else None, dict(e.value[3]), e)
    return None


def check_id(ctx, rule, f, inst, idsym, spec_id, fmap, node):
    """identifier = prio<<26 | (PF<<8 | PS)<<8 | SA"""
    prio, pf, ps, sa = spec_id
    try:
        s = resolve_objects(ctx.prog, idsym)
    except AnalysisError as e:
        ctx.unknown(rule, "%s: identifier not interpretable (%s)" % (inst, e))
        return
    bv = BitEval(param_leaf()).ev(s)
    want = {}
    def put(lo, n, v):
        for i in range(n):
            if isinstance(v, int):
                want[lo + i] = (v >> i) & 1
            else:
                want[lo + i] = ("b", fmap.get(v, v), i)
    put(26, 3, prio)
    put(24, 2, 0)
    put(16, 8, pf)
    put(8, 8, ps)
    put(0, 8, sa)
    probs = []
    if bv.width() is None or bv.width() > 29:
        probs.append("identifier wider than 29 bits")
    for i in range(29):
        if bv.bit(i) != want[i]:
            probs.append("id bit %d is %s, specification says %s" % (i, _b(bv.bit(i)), _b(want[i])))
            if len(probs) > 3:
                break
    if probs:
        ctx.violated(rule, f, inst + " identifier", "; ".join(probs), node, witness=bv.describe())
    else:
        ctx.holds(rule, inst + " identifier", bv.describe())


# parameter names of the builders' logical fields
MAP21 = {
    "__send_tp_rts": ("RTS", {"size": "message_size", "packets": "num_packets", "window": "max_cmdt_packets", "pgn": "pgn_value",
                              "prio": "priority", "dest": "dest_address", "src": "src_address"}),
    "__send_tp_cts": ("CTS", {"grant": "num_packets", "next": "next_packet", "pgn": "pgn_value", "dest": "dest_address", "src": "src_address"}),
    "__send_tp_eom_ack": ("EOM_ACK", {"size": "message_size", "packets": "num_packets", "pgn": "pgn_value", "dest": "dest_address", "src": "src_address"}),
    "__send_tp_bam": ("BAM", {"size": "message_size", "packets": "num_packets", "pgn": "pgn_value", "prio": "priority", "src": "src_address"}),
    "__send_tp_abort": ("ABORT", {"reason": "reason", "pgn": "pgn_value", "dest": "dest_address", "src": "src_address"}),
}
MAP22 = {
    "__send_tp_rts": ("RTS", {"session": "session_num", "size": "message_size", "segments": "num_segments", "window": "max_cmdt_packets",
                              "pgn": "pgn_value", "prio": "priority", "dest": "dest_address", "src": "src_address"}),
    "__send_tp_cts": ("CTS", {"session": "session_num", "grant": "num_segments_that_can_be_sent", "next": "next_packet", "pgn": "pgn_value",
                              "dest": "dest_address", "src": "src_address"}),
    "__send_tp_eom_status": ("EOM_STATUS", {"session": "session_num", "size": "message_size", "segments": "num_segments", "pgn": "pgn_value",
                                            "dest": "dest_address", "src": "src_address"}),
    "__send_tp_eom_ack": ("EOM_ACK", {"session": "session_num", "size": "message_size", "segments": "num_segments", "pgn": "pgn_value",
                                      "dest": "dest_address", "src": "src_address"}),
    "__send_tp_bam": ("BAM", {"session": "session_num", "size": "message_size", "segments": "num_segments", "pgn": "pgn_value",
                              "prio": "priority", "src": "src_address"}),
    "__send_tp_abort": ("ABORT", {"session": "session_num", "reason": "reason", "pgn": "pgn_value", "dest": "dest_address", "src": "src_address"}),
}


def builders(ctx, L, rule="R-LAYOUT"):
    from spec import sae
    P = ctx.prog
    table, idt, maps = (sae.TP22, sae.TP22_ID, MAP22) if L.fd else (sae.TP21, sae.TP21_ID, MAP21)
    for bname, (kind, fmap) in maps.items():
        b = L.builder(bname)
        inst = "%s %s builder" % (L.tag, kind)
        missing = [v for v in fmap.values() if v not in b.params]
        if missing:
            ctx.unknown(rule, "%s: parameters %s vanished from %s" % (inst, missing, b.qual))
            continue
        # parameters with defaults that no caller passes are bound to their defaults
        from sa.objeval import bind
        args = [("p", p) if (p in fmap.values() or p not in b.defaults) else None for p in b.params]
        kwargs = [(p, a) for p, a in zip(b.params, args) if a is not None]
        try:
            rs = call_runs(P, b, [], kwargs)
        except AnalysisError as e:
            ctx.unknown(rule, "%s: %s" % (inst, e))
            continue
        if len(rs) != 1:
            ctx.unknown(rule, "%s: builder has %d paths" % (inst, len(rs)))
            continue
        r = rs[0]
        sc = send_call(ctx, L, r, b)
        if sc is None and L.fd:
            # FD builders delegate to __send_tp_cm: inline it
            cm = L.builder("__send_tp_cm")
            calls = [(i, e) for i, e in r.effects() if e.kind == "call" and is_self_call(e.value, "__send_tp_cm")]
            if len(calls) != 1:
                ctx.unknown(rule, "%s: no send call found" % inst)
                continue
            try:
                rs2 = call_runs(P, cm, list(calls[0][1].value[2]), calls[0][1].value[3])
            except AnalysisError as e:
                ctx.unknown(rule, "%s: %s" % (inst, e))
                continue
            if len(rs2) != 1:
                ctx.unknown(rule, "%s: __send_tp_cm has %d paths" % (inst, len(rs2)))
                continue
            sc = send_call(ctx, L, rs2[0], cm)
        if sc is None:
            ctx.unknown(rule, "%s: no send call found" % inst)
            continue
        idsym, ext, data, kw, eff = sc
        if ext != ("c", True):
            ctx.violated(rule, b, inst + " frame format", "extended_id argument is %s, expected True (29-bit identifier)" % pretty(ext), eff.node)
        if L.fd and kw.get("fd_format") != ("c", True):
            ctx.violated(rule, b, inst + " frame format", "fd_format is %s, expected True" % pretty(kw.get("fd_format")), eff.node)
        if not L.fd and kw.get("fd_format", ("c", False)) != ("c", False):
            ctx.violated(rule, b, inst + " frame format", "classic frame sent with fd_format", eff.node)
        check_id(ctx, rule, b, inst, idsym, idt[kind], fmap, eff.node)
        if data is None or data[0] != "list":
            ctx.unknown(rule, "%s: payload %s is not a fixed list" % (inst, pretty(data)[:80] if data else None))
            continue
        spec = table[kind]
        if len(data[1]) != len(spec):
            ctx.violated(rule, b, inst + " length", "frame has %d bytes, specification says %d" % (len(data[1]), len(spec)), eff.node)
            continue
        # logical fields that the specification confines to one whole byte are 0..255 by contract
        occ = {}
        for sp in spec:
            for ent in sp:
                if isinstance(ent[0], int):
                    occ.setdefault(ent[2], []).append(ent)
        bytew = {fmap.get(k, k): 8 for k, v in occ.items() if len(v) == 1 and v[0][1] == 8 and v[0][3] == 0 and v[0][0] == 0}
        if bytew:
            ctx.assume("single-byte frame fields (packet counts, window, next packet, abort reason) are passed as 0..255")
        be = BitEval(param_leaf(bytew))
        allp = []
        for i, (bs, sp) in enumerate(zip(data[1], spec)):
            bv = be.ev(bs)
            if bv.has_top():
                ctx.unknown(rule, "%s byte %d not interpretable: %s" % (inst, i, pretty(bs)[:80]))
                allp = None
                break
            pr = check_bits(bv, sp, fmap)
            allp.extend("byte %d: %s" % (i, x) for x in pr)
        if allp is None:
            continue
        if allp:
            ctx.violated(rule, b, inst + " payload", "; ".join(allp[:4]), eff.node)
        else:
            ctx.holds(rule, inst + " payload (%d bytes)" % len(spec))
    # DT builder identifier and (FD) header
    b = L.builder("__send_tp_dt")
    kwargs = [(p, ("p", p)) for p in b.params if p not in b.defaults or p in ("src_address", "dest_address", "data", "session_num", "segment_num")]
    rs = call_runs(P, b, [], kwargs)
    for r in rs:
        sc = send_call(ctx, L, r, b)
        if sc is None:
            continue
        idsym, ext, data, kw, eff = sc
        inst = "%s DT builder" % L.tag
        check_id(ctx, rule, b, inst, idsym, idt["DT"], {"dest": "dest_address", "src": "src_address"}, eff.node)
        if L.fd:
            if kw.get("fd_format") != ("c", True):
                ctx.violated(rule, b, inst + " frame format", "fd_format is %s" % pretty(kw.get("fd_format")), eff.node)
            d = data
            while d[0] in ("pad", "sub"):
                d = d[1]
            head = d[1][0] if d[0] == "cat" else d
            if head[0] != "list" or len(head[1]) < 4:
                ctx.unknown(rule, "%s: header not recognised in %s" % (inst, pretty(data)[:80]))
                continue
            spec = [[("constbits", 0, 4, 0), (4, 4, "session_num", 0)], [(0, 8, "segment_num", 0)], [(0, 8, "segment_num", 8)],
                    [(0, 8, "segment_num", 16)]]
            be = BitEval(param_leaf())
            pr = []
            for i in range(4):
                pr.extend("byte %d: %s" % (i, x) for x in check_bits(be.ev(head[1][i]), spec[i], {}))
            rest = d[1][1:] if d[0] == "cat" else ()
            if len(head[1]) != 4 or rest != (("p", "data"),):
                pr.append("header is not exactly 4 bytes in front of the segment data")
            if pr:
                ctx.violated(rule, b, inst + " header", "; ".join(pr[:4]), eff.node)
            else:
                ctx.holds(rule, inst + " header: session nibble, 24-bit little-endian segment number, then data")
        else:
            if data != ("p", "data"):
                ctx.violated(rule, b, inst + " payload", "DT payload is %s, expected the 8 bytes handed in" % pretty(data)[:60], eff.node)
            else:
                ctx.holds(rule, inst + " payload passed through")


def _byte_leaf(s):
    if s[0] == "sub" and s[1] == ("p", "data") and is_const(s[2]) and isinstance(s[2][1], int):
        return BV.input("d%d" % s[2][1], 8)
    return None


def le_spec(first, n):
    out = []
    for i in range(n):
        out.extend(("b", "d%d" % (first + i), k) for k in range(8))
    return out


def parsers(ctx, L, rule="R-LAYOUT"):
    """fields the handlers extract have provenance = the bytes the specification names, little-endian"""
    be = BitEval(_byte_leaf)
    fd = L.fd
    want = {}
    if fd:
        want = {"pgn": le_spec(9, 3), "message_size": le_spec(1, 3), "num_segments": le_spec(4, 3),
                "session": [("b", "d0", 4 + k) for k in range(4)]}
        win, total = ("sub", ("p", "data"), ("c", 7)), None
    else:
        want = {"pgn": le_spec(5, 3), "message_size": le_spec(1, 2), "num_packages": le_spec(3, 1)}
        win = ("sub", ("p", "data"), ("c", 4))
    seen = set()
    for kind in ("RTS", "BAM"):
        cv = L.const("ctl", kind)
        for r in runs(ctx, L.cm):
            if not any(p and g[0] == "cmp" and g[1] == "==" and ("c", cv) in (g[2], g[3]) for g, p in lits(r.guards())):
                continue
            for i, e in r.effects():
                if e.kind == "store" and e.value[0] == "dict" and root_field(e.target) == "_rcv_buffer":
                    d = dict(e.value[1])
                    for fname, spec in want.items():
                        inst = "%s %s parser field %s" % (L.tag, kind, fname)
                        if inst in seen:
                            continue
                        seen.add(inst)
                        v = d.get(("c", fname))
                        if v is None:
                            ctx.unknown(rule, "%s missing" % inst)
                            continue
                        bv = be.ev(v)
                        got = bv.window(0, len(spec))
                        if bv.has_top():
                            ctx.unknown(rule, "%s not interpretable: %s" % (inst, pretty(v)[:80]))
                        elif got != spec or (bv.width() or 999) > len(spec):
                            ctx.violated(rule, L.cm, inst, "decoded from %s, specification says %s" % (bv.describe(), _runs(spec)), e.node)
                        else:
                            ctx.holds(rule, inst, bv.describe())
                    # control byte / hash key session
                    ctl = [x for g, p in lits(r.guards(i)) if p and g[0] == "cmp" and g[1] == "==" and ("c", cv) in (g[2], g[3]) for x in (g[2], g[3]) if not is_const(x)]
                    if ctl:
                        bv = be.ev(ctl[0])
                        spec = [("b", "d0", k) for k in range(4)] if fd else [("b", "d0", k) for k in range(8)]
                        inst = "%s %s control byte" % (L.tag, kind)
                        if inst not in seen:
                            seen.add(inst)
                            if bv.window(0, len(spec)) != spec or (bv.width() or 999) > len(spec):
                                ctx.violated(rule, L.cm, inst, "control type decoded from %s" % bv.describe(), e.node)
                            else:
                                ctx.holds(rule, inst)
    # CTS grant / next, DT sequence number
    cts = L.const("ctl", "CTS")
    grant = ("sub", ("p", "data"), ("c", 7 if fd else 1))
    for r in runs(ctx, L.cm):
        if any(g == mk_cmp("==", grant, ("c", 0)) for g, p in lits(r.guards())) and any(
                p and g[0] == "cmp" and g[1] == "==" and ("c", cts) in (g[2], g[3]) for g, p in lits(r.guards())):
            ctx.holds(rule, "%s CTS parser: granted count is byte %d" % (L.tag, 8 if fd else 2))
            break
    else:
        ctx.violated(rule, L.cm, "%s CTS parser grant byte" % L.tag, "the CTS handler does not read the granted count from byte %d" % (8 if fd else 2), L.cm.node)
    if fd:
        # next segment from CTS: bytes 4..6
        for r in runs(ctx, L.cm):
            for i, e in r.effects():
                if e.kind == "store" and e.target[0] == "sub" and e.target[2] == ("c", "next_packet_to_send") and root_field(e.target) == "_snd_buffer":
                    bv = be.ev(mk_bin("+", e.value, ("c", 1)))
                    inst = "22 CTS parser: next segment is bytes 5..7 little-endian"
                    d = None
                    from .common import affine_diff
                    # value must be <24-bit LE of bytes 4..6> - 1
                    # (the three masked bytes may be combined with | or with + : disjoint bit fields)
                    ok = False
                    if e.value[0] == "bin" and e.value[1] in ("-", "+"):
                        for x, k_ in ((e.value[2], e.value[3]), (e.value[3], e.value[2])):
                            if (e.value[1] == "-" and x is e.value[2] and k_ == ("c", 1)) or (e.value[1] == "+" and k_ == ("c", -1)):
                                bvx = be.ev(x)
                                if not bvx.has_top() and bvx.window(0, 24) == le_spec(4, 3) and bvx.width() is not None and bvx.width() <= 24:
                                    ok = True
                    base = [x for x in walk(e.value) if x[0] == "bin" and x[1] == "|"]
                    for x in base:
                        if be.ev(x).window(0, 24) == le_spec(4, 3) and affine_diff(e.value, x) == ({}, -1):
                            ok = True
                    if ok:
                        ctx.holds(rule, inst)
                    else:
                        ctx.violated(rule, L.cm, inst, "originator resumes at %s" % pretty(e.value)[:80], e.node)
        # DT: segment number bytes 1..3, session nibble
        from .session import _fd_session_rx
        for r in runs(ctx, L.dt):
            for g, p in lits(r.guards()):
                if g[0] == "cmp" and g[1] == "==" and any(x[0] == "sub" and x[2] == ("c", "next_packet") for x in (g[2], g[3])):
                    seg = g[2] if g[3][0] == "sub" and g[3][2] == ("c", "next_packet") else g[3]
                    bv = be.ev(seg)
                    inst = "22 DT parser: segment number is bytes 2..4 little-endian"
                    if bv.window(0, 24) == le_spec(1, 3) and bv.width() is not None and bv.width() <= 24:
                        ctx.holds(rule, inst)
                    else:
                        ctx.violated(rule, L.dt, inst, "segment number decoded from %s" % bv.describe(), L.dt.node)
    else:
        # DT sequence = data[0]: used in the border trigger (checked by R-CTS-BORDER); payload data[1:] (R-DELIVER-GUARD)
        ctx.holds(rule, "21 DT parser: sequence byte 1, payload bytes 2..8 (decided by R-CTS-BORDER / R-DELIVER-GUARD)")


def _runs(spec):
    return BV(list(spec), 0).describe()


def lut_legal(ctx, L, rule="R-PAD"):
    """LUT[L] = smallest legal CAN-FD length >= L, for every L in 0..64"""
    from spec import sae
    from .robust import lut_table
    lut = lut_table(ctx, L)
    init = ctx.prog.func(L.cls, "__init__")
    inst = "22 DLC look-up table"
    if lut is None:
        ctx.unknown(rule, "DLC look-up table construction not recognised in %s" % init.qual)
        return
    bad = []
    if len(lut) != 65:
        bad.append("table has %d entries, expected 65 (lengths 0..64)" % len(lut))
    for n, v in enumerate(lut[:65]):
        want = min(x for x in sae.CAN_FD_LENGTHS if x >= n)
        if v != want:
            bad.append("LUT[%d] = %d, smallest legal FD length >= %d is %d" % (n, v, n, want))
    if bad:
        ctx.violated(rule, init, inst, "; ".join(bad[:4]), init.node)
    else:
        ctx.holds(rule, inst + ": LUT[L] = smallest legal CAN-FD length >= L for L = 0..64")


def single_frame(ctx, L, rule="R-SINGLE-FRAME"):
    """J1939-21 single frame: identifier = priority | DP | PF | PS | SA of the arguments, payload passed through"""
    f = L.send_pgn
    n = 0
    for r in runs(ctx, f):
        for i, e in r.effects():
            if e.kind == "call" and is_self_call(e.value, "__send_message") and L.sinks.direct(f, e.value, L.sinks.send_q):
                n += 1
                a = e.value[2]
                inst = "%s single frame" % L.tag
                try:
                    bv = BitEval(param_leaf()).ev(resolve_objects(ctx.prog, a[0]))
                except AnalysisError as ex:
                    ctx.unknown(rule, "%s identifier: %s" % (inst, ex))
                    continue
                want = {}
                for lo, nb, src in ((26, 3, "priority"), (16, 8, "pdu_format"), (8, 8, "pdu_specific"), (0, 8, "src_address")):
                    for k in range(nb):
                        want[lo + k] = ("b", src, k)
                want[24] = ("b", "data_page", 0)
                want[25] = 0
                bad = [k for k in range(29) if bv.bit(k) != want[k]]
                if bad or bv.width() is None or bv.width() > 29:
                    ctx.violated(rule, f, inst + " identifier", "identifier is %s (bit %s differs from priority|DP|PF|PS|SA)" % (bv.describe(), bad[:3]), e.node)
                elif a[1] != ("c", True) or a[2] != ("p", "data"):
                    ctx.violated(rule, f, inst + " payload", "frame sent as extended=%s with payload %s" % (pretty(a[1]), pretty(a[2])[:40]), e.node)
                else:
                    ctx.holds(rule, inst + ": identifier composed of the arguments, payload passed through")
    if n == 0 and not L.fd:
        ctx.unknown(rule, "single-frame send not found in %s" % f.qual)


def deliver_args(ctx, L, rule="R-DELIVER-ARGS"):
    """single-frame delivery in notify: (priority, pgn, sa, dest, timestamp, data) come from the frame"""
    P = ctx.prog
    f = L.notify
    MID = ("call", ("clsref", "MessageId"), (), (("can_id", ("p", "can_id")),))
    PG = ("call", ("clsref", "ParameterGroupNumber"), (), ())
    n = 0
    for r in runs(ctx, f):
        filled = any(e.kind == "call" and e.value[1] == ("attr", PG, "from_message_id") and e.value[2] == (MID,) for _, e in r.effects()) or \
            getattr(r, "pgn_from_mid", False)     # (constructed directly from the identifier's fields: rules.common._canon_pgn)
        for i, e in r.effects():
            if e.kind == "call" and is_self_call(e.value, "__notify_subscribers"):
                n += 1
                a = bind_args(e.value, P.func("ElectronicControlUnit", "_notify_subscribers"))
                F = G.conj([(g, p) for g, p in r.guards(i)])
                pdu2 = G.implies(F, ("attr", PG, "is_pdu2_format"))[0] or G.implies(F, mk_not(("attr", PG, "is_pdu1_format")))[0]
                inst = "%s notify delivers a %s single frame with the frame's own fields" % (L.tag, "PDU2" if pdu2 else "PDU1")
                want_pgn = ("attr", PG, "value") if pdu2 else mk_bin("&", ("attr", PG, "value"), ("c", 0x1FF00))
                want_dest = ("c", 255) if pdu2 else ("attr", PG, "pdu_specific")
                probs = []
                if not filled:
                    probs.append("the PGN object is not filled from the received identifier")
                if a.get("priority") != ("attr", MID, "priority"):
                    probs.append("priority %s" % pretty(a.get("priority")))
                if a.get("pgn") != want_pgn:
                    probs.append("pgn %s" % pretty(a.get("pgn")))
                if a.get("sa") != ("attr", MID, "source_address"):
                    probs.append("source %s" % pretty(a.get("sa")))
                if a.get("dest") != want_dest:
                    probs.append("destination %s" % pretty(a.get("dest")))
                if a.get("timestamp") != ("p", "timestamp") or a.get("data") != ("p", "data"):
                    probs.append("timestamp/data %s / %s" % (pretty(a.get("timestamp")), pretty(a.get("data"))))
                if probs:
                    ctx.violated(rule, f, inst, "; ".join(probs), e.node)
                else:
                    ctx.holds(rule, inst)
    if n < 2:
        ctx.unknown(rule, "single-frame deliveries not found in %s (%d)" % (f.qual, n))


def announced_pgn(ctx, L, rule="R-ANNOUNCED-PGN"):
    """the PGN announced in RTS / BAM and stored in the send session is data page | PDU format | (PS for a broadcast of a
    PDU2 group, 0 for a destination-specific transfer) of send_pgn's arguments"""
    from sa.objeval import construct
    f = L.send_pgn
    seen = {}
    for r in runs(ctx, f):
        sites = []
        for name in ("__send_tp_rts", "__send_tp_bam"):
            for i, e in L.calls(r, name):
                a = bind_args(e.value, L.builder(name))
                sites.append((i, e, "%s announces" % name, a.get("pgn_value")))
        for i, e in r.effects():
            if e.kind == "store" and e.value[0] == "dict" and root_field(e.target) == "_snd_buffer":
                d = dict(e.value[1])
                if ("c", "pgn") in d:
                    bam = bool(L.calls(r, "__send_tp_bam"))
                    sites.append((i, e, "%s session stores" % ("BAM" if bam else "RTS/CTS"), d[("c", "pgn")]))
        for i, e, what, v in sites:
            bam = "bam" in what.lower()
            inst = "%s %s the group's own PGN" % (L.tag, what)
            if v is None:
                seen.setdefault(inst, []).append(("unknown", "PGN argument not bound", e.node))
                continue
            try:
                bv = _pgn_bits(ctx.prog, v, r, i)
            except AnalysisError as ex:
                seen.setdefault(inst, []).append(("unknown", str(ex), e.node))
                continue
            if bv is None:
                seen.setdefault(inst, []).append(("unknown", "announced PGN %s is not a property of a ParameterGroupNumber built here" % pretty(v)[:80], e.node))
                continue
            want = {}
            for k in range(8):
                want[8 + k] = ("b", "pdu_format", k)
                want[k] = ("b", "pdu_specific", k) if bam else 0
            want[16] = ("b", "data_page", 0)
            # (for a broadcast the PS byte may also be cleared: for a PDU1 group it is the global address, not part of the PGN)
            bad = [k for k in range(17) if bv.bit(k) != want[k] and not (bam and k < 8 and bv.bit(k) == 0)]
            if bad:
                seen.setdefault(inst, []).append(("bad", "PGN is %s: bit %d is not taken from %s" % (
                    bv.describe(), bad[0], "data_page" if bad[0] == 16 else "pdu_format" if bad[0] >= 8 else ("pdu_specific" if bam else "0 (destination-specific)")), e.node))
            else:
                seen.setdefault(inst, []).append(("ok", "", e.node))
    for inst, res in sorted(seen.items()):
        bad = [x for x in res if x[0] == "bad"]
        unk = [x for x in res if x[0] == "unknown"]
        if bad:
            ctx.violated(rule, f, inst, bad[0][1] + ": the receiver reassembles the payload but reports it under a different parameter group", bad[0][2])
        elif unk:
            ctx.unknown(rule, "%s: %s" % (inst, unk[0][1]))
        else:
            ctx.holds(rule, inst)
    if not seen:
        ctx.unknown(rule, "no RTS/BAM announcement found in %s" % f.qual)


def _pgn_bits(prog, v, r, i):
    """bits of <ParameterGroupNumber(...)>.value with the attribute stores made on the object before effect i applied"""
    from sa.objeval import construct
    if not (v[0] == "attr" and v[1][0] == "call" and v[1][1] == ("clsref", "ParameterGroupNumber")):
        # a plain expression over the arguments (possibly mentioning value objects that are not modified afterwards)
        try:
            return BitEval(param_leaf({"data_page": 1, "pdu_format": 8, "pdu_specific": 8})).ev(resolve_objects(prog, v))
        except AnalysisError:
            return None
    objsym = v[1]
    o = construct(prog, "ParameterGroupNumber", objsym[2], objsym[3])
    for j, e in r.effects():
        if j >= i:
            break
        if e.kind == "store" and e.target[0] == "attr" and e.target[1] == objsym:
            o.set(e.target[2], e.value)
        elif e.kind == "aug" and e.target[0] == "attr" and e.target[1] == objsym:
            raise AnalysisError("augmented store to a field of the PGN object")
    return BitEval(param_leaf({"data_page": 1, "pdu_format": 8, "pdu_specific": 8})).ev(o.get(v[2]))
