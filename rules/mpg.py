"""J1939-22 multi-PG packing rules (C11)."""
import ast
from sa.sym import SELF, is_const, cval, pretty, walk, contains, root_field, mk_cmp, mk_not, mk_bool, mk_bin
from sa.model import AnalysisError
from sa import guards as G
from sa.bits import BV, BitEval
from sa.paths import runs_of
from .common import mname, is_self_call, lensym, sub, field, affine, affine_diff, bind_args, runs, lits, loc, contradictory
from .flow import TIME, scan_runs
from .timing import _reached
from .layout import check_bits, resolve_objects, param_leaf, check_id

LEN = lensym(("p", "data"))
TABLE = "_multi_pg_snd_buffer"


def _mpg_entry(run):
    for _, e in run.effects():
        if e.kind in ("store", "aug") and root_field(e.target) == TABLE:
            cur = e.target
            while cur[0] == "sub" and cur[1] != field(TABLE):
                cur = cur[1]
            return cur
    return None


def builder_parts(ctx, L):
    """(header byte Syms of one group, the parts that follow, send Eff, run) from the FEFF path of __send_multi_pg with one group"""
    b = L.builder("__send_multi_pg")
    for r in runs(ctx, b, unroll=1):
        its = [rec for rec in r.recs if rec.ev.kind == "for" and rec.ev.pol == "iter" and rec.effects is not None]
        grp = [rec for rec in its if ast.unparse(rec.ev.node.iter) in ("cpg_list",) or "cpg" in ast.unparse(rec.ev.node.target)]
        if len(grp) != 1:
            continue
        sends = [e for _, e in r.effects() if e.kind == "call" and is_self_call(e.value, "__send_message") and e.value[2][1] == ("c", True)]
        if not sends:
            continue
        d = sends[0].value[2][2]
        while d[0] in ("pad", "sub") or (d[0] == "cat" and d[1][-1][0] == "list" and all(is_const(x) or x[0] == "ife" for x in d[1][-1][1]) and len(d[1]) > 2):
            d = d[1] if d[0] in ("pad", "sub") else ("cat", d[1][:-1])
        parts = d[1] if d[0] == "cat" else (d,)
        if parts and parts[0][0] == "list" and len(parts) >= 2:
            return parts[0][1], parts[1:], sends[0], r
    return None


def fit(ctx, L, rule="R-MPG-FIT", rule_hdr="R-MPG-HDR"):
    """fill accounting: guard fill <= C1 - len, update fill += C2 + len, creation C2 + len, len <= 60  =>  fill <= 64"""
    f = L.send_pgn
    n_app = n_new = 0
    C2s = set()
    for r in runs(ctx, f, unroll=2):
        if r.term == "cut":
            continue
        for i, e in r.effects():
            if e.kind == "store" and e.value[0] == "dict" and root_field(e.target) == TABLE:
                n_new += 1
                d = dict(e.value[1])
                fl = d.get(("c", "fill_level"))
                a = affine(fl) if fl is not None else None
                inst = "new buffer: fill = header + len"
                if a is None or a[0] != {LEN: 1}:
                    ctx.violated(rule, f, inst, "initial fill level is %s" % pretty(fl), e.node)
                else:
                    C2s.add(int(a[1]))
                    iv = G.intervals(r.guards(i)).get(LEN, [None, None])
                    if iv[1] is None or iv[1] + a[1] > 64:
                        ctx.violated(rule, f, inst, "len(data) <= %s and header %d: a single group may exceed 64 bytes" % (iv[1], a[1]), e.node)
                    else:
                        ctx.holds(rule, inst, "%d + len, len <= %d" % (a[1], iv[1]))
                if d.get(("c", "cpg"))[0] != "list" or len(d.get(("c", "cpg"))[1]) != 1:
                    ctx.violated(rule, f, "new buffer holds the submitted group", "cpg list is %s" % pretty(d.get(("c", "cpg")))[:60], e.node)
            if e.kind == "aug" and e.target[0] == "sub" and e.target[2] == ("c", "fill_level") and root_field(e.target) == TABLE:
                n_app += 1
                E = e.target[1]
                fill = sub(E, "fill_level")
                a = affine(e.value)
                inst = "append: guard fill <= C1 - len and update fill += C2 + len imply fill <= 64"
                if e.extra != "+" or a is None or a[0] != {LEN: 1}:
                    ctx.violated(rule, f, inst, "fill level updated by %s %s" % (e.extra, pretty(e.value)), e.node)
                    continue
                C2 = int(a[1])
                C2s.add(C2)
                # fit guard: a comparison between fill and len(data) normalised to  fill <= C1 - len
                C1 = None
                for g, p in lits(r.guards(i)):
                    if g[0] != "cmp" or g[1] != "<" or not (contains(g, fill) and contains(g, LEN)):
                        continue
                    d = affine_diff(g[2], g[3])     # X - Y
                    if d is None or set(d[0]) != {fill, LEN}:
                        continue
                    cf, cl, c = d[0][fill], d[0][LEN], d[1]
                    if p and cf == 1 and cl == 1:          # fill + len + c < 0   ->  fill <= -c - 1 - len
                        C1 = int(-c - 1)
                    elif (not p) and cf == -1 and cl == -1:  # -fill - len + c >= 0 ->  fill <= c - len
                        C1 = int(c)
                if C1 is None:
                    ctx.unknown(rule, "append path without a recognisable fit test of the form fill <= C - len(data) at %s" % loc(f, e.node))
                elif C1 + C2 > 64:
                    ctx.violated(rule, f, inst, "fit test allows fill + %d + len <= %d: an assembled frame may be %d bytes long" % (C2, C1 + C2, C1 + C2), e.node)
                else:
                    ctx.holds(rule, inst, "C1=%d, C2=%d" % (C1, C2))
                # the group is appended on this path
                app = [x for _, x in r.effects() if x.kind == "call" and x.value[1] == ("attr", sub(E, "cpg"), "append")]
                if len(app) != 1:
                    ctx.violated(rule, f, "append: the group joins the buffer exactly once", "%d append calls" % len(app), e.node)
    if n_app == 0 or n_new == 0:
        ctx.unknown(rule, "buffering branches not found (new=%d, append=%d)" % (n_new, n_app))
    # header size agreement
    b = L.builder("__send_multi_pg")
    bp = builder_parts(ctx, L)
    hdr = len(bp[0]) if bp is not None else None
    p = ctx.prog.func(L.cls, "_process_multi_pg")
    offs = set()
    data = ("p", "data")
    for r in runs(ctx, p, unroll=1):
        plen = None
        for i, e in r.effects():
            if e.kind == "call" and is_self_call(e.value, "__notify_subscribers"):
                for x in walk(e.value):
                    if x[0] == "sub" and x[2][0] == "slice" and x[1] == data and x[2][1] is not None and x[2][2] is not None:
                        lo, hi = x[2][1], x[2][2]
                        a = affine(lo)
                        if a is not None and not a[0]:
                            offs.add(("payload", int(a[1])))
                            d = affine_diff(hi, lo)
                            if d is not None and d[1] == 0 and len(d[0]) == 1:
                                plen = list(d[0])[0]
        if plen is not None:
            for name, v in r.evalr.env.items():
                cand = None
                if v[0] == "sub" and v[1] == data and v[2][0] == "slice" and v[2][2] is None and v[2][1] is not None:
                    cand = v[2][1]
                elif v[0] == "bin":
                    cand = v
                if cand is not None:
                    d = affine_diff(cand, plen)
                    if d is not None and not d[0] and d[1] > 0:
                        offs.add(("advance", int(d[1])))
        for g, pol in lits(r.guards()):
            if g[0] == "cmp" and g[1] == "<" and g[3] == lensym(data) and is_const(g[2]):
                offs.add(("short", cval(g[2])))
    inst = "header size agrees: builder bytes per group = fill accounting = parser offset/advance/short test"
    vals = {"builder": hdr, "accounting": sorted(C2s), "parser": sorted(offs)}
    kinds = {k for k, _ in offs}
    if hdr is None or not C2s or not {"payload", "advance", "short"} <= kinds:
        ctx.unknown(rule_hdr, "header size could not be read off every site: %s" % vals)
    elif C2s == {hdr} and all(v == hdr for _, v in offs):
        ctx.holds(rule_hdr, inst, str(vals))
    else:
        ctx.violated(rule_hdr, b, inst, "the per-group header size is not the same everywhere: %s" % vals, b.node)


def header_layout(ctx, L, rule="R-LAYOUT"):
    """C-PG header encode vs the SAE table; decode o encode = identity; PDU1 groups carry PS = 0, DA in the identifier"""
    from spec import sae
    P = ctx.prog
    f = L.send_pgn
    # creation dict of a contained group (masks give the field widths)
    cpg = None
    cp_runs = []
    for r in runs(ctx, f, unroll=1):
        for i, e in r.effects():
            if e.kind == "call" and is_self_call(e.value, "__send_multi_pg"):
                lst = e.value[2][1]
                if lst[0] == "list" and len(lst[1]) == 1 and lst[1][0][0] == "dict":
                    cp_runs.append((r, i, dict(lst[1][0][1]), e))
    if not cp_runs:
        ctx.unknown(rule, "immediate multi-PG send not found in %s" % f.qual)
        return
    b = L.builder("__send_multi_pg")
    hb = builder_parts(ctx, L)
    if hb is None or len(hb[0]) < 4:
        ctx.unknown(rule, "multi-PG builder output not recognised")
        return
    hb = (hb[0][:4], hb[1], hb[2], hb[3])
    hbytes, rest, send_eff, brun = hb
    for r, i, d, e in cp_runs:
        pdu1 = any(g[0] == "attr" and g[2] == "is_pdu2_format" and not p for g, p in lits(r.guards(i)))
        kind = "PDU1" if pdu1 else "PDU2"
        def leaf(s, d=d):
            if s[0] == "sub" and s[1][0] == "iter" and is_const(s[2]) and ("c", s[2][1]) in d:
                return BitEval(_pleaf).ev(resolve_objects(P, d[("c", s[2][1])]))
            return None
        be = BitEval(leaf)
        ps_bits = [("b", "pdu_specific", k) for k in range(8)] if not pdu1 else [0] * 8
        cp = BV(ps_bits + [("b", "pdu_format", k) for k in range(8)] + [("b", "data_page", 0), 0], 0)
        fmap = {"tos": "tos", "tf": "trailer_format", "cpgn": cp, "length": "LEN"}
        pr = []
        for k in range(4):
            bv = be.ev(hbytes[k])
            pr.extend("byte %d: %s" % (k, x) for x in check_bits(bv, sae.MPG_HEADER[k], fmap))
        inst = "22 multi-PG header (%s group) vs SAE layout TOS|TF|CPGN(18)|length" % kind
        # the cpgn source: value & 0xFFF00 (PDU1) / value (PDU2) of ParameterGroupNumber(data_page, pdu_format, pdu_specific)
        if pr:
            ctx.violated(rule, b, inst, "; ".join(pr[:4]), send_eff.node)
        else:
            ctx.holds(rule, inst)
    # identifier of the FEFF frame: PGN 0x2500 | dst, priority = min over groups, source
    idsym = send_eff.value[2][0]
    try:
        s = resolve_objects(P, idsym)
        bv = BitEval(param_leaf()).ev(s)
        want_pf = sae.PGN["MULTI_PG"] >> 8
        ok = bv.window(16, 8) == [(want_pf >> k) & 1 for k in range(8)] and bv.window(8, 8) == [("b", "dst_address", k) for k in range(8)] \
            and bv.window(0, 8) == [("b", "src_address", k) for k in range(8)] and bv.window(24, 2) == [0, 0]
        inst = "22 multi-PG frame identifier: PF 0x25, destination in PS, source address"
        if ok:
            ctx.holds(rule, inst)
        else:
            ctx.violated(rule, b, inst, "identifier is %s" % bv.describe(), send_eff.node)
    except AnalysisError as ex:
        ctx.unknown(rule, "multi-PG identifier: %s" % ex)
    if send_eff.value[3] and dict(send_eff.value[3]).get("fd_format") != ("c", True):
        ctx.violated(rule, b, "22 multi-PG frame is an FD frame", "fd_format is %s" % pretty(dict(send_eff.value[3]).get("fd_format")), send_eff.node)
    # decoder
    p = P.func(L.cls, "_process_multi_pg")
    def bl(s):
        if s[0] == "sub" and s[1] == ("p", "data") and is_const(s[2]) and isinstance(s[2][1], int):
            return BV.input("d%d" % s[2][1], 8)
        return None
    bed = BitEval(bl)
    found = False
    for r in runs(ctx, p, unroll=1):
        for i, e in r.effects():
            if e.kind == "call" and is_self_call(e.value, "__notify_subscribers"):
                found = True
                a = bind_args(e.value, P.func("ElectronicControlUnit", "_notify_subscribers"))
                cp = bed.ev(a.get("pgn"))
                want = [("b", "d2", k) for k in range(8)] + [("b", "d1", k) for k in range(8)] + [("b", "d0", 0), ("b", "d0", 1)]
                inst = "22 multi-PG decoder: CPGN = byte0[1..0]:byte1:byte2"
                if cp.window(0, 18) == want and cp.width() is not None and cp.width() <= 18:
                    ctx.holds(rule, inst)
                else:
                    ctx.violated(rule, p, inst, "decoded CPGN is %s" % cp.describe(), e.node)
                dat = a.get("data")
                ok = False
                if dat is not None:
                    x = dat
                    if x[0] == "call" and x[1][0] == "attr" and x[1][2] == "copy":
                        x = x[1][1]
                    if x[0] == "sub" and x[1] == ("p", "data") and x[2][0] == "slice":
                        lo, hi = x[2][1], x[2][2]
                        dl = affine_diff(hi, lo) if lo is not None and hi is not None else None
                        if dl is not None and dl[1] == 0 and len(dl[0]) == 1:
                            lenexpr = list(dl[0])[0]
                            lb = bed.ev(lenexpr)
                            ok = lb.window(0, 8) == [("b", "d3", k) for k in range(8)] and lb.width() == 8
                inst = "22 multi-PG decoder: payload = length byte many bytes after the header"
                if ok:
                    ctx.holds(rule, inst)
                else:
                    ctx.violated(rule, p, inst, "payload delivered is %s" % pretty(dat)[:80], e.node)
                tos = [g for g, pol in lits(r.guards(i)) if pol and g[0] == "cmp" and g[1] == "==" and ("c", 2) in (g[2], g[3])]
                if a.get("sa") != ("attr", ("p", "mid"), "source_address") or a.get("dest") != ("p", "dest_address"):
                    ctx.violated(rule, p, "22 multi-PG decoder identity", "delivered (sa, dest) = (%s, %s)" % (pretty(a.get("sa")), pretty(a.get("dest"))), e.node)
    if not found:
        ctx.violated(rule, p, "22 multi-PG decoder", "contained groups are never delivered", p.node)


def _pleaf(s):
    if s[0] == "p":
        return BV.input(s[1])
    if s == LEN:
        return BV.input("LEN", 8)
    return None


def misc(ctx, L):
    """FBFF refusal, padding content, min-deadline, flush, buffer-full path"""
    P = ctx.prog
    f = L.send_pgn
    fbff = ("c", 2)
    ff = ("p", "frame_format")
    # FBFF to a non-global destination is refused before any effect
    n = 0
    for r in runs(ctx, f, unroll=1):
        gl = lits(r.guards())
        if (mk_cmp("==", ff, fbff), True) in gl and r.term == "return":
            ret = [e for _, e in r.effects() if e.kind == "ret"][-1]
            if ret.value == ("c", False):
                n += 1
                eff = [e for _, e in r.effects() if e.kind in ("store", "aug", "del") or L.is_send(f, e)]
                inst = "base-format (FBFF) group to a specific destination is refused without effect"
                if eff:
                    ctx.violated("R-MPG-FBFF", f, inst, "refusal has an effect", eff[0].node)
                else:
                    ctx.holds("R-MPG-FBFF", inst)
    if n == 0:
        ctx.violated("R-MPG-FBFF", f, "FBFF refusal", "a base-format frame cannot carry a destination: such a group must be refused", f.node)
    # padding content
    b = L.builder("__send_multi_pg")
    seqs = set()
    sym_forms = []
    for r in runs_of(P, b, unroll=5, summarize_pad=False):
        if contradictory(r) or r.term == "cut":
            continue
        it = [rec for rec in r.recs if rec.ev.kind == "for" and rec.ev.pol == "iter" and "cpg" in ast.unparse(rec.ev.node.target)]
        if len(it) != 0:
            continue
        args = [e.value[2][0] for _, e in r.effects() if e.kind == "call" and mname(e.value) == "append" and e.value[2]]
        if all(is_const(a) for a in args):
            seqs.add(tuple(args))
        else:
            sym_forms.extend(a for a in args if not is_const(a))
    inst = "padding = zero service header (<= 3 x 0x00) then 0xAA: skipped by the decoder's tos == 0 / short-remainder test"
    good = seqs and all(all(x == ("c", 0) for x in s_[:3]) and all(x == ("c", 0xAA) for x in s_[3:]) for s_ in seqs) and any(len(s_) >= 4 for s_ in seqs)
    # `0 if index < 3 else 0xAA` over a running pad index
    idx_form = sym_forms and all(a[0] == "ife" and a[1][0] == "cmp" and a[1][1] == "<" and a[1][3] == ("c", 3) and a[1][2][0] == "iter"
                                 and a[2] == ("c", 0) and a[3] == ("c", 0xAA) for a in sym_forms)
    # arithmetic spelling: data.extend([0] * min(m, 3) + [0xAA] * (m - min(m, 3)))   (m = missing bytes)
    arith = False
    if not good and not idx_form:
        from .common import affine_eq as _aeq
        for r in runs_of(P, b, unroll=1):
            for _, e in r.effects():
                if e.kind == "call" and mname(e.value) == "extend" and e.value[2] and e.value[2][0][0] == "cat" and len(e.value[2][0][1]) == 2:
                    z, a = e.value[2][0][1]
                    if z[0] == "rep" and a[0] == "rep" and z[1] == ("list", (("c", 0),)) and a[1] == ("list", (("c", 0xAA),)):
                        h = z[2]
                        if h[0] == "call" and h[1] == ("glob", "min") and len(h[2]) == 2 and ("c", 3) in h[2]:
                            m_ = h[2][0] if h[2][1] == ("c", 3) else h[2][1]
                            if _aeq(a[2], mk_bin("-", m_, h)):
                                arith = True
    if arith:
        ctx.holds("R-PAD", inst, "[0] * min(missing, 3) + [0xAA] * (missing - min(missing, 3))")
    elif good or idx_form:
        ctx.holds("R-PAD", inst, str(sorted(len(s_) for s_ in seqs)) if good else "0 if pad index < 3 else 0xAA")
    elif sym_forms or not any(seqs):
        ctx.unknown("R-PAD", "padding construct not recognised (%s)" % ([pretty(a)[:50] for a in sym_forms[:2]] or "no pad bytes found"))
    else:
        ctx.violated("R-PAD", b, inst, "pad byte sequences are %s" % sorted([[cval(x) for x in s_] for s_ in seqs])[:6], b.node)
    # decoder skips padding: tos == 0 -> stop
    p = P.func(L.cls, "_process_multi_pg")
    d0 = ("sub", ("p", "data"), ("c", 0))
    tos = mk_bin("&", mk_bin(">>", d0, ("c", 5)), ("c", 7))
    stop = False
    for r in runs(ctx, p, unroll=1):
        if (mk_cmp("==", tos, ("c", 0)), True) in lits(r.guards()):
            if not any(e.kind == "call" and is_self_call(e.value, "__notify_subscribers") for _, e in r.effects()):
                stop = True
    if stop:
        ctx.holds("R-PAD", "decoder stops at a zero type-of-service header (padding)")
    else:
        ctx.violated("R-PAD", p, "decoder stops at padding", "a zero service header is not treated as end of content", p.node)
    # min-deadline: only lowered
    m = 0
    for r in runs(ctx, f, unroll=2):
        for i, e in r.effects():
            if e.kind == "store" and e.target[0] == "sub" and e.target[2] == ("c", "deadline") and root_field(e.target) == TABLE and e.value != TIME:
                m += 1
                cur = e.target
                inst = "a buffer's deadline is only lowered to the added group's deadline"
                lower = any(p and g == mk_cmp("<", e.value, cur) for g, p in lits(r.guards(i)))
                d = affine_diff(e.value, TIME)
                if lower and d is not None and d == ({("p", "time_limit"): 1}, 0):
                    ctx.holds("R-MPG-MIN-DEADLINE", inst)
                else:
                    ctx.violated("R-MPG-MIN-DEADLINE", f, inst, "deadline := %s without the test new < current: a later group postpones earlier ones" % pretty(e.value), e.node)
            if e.kind == "store" and e.value[0] == "dict" and root_field(e.target) == TABLE:
                dl = dict(e.value[1]).get(("c", "deadline"))
                d = affine_diff(dl, TIME) if dl else None
                inst = "new buffer deadline = now + time_limit"
                if d is not None and d == ({("p", "time_limit"): 1}, 0):
                    ctx.holds("R-MPG-MIN-DEADLINE", inst)
                else:
                    ctx.violated("R-MPG-MIN-DEADLINE", f, inst, "deadline is %s" % pretty(dl), e.node)
    if m == 0:
        ctx.violated("R-MPG-MIN-DEADLINE", f, "deadline lowering", "an added group with an earlier deadline does not lower the buffer's deadline", f.node)
    # buffer-full path: deadline := now, wake, next counter
    full = 0
    for r in runs(ctx, f, unroll=2):
        for i, e in r.effects():
            if e.kind == "store" and e.target[0] == "sub" and e.target[2] == ("c", "deadline") and root_field(e.target) == TABLE and e.value == TIME:
                full += 1
                woke = any(L.is_wake(f, x) for j, x in r.effects() if j >= i)
                inst = "full buffer: flushed now (deadline := now, wake) and the next counter is tried"
                keys = [x.target[2] for _, x in r.effects() if x.kind == "store" and x.value[0] == "dict" and root_field(x.target) == TABLE]
                if not woke:
                    ctx.violated("R-MPG-FLUSH", f, inst, "no wake-up after forcing the deadline", e.node)
                else:
                    ctx.holds("R-MPG-FLUSH", inst)
    if full == 0:
        ctx.violated("R-MPG-FLUSH", f, "full buffer path", "a full buffer is never flushed early", f.node)
    # job scan: send and delete
    k = 0
    for r in scan_runs(ctx, L, TABLE):
        E = None
        for g, p in lits(r.guards()):
            if (not p) and g[0] == "cmp" and g[1] == "<" and g[2] == ("p", "now") and g[3][0] == "sub" and g[3][2] == ("c", "deadline"):
                E = g[3][1]
        if E is None:
            continue
        k += 1
        sends = L.calls(r, "__send_multi_pg")
        dele = [e for _, e in r.effects() if e.kind == "del" and e.target == E]
        inst = "job scan sends an expired buffer once and deletes it"
        ok = len(sends) == 1 and len(dele) == 1
        if ok:
            a = sends[0][1].value[2]
            key = E[2]
            un = ("call", ("attr", SELF, "_buffer_unhash_mpg"), (key,), ())
            want = (sub(un, 0), sub(E, "cpg"), sub(un, 2), sub(un, 3))
            if a != want:
                ok = False
        if ok:
            ctx.holds("R-MPG-FLUSH", inst)
        else:
            ctx.violated("R-MPG-FLUSH", L.job, inst, "expired buffer: %d send(s), %d delete(s), arguments %s" % (
                len(sends), len(dele), [pretty(x)[:40] for x in (sends[0][1].value[2] if sends else ())]), r.recs[-1].ev.node)
    if k == 0:
        ctx.unknown("R-MPG-FLUSH", "multi-PG expiry arm not found")
    # keying: (frame format, counter, src, dst)
    for r in runs(ctx, f, unroll=1):
        for i, e in r.effects():
            if e.kind == "store" and e.value[0] == "dict" and root_field(e.target) == TABLE:
                key = e.target[2]
                inst = "buffers are keyed by (frame format, counter, source, destination)"
                ok = key[0] == "call" and is_self_call(key, "_buffer_hash_mpg") and len(key[2]) == 4 and key[2][0] == ff and key[2][2] == ("p", "src_address") \
                    and key[2][3] in (("p", "pdu_specific"), ("c", 255))
                if ok:
                    ctx.holds("R-KEY-ROLE", inst)
                else:
                    ctx.violated("R-KEY-ROLE", f, inst, "buffer key is %s" % pretty(key)[:100], e.node)


def copy_rule(ctx, L, rule="R-MPG-COPY"):
    """a buffered group holds its own copy of the payload (it is sent later, the caller may reuse its list)"""
    f = L.send_pgn
    n = 0
    for r in runs(ctx, f, unroll=1):
        for i, e in r.effects():
            grp = None
            if e.kind == "store" and e.value[0] == "dict" and root_field(e.target) == TABLE:
                c = dict(e.value[1]).get(("c", "cpg"))
                if c is not None and c[0] == "list" and len(c[1]) == 1 and c[1][0][0] == "dict":
                    grp = dict(c[1][0][1])
            if e.kind == "call" and mname(e.value) == "append" and root_field(e.value[1][1]) == TABLE and e.value[2] and e.value[2][0][0] == "dict":
                grp = dict(e.value[2][0][1])
            if grp is None:
                continue
            n += 1
            d = grp.get(("c", "data"))
            inst = "buffered group carries a copy of the payload and its true length"
            ok = d is not None and ((d[0] == "call" and d[1] in (("attr", ("p", "data"), "copy"), ("glob", "list"), ("glob", "bytearray"), ("glob", "bytes")))
                                    or (d[0] == "sub" and d[1] == ("p", "data") and d[2][0] == "slice" and d[2][1] is None and d[2][2] is None))
            if ok and d[0] == "call" and d[1][0] == "glob":
                ok = d[2] == (("p", "data"),)
            if not ok:
                ctx.violated(rule, f, inst, "the group keeps a reference to the caller's list (%s): data changed after send_pgn returned goes out instead" % pretty(d), e.node)
            elif grp.get(("c", "data_length")) != LEN:
                ctx.violated(rule, f, inst, "length field is %s, not len(data)" % pretty(grp.get(("c", "data_length"))), e.node)
            else:
                ctx.holds(rule, inst)
    if n < 2:
        ctx.unknown(rule, "buffered groups not found (%d)" % n)


def mpg_steps(ctx, L, rule="R-MPG-STEPS"):
    """multi-PG frames: the assembled frame is handed to the bus on every path of the sender (11-bit and 29-bit format), and a received
    multi-PG frame is dispatched to the decoder (otherwise groups are accepted by send_pgn / arrive on the bus but reach nobody)."""
    from .common import lits
    f = L.builder("__send_multi_pg")
    n = bad = 0
    for r in runs(ctx, f, unroll=1):
        if r.term in ("raise", "exc", "cut"):
            continue
        n += 1
        if not any(L.is_send(f, e) for _, e in r.effects()):
            bad += 1
    inst = "22 __send_multi_pg hands the frame to the bus on every path"
    if n and not bad:
        ctx.holds(rule, inst)
    elif n:
        ctx.violated(rule, f, inst, "a path assembles the frame and returns without sending it: the groups in it are lost", f.node)
    else:
        ctx.unknown(rule, "no path through %s" % f.qual)
    g = L.notify
    ok = any(e.kind == "call" and is_self_call(e.value, "_process_multi_pg") for r in runs(ctx, g) for _, e in r.effects())
    inst = "22 notify dispatches multi-PG frames to the decoder"
    if ok:
        ctx.holds(rule, inst)
    else:
        ctx.violated(rule, g, inst, "received multi-PG frames are never decoded: no contained parameter group is delivered", g.node)
