"""Robustness / concurrency-discipline rules (C07, C08)."""
import ast
from sa.sym import (SELF, is_const, cval, pretty, walk, contains, root_field, mk_cmp, mk_not, mk_bool, mk_bin)
from sa.model import AnalysisError
from sa import guards as G
from .common import (mname, is_self_call, lensym, sub, field, affine_diff, bind_args, runs, lits, loc)
from .flow import scan_runs
from .timing import _reached, _state_name, PUTS


def parents(root):
    pm = {}
    for n in ast.walk(root):
        for c in ast.iter_child_nodes(n):
            pm[c] = n
    return pm


def _in_try_catching(node, pm, names=("KeyError", "LookupError", "Exception", "BaseException")):
    cur = node
    while cur in pm:
        par = pm[cur]
        if isinstance(par, ast.Try) and cur in par.body:
            for h in par.handlers:
                hn = [None] if h.type is None else ([ast.unparse(e) for e in h.type.elts] if isinstance(h.type, ast.Tuple) else [ast.unparse(h.type)])
                if any(x is None or x.split(".")[-1] in names for x in hn):
                    if not any(isinstance(x, ast.Raise) for x in ast.walk(h)):
                        return True
        cur = par
    return False


def state_exhaustive(ctx, L, rule="R-STATE-EXHAUSTIVE"):
    """every constant ever stored into a send session's state has a branch in the job dispatcher"""
    stored = {}
    for fn in (L.send_pgn, L.cm, L.dt, L.job):
        for r in runs(ctx, fn):
            for i, e in r.effects():
                v = None
                if e.kind == "store" and e.value[0] == "dict" and root_field(e.target) == "_snd_buffer":
                    v = dict(e.value[1]).get(("c", "state"))
                elif e.kind == "store" and root_field(e.target) == "_snd_buffer" and e.target[0] == "sub" and e.target[2] == ("c", "state"):
                    v = e.value
                elif e.kind == "store" and e.target[0] == "sub" and e.target[2] == ("c", "state") and e.target[1][0] == "sub" \
                        and root_field(e.target[1]) == "_snd_buffer":
                    v = e.value
                if v is not None:
                    stored.setdefault(v, (fn, e))
    handled = set()
    for r in scan_runs(ctx, L, "_snd_buffer"):
        for g, p in lits(r.guards()):
            if p and g[0] == "cmp" and g[1] == "==":
                for x, y in ((g[2], g[3]), (g[3], g[2])):
                    if x[0] == "sub" and x[2] == ("c", "state") and is_const(y):
                        handled.add(y)
    for v, (fn, e) in stored.items():
        inst = "%s state %s has a job-thread branch" % (L.tag, pretty(v))
        if not is_const(v):
            ctx.unknown(rule, "non-constant state %s stored in %s" % (pretty(v), fn.qual))
        elif v in handled:
            ctx.holds(rule, inst)
        else:
            ctx.violated(rule, fn, inst, "state %s is stored but the job thread has no branch for it: the session ends in the "
                         "'unknown state' arm" % pretty(v), e.node)
    if len(stored) < 3:
        ctx.unknown(rule, "only %d state stores found" % len(stored))


def job_funcs(ctx, L):
    """the job pass and the private helpers only it reaches (a later clean-up may have split the pass up)"""
    from .common import is_helper, owners
    out = [L.job]
    for fn in ctx.prog.all_funcs():
        if fn.cls is not None and fn.cls.name == L.cls and fn is not L.job and is_helper(fn) and owners(ctx, fn) == {L.job.qual}:
            out.append(fn)
    return out


def job_subscript(ctx, L, rule="R-JOB-SUBSCRIPT"):
    """no unprotected T[k] / del T[k] in the job thread on a table another role deletes from"""
    tables = ["_rcv_buffer", "_snd_buffer"] + (["_multi_pg_snd_buffer"] if L.fd else [])
    deleters = {t: [] for t in tables}
    from .common import owners
    for fn in ctx.prog.all_funcs():
        if fn.cls is None or fn.cls.name != L.cls or fn is L.job:
            continue
        if owners(ctx, fn) <= {L.job.qual}:
            continue   # a helper reached from the job thread only
        for n in ast.walk(fn.node):
            if isinstance(n, ast.Delete):
                for t in n.targets:
                    if isinstance(t, ast.Subscript) and isinstance(t.value, ast.Attribute) and t.value.attr in tables:
                        deleters[t.value.attr].append((fn, n))
            if isinstance(n, ast.Call) and isinstance(n.func, ast.Attribute) and n.func.attr in ("pop", "clear", "popitem") \
                    and isinstance(n.func.value, ast.Attribute) and n.func.value.attr in tables:
                deleters[n.func.value.attr].append((fn, n))
    pm = {}
    jnodes = []
    for jf in job_funcs(ctx, L):
        pm.update(parents(jf.node))
        jnodes.extend(ast.walk(jf.node))
    count = 0
    for n in jnodes:
        if isinstance(n, ast.Subscript) and isinstance(n.value, ast.Attribute) and isinstance(n.value.value, ast.Name) \
                and n.value.value.id == "self" and n.value.attr in tables and isinstance(n.ctx, (ast.Load, ast.Del)):
            t = n.value.attr
            count += 1
            kind = "del" if isinstance(n.ctx, ast.Del) else "load"
            inst = "%s job-thread %s of %s[key]" % (L.tag, kind, t)
            if not deleters[t]:
                ctx.holds(rule, inst + " (no other role deletes from this table)")
            elif _in_try_catching(n, pm):
                ctx.holds(rule, inst + " (KeyError handled)")
            else:
                d = deleters[t][0]
                ctx.violated(rule, L.job, inst, "the receive path deletes entries of %s (%s line %d) between the key snapshot and this "
                             "subscript: KeyError ends the job thread for good" % (t, d[0].name, d[1].lineno), n)
    for n in jnodes:
        if isinstance(n, ast.Call) and isinstance(n.func, ast.Attribute) and n.func.attr in ("get", "pop") \
                and isinstance(n.func.value, ast.Attribute) and isinstance(n.func.value.value, ast.Name) \
                and n.func.value.value.id == "self" and n.func.value.attr in tables:
            t = n.func.value.attr
            count += 1
            inst = "%s job-thread %s of %s[key]" % (L.tag, "del" if n.func.attr == "pop" else "load", t)
            if n.func.attr == "pop" and len(n.args) < 2 and deleters[t] and not _in_try_catching(n, pm):
                ctx.violated(rule, L.job, inst, "pop without a default raises KeyError when the receive path removed the entry first", n)
            else:
                ctx.holds(rule, inst + " (tolerant dict method)")
    if count < 3:
        ctx.unknown(rule, "only %d keyed job-thread accesses found in %s" % (count, L.job.qual))
    return deleters


def snapshot(ctx, L, rule="R-SNAPSHOT"):
    """job-thread loops over the shared tables iterate a copy"""
    tables = ["_rcv_buffer", "_snd_buffer"] + (["_multi_pg_snd_buffer"] if L.fd else [])
    n = 0
    for node in [x for jf in job_funcs(ctx, L) for x in ast.walk(jf.node)]:
        if isinstance(node, (ast.For, ast.comprehension)):
            names = [x.attr for x in ast.walk(node.iter) if isinstance(x, ast.Attribute) and x.attr in tables]
            if not names:
                continue
            n += 1
            it = node.iter
            ok = isinstance(it, ast.Call) and (
                (isinstance(it.func, ast.Name) and it.func.id in ("list", "tuple", "sorted")) or
                (isinstance(it.func, ast.Attribute) and it.func.attr == "copy"))
            inst = "%s job scan of %s iterates a snapshot" % (L.tag, names[0])
            if ok:
                ctx.holds(rule, inst)
            else:
                ctx.violated(rule, L.job, inst, "the scan iterates the live dict (or a view of it, step by step): an insertion or removal by the receive "
                             "path raises 'dictionary changed size during iteration' in the job thread", node if hasattr(node, "lineno") else node.iter)
    if n < len(tables):
        ctx.unknown(rule, "scan loops not found (%d of %d)" % (n, len(tables)))


def listener_contain(ctx, rule="R-LISTENER-CONTAIN"):
    """exceptions from frame handling are contained at the bus listener"""
    f = ctx.prog.func("MessageListener", "on_message_received")
    pm = parents(f.node)
    calls = [n for n in ast.walk(f.node) if isinstance(n, ast.Call) and isinstance(n.func, ast.Attribute) and n.func.attr == "notify"]
    if not calls:
        ctx.unknown(rule, "call to ecu.notify not found in %s" % f.qual)
        return
    for c in calls:
        inst = "listener contains exceptions of notify"
        if _in_try_catching(c, pm, names=("Exception", "BaseException")):
            ctx.holds(rule, inst)
        else:
            ctx.violated(rule, f, inst, "ecu.notify is not inside try/except Exception: a malformed frame's exception propagates into "
                         "the python-can notifier thread and ends reception", c)


def raise_confined(ctx, L, rule="R-RAISE-CONFINED"):
    """explicit raise statements of the data link layer are not reachable from the job thread"""
    job = ctx.cg.reach([ctx.prog.func("ElectronicControlUnit", "_async_job_thread")])
    n = 0
    for fn in ctx.prog.all_funcs():
        if fn.cls is None or fn.cls.name != L.cls:
            continue
        pm = None
        for node in ast.walk(fn.node):
            if isinstance(node, ast.Raise):
                n += 1
                inst = "%s raise in %s" % (L.tag, fn.name)
                if fn.qual not in job:
                    ctx.holds(rule, inst + " is outside the job-thread role")
                else:
                    pm = pm or parents(fn.node)
                    if _in_try_catching(node, pm, names=("Exception", "BaseException", "RuntimeError", "ValueError")):
                        ctx.holds(rule, inst + " is handled locally")
                    else:
                        ctx.violated(rule, fn, inst, "an explicit raise is reachable from _async_job_thread: it ends the background thread", node)
    ctx.holds(rule, "%s: %d raise statements classified" % (L.tag, n))


def idx(ctx, L, rule="R-IDX"):
    """no subscript on a fixed-length list field with an index that can exceed its length (FD pools, DLC LUT)"""
    if not L.fd:
        return
    P = ctx.prog
    init = P.func(L.cls, "__init__")
    lens = {}
    for r in runs(ctx, init):
        for i, e in r.effects():
            if e.kind == "store" and e.target[0] == "attr" and e.target[1] == SELF and e.value[0] == "list":
                lens[e.target[2]] = len(e.value[1])
    lut = lut_table(ctx, L)
    if lut is not None:
        lens["_LUT_FD_DLC"] = len(lut)
    # pool setters: join over call sites
    for put, get in PUTS.items():
        p = L.builder(put)
        lst = None
        for r in runs(ctx, p):
            for _, e in r.effects():
                if e.kind == "store" and e.target[0] == "sub" and e.target[2] == ("p", p.params[0]):
                    lst = e.target[1][2] if e.target[1][0] == "attr" else None
        if lst is None or lst not in lens:
            ctx.unknown(rule, "pool list of %s not found" % put)
            continue
        n = lens[lst]
        from .common import is_helper
        sites = []
        seen_nodes = set()
        for fn in P.all_funcs():
            if fn.cls is None or fn.cls.name != L.cls or is_helper(fn) or fn.name in PUTS or fn.name == "__init__":
                continue
            rs = scan_all_tables(ctx, L) if fn is L.job else runs(ctx, fn)
            for r in rs:
                for i, e in L.calls(r, put):
                    if id(e.node) not in seen_nodes:
                        seen_nodes.add(id(e.node))
                        sites.append((fn, e))
        for caller, e in sites:
            arg = e.value[2][0] if e.value[2] else None
            inst = "22 %s index at call in %s [%s]" % (put, caller.name, pretty(arg)[:60])
            # classify the argument
            rng = None
            if arg is not None and arg[0] == "sub" and arg[2] == ("c", "session") and root_field(arg) == "_snd_buffer":
                rng = (0, n - 1)   # labelled with a number the getter of this pool handed out (R-POOL-PAIR)
            elif arg is not None and arg[0] == "sub" and arg[2] == ("c", "session") and root_field(arg) == "_rcv_buffer":
                rng = (0, 15)      # what the receive path stores: the frame's session nibble
            elif arg is not None and arg[0] == "bin" and arg[1] == "&" and is_const(arg[2]) | is_const(arg[3]):
                m = cval(arg[2]) if is_const(arg[2]) else cval(arg[3])
                rng = (0, m)
            if rng is None:
                ctx.violated(rule, caller, inst, "index %s of the %d-entry pool list is not bounded" % (pretty(arg), n), e.node)
            elif rng[1] >= n:
                ctx.violated(rule, caller, inst, "index ranges over [%d,%d] (a session number taken from a received frame) but the pool "
                             "list has %d entries: IndexError%s" % (rng[0], rng[1], n, " in the job thread" if caller is L.job else ""), e.node)
            else:
                ctx.holds(rule, inst)
    # LUT subscripts
    for fn in P.all_funcs():
        if fn.cls is None or fn.cls.name != L.cls or fn.name == "__init__":
            continue
        for r in runs(ctx, fn):
            for i, e in r.effects():
                for x in walk(e.value) if isinstance(e.value, tuple) else ():
                    pass
        for rr in runs(ctx, fn):
            for j, rec in enumerate(rr.recs):
                syms = [e.value for e in rec.effects if isinstance(e.value, tuple)] + ([rec.cond] if rec.cond is not None else [])
                if rec.env is None:
                    pass
                for s in syms:
                    for x in walk(s):
                        if x[0] == "sub" and x[1] == field("_LUT_FD_DLC"):
                            iv = G.intervals(rr.guards(j)).get(x[2], [None, None])
                            inst = "22 _LUT_FD_DLC index in %s" % fn.name
                            hi = iv[1]
                            if hi is None and fn.name == "__send_multi_pg":
                                hi = 64  # R-MPG-FIT (C11) bounds the assembled length by 64
                                ctx.assume("multi-PG frame length <= 64 is decided by R-MPG-FIT (C11)")
                            if "_LUT_FD_DLC" not in lens:
                                ctx.unknown(rule, "%s: length of the DLC look-up table not determined (construction not recognised)" % inst)
                                continue
                            if hi is None or hi >= lens.get("_LUT_FD_DLC", 0):
                                ctx.violated(rule, fn, inst, "index %s can reach %s but the table has %d entries" % (pretty(x[2]), hi, lens.get("_LUT_FD_DLC", 0)), rec.ev.node)
                            else:
                                ctx.holds(rule, inst)


def scan_all_tables(ctx, L):
    out = []
    for t in ("_rcv_buffer", "_snd_buffer") + (("_multi_pg_snd_buffer",) if L.fd else ()):
        out.extend(scan_runs(ctx, L, t))
    return out


def const_list(node, const_eval=None, limit=4096):
    """value of a constant list expression (displays, + and * on lists, list(range(..)), comprehensions over ranges) or None;
    a tiny interpreter over a closed fragment of the expression syntax - nothing is imported or executed"""
    class No(Exception):
        pass

    def ev(n, env):
        if isinstance(n, ast.Constant) and isinstance(n.value, (int, bool)):
            return n.value
        if isinstance(n, ast.Name) and n.id in env:
            return env[n.id]
        if isinstance(n, (ast.List, ast.Tuple)):
            out = []
            for e in n.elts:
                if isinstance(e, ast.Starred):
                    out.extend(ev(e.value, env))
                else:
                    out.append(ev(e, env))
            return out
        if isinstance(n, ast.UnaryOp) and isinstance(n.op, ast.USub):
            return -ev(n.operand, env)
        if isinstance(n, ast.BinOp):
            a, b = ev(n.left, env), ev(n.right, env)
            if isinstance(n.op, ast.Add) and type(a) == type(b):
                r = a + b
            elif isinstance(n.op, ast.Mult) and (isinstance(a, int) or isinstance(b, int)):
                if (isinstance(a, list) and isinstance(b, int) and len(a) * max(b, 0) > limit) or (isinstance(b, list) and isinstance(a, int) and len(b) * max(a, 0) > limit):
                    raise No()
                r = a * b
            elif isinstance(n.op, (ast.Sub, ast.FloorDiv, ast.Mod)) and isinstance(a, int) and isinstance(b, int) and (b != 0 or isinstance(n.op, ast.Sub)):
                r = a - b if isinstance(n.op, ast.Sub) else a // b if isinstance(n.op, ast.FloorDiv) else a % b
            else:
                raise No()
            if isinstance(r, list) and len(r) > limit:
                raise No()
            return r
        if isinstance(n, ast.Compare) and len(n.ops) == 1:
            a, b = ev(n.left, env), ev(n.comparators[0], env)
            op = n.ops[0]
            if isinstance(a, int) and isinstance(b, int):
                return {ast.Lt: a < b, ast.LtE: a <= b, ast.Gt: a > b, ast.GtE: a >= b, ast.Eq: a == b, ast.NotEq: a != b}.get(type(op), None) \
                    if type(op) in (ast.Lt, ast.LtE, ast.Gt, ast.GtE, ast.Eq, ast.NotEq) else (_ for _ in ()).throw(No())
            raise No()
        if isinstance(n, ast.IfExp):
            return ev(n.body, env) if ev(n.test, env) else ev(n.orelse, env)
        if isinstance(n, ast.Call) and isinstance(n.func, ast.Name) and not n.keywords:
            args = [ev(a, env) for a in n.args]
            if n.func.id == "range" and 1 <= len(args) <= 3 and all(isinstance(a, int) for a in args) and (len(args) < 3 or args[2] != 0):
                r = range(*args)
                if len(r) > limit:
                    raise No()
                return list(r)
            if n.func.id in ("list", "tuple") and len(args) == 1 and isinstance(args[0], list):
                return list(args[0])
            if n.func.id == "len" and len(args) == 1 and isinstance(args[0], list):
                return len(args[0])
            if n.func.id in ("min", "max") and args and all(isinstance(a, int) for a in args):
                return min(args) if n.func.id == "min" else max(args)
            raise No()
        if isinstance(n, (ast.ListComp, ast.GeneratorExp)) and len(n.generators) == 1 and isinstance(n.generators[0].target, ast.Name) \
                and not n.generators[0].is_async:
            g = n.generators[0]
            src = ev(g.iter, env)
            if not isinstance(src, list):
                raise No()
            out = []
            for x in src:
                e2 = dict(env)
                e2[g.target.id] = x
                if all(ev(c, e2) for c in g.ifs):
                    out.append(ev(n.elt, e2))
            return out
        if const_eval is not None:
            v = const_eval(n)
            if isinstance(v, (int, list)) and not isinstance(v, bool):
                return v
        raise No()
    try:
        v = ev(node, {})
    except (No, RecursionError, TypeError):
        return None
    return v if isinstance(v, list) and all(isinstance(x, int) for x in v) else None


def _cfold(ctx, init, node, env):
    """constant folding of a table-building expression under an environment of loop variables; None = not a constant"""
    if isinstance(node, ast.Constant):
        return node.value
    if isinstance(node, ast.Name):
        if node.id in env:
            return env[node.id]
    if isinstance(node, (ast.List, ast.Tuple)):
        xs = [_cfold(ctx, init, e, env) for e in node.elts]
        if any(x is None for x in xs):
            return None
        return xs if isinstance(node, ast.List) else tuple(xs)
    if isinstance(node, ast.BinOp) and isinstance(node.op, (ast.Add, ast.Mult, ast.Sub, ast.FloorDiv)):
        a, b = _cfold(ctx, init, node.left, env), _cfold(ctx, init, node.right, env)
        if a is None or b is None:
            return None
        try:
            if isinstance(node.op, ast.Add):
                return a + b
            if isinstance(node.op, ast.Mult):
                if isinstance(a, (list, tuple)) and isinstance(b, int) and len(a) * max(b, 0) > 4096:
                    return None
                if isinstance(b, (list, tuple)) and isinstance(a, int) and len(b) * max(a, 0) > 4096:
                    return None
                return a * b
            if isinstance(node.op, ast.Sub):
                return a - b
            return a // b
        except Exception:
            return None
    if isinstance(node, ast.Call) and isinstance(node.func, ast.Name) and node.func.id in ("range", "list", "tuple", "len") and not node.keywords:
        xs = [_cfold(ctx, init, a, env) for a in node.args]
        if any(x is None for x in xs):
            return None
        try:
            if node.func.id == "range":
                r = range(*xs)
                return list(r) if len(r) <= 4096 else None
            if node.func.id == "len":
                return len(xs[0])
            return list(xs[0]) if node.func.id == "list" else tuple(xs[0])
        except Exception:
            return None
    v = ctx.prog.const_eval(node, init.mod, init.cls)
    from sa.model import NOCONST
    return None if v is NOCONST else v


def _lut_fold(ctx, init):
    """the table as built by an assignment followed by constant-foldable in-place growth (append / extend / += in straight-line code and in
    `for` loops over constant iterables); None when any statement that touches the table is not of that kind"""
    def is_tab(n):
        return isinstance(n, ast.Attribute) and n.attr == "_LUT_FD_DLC"
    tab = None

    def grow(st, env):
        nonlocal tab
        if isinstance(st, ast.AugAssign) and is_tab(st.target) and isinstance(st.op, ast.Add):
            v = _cfold(ctx, init, st.value, env)
            if not isinstance(v, (list, tuple)) or tab is None:
                return False
            tab = tab + list(v)
            return True
        if isinstance(st, ast.Expr) and isinstance(st.value, ast.Call) and isinstance(st.value.func, ast.Attribute) and is_tab(st.value.func.value) \
                and st.value.func.attr in ("append", "extend") and len(st.value.args) == 1 and tab is not None:
            v = _cfold(ctx, init, st.value.args[0], env)
            if v is None:
                return False
            if st.value.func.attr == "append":
                tab = tab + [v]
            elif isinstance(v, (list, tuple)):
                tab = tab + list(v)
            else:
                return False
            return True
        return False
    for st in init.node.body:
        touches = any(is_tab(n) for n in ast.walk(st))
        if not touches:
            continue
        if isinstance(st, ast.Assign) and len(st.targets) == 1 and is_tab(st.targets[0]):
            v = _cfold(ctx, init, st.value, {})
            if not isinstance(v, (list, tuple)):
                return None
            tab = list(v)
            continue
        if isinstance(st, ast.For) and not st.orelse:
            it = _cfold(ctx, init, st.iter, {})
            if not isinstance(it, (list, tuple)) or len(it) > 4096:
                return None
            for item in it:
                env = {}
                if isinstance(st.target, ast.Name):
                    env[st.target.id] = item
                elif isinstance(st.target, ast.Tuple) and all(isinstance(t, ast.Name) for t in st.target.elts) and \
                        isinstance(item, (list, tuple)) and len(item) == len(st.target.elts):
                    env.update({t.id: x for t, x in zip(st.target.elts, item)})
                else:
                    return None
                for b in st.body:
                    if not grow(b, env):
                        return None
            continue
        if not grow(st, {}):
            return None
    return tab


def lut_table(ctx, L):
    """the DLC look-up table built by the constructor, as a Python list (or None)"""
    init = ctx.prog.func(L.cls, "__init__")
    folded = _lut_fold(ctx, init)
    if folded is not None and all(isinstance(x, int) for x in folded):
        return folded
    # the table is touched by a statement that is not constant-foldable: whatever the first assignment says is not the final table
    n_touch = sum(1 for st in init.node.body if any(isinstance(n, ast.Attribute) and n.attr == "_LUT_FD_DLC" for n in ast.walk(st)))
    if n_touch > 1 and not any(isinstance(st, ast.Assign) and isinstance(st.value, ast.List) and not st.value.elts and isinstance(st.targets[0], ast.Attribute)
                               and st.targets[0].attr == "_LUT_FD_DLC" for st in init.node.body):
        return None
    out = []
    started = False
    for st in init.node.body:
        if isinstance(st, ast.Assign) and isinstance(st.targets[0], ast.Attribute) and st.targets[0].attr == "_LUT_FD_DLC":
            if isinstance(st.value, ast.List) and not st.value.elts:
                started = True
                continue
            v = ctx.prog.const_eval(st.value, init.mod, init.cls)
            if isinstance(v, list):
                return v
            return const_list(st.value, lambda n: ctx.prog.const_eval(n, init.mod, init.cls))
        if started and isinstance(st, ast.For) and isinstance(st.iter, ast.Call) and isinstance(st.iter.func, ast.Name) \
                and st.iter.func.id == "range" and len(st.iter.args) == 1 and len(st.body) == 1:
            b = st.body[0]
            if isinstance(b, ast.Expr) and isinstance(b.value, ast.Call) and isinstance(b.value.func, ast.Attribute) \
                    and b.value.func.attr == "append" and isinstance(b.value.func.value, ast.Attribute) \
                    and b.value.func.value.attr == "_LUT_FD_DLC":
                cnt = ctx.prog.const_eval(st.iter.args[0], init.mod, init.cls)
                arg = b.value.args[0]
                if not isinstance(cnt, int):
                    return None
                if isinstance(arg, ast.Name) and isinstance(st.target, ast.Name) and arg.id == st.target.id:
                    out.extend(range(cnt))
                else:
                    v = ctx.prog.const_eval(arg, init.mod, init.cls)
                    if not isinstance(v, int):
                        return None
                    out.extend([v] * cnt)
    return out if started else None


def bam_key_guard(ctx, L, rule="R-PEER-255"):
    """inbound control frames can never be matched with the stack's own broadcast sessions: those are keyed with 255 in the
    peer slot, so every effect of _process_tp_cm on the send-session table is dominated by `source address != 255`
    (or by a test that the matched session is not a broadcast)"""
    f = L.cm
    src = ("attr", ("p", "mid"), "source_address")
    n = 0
    seen = {}
    for r in runs(ctx, f):
        for i, e in r.effects():
            touched = None
            if e.kind in ("store", "aug", "del") and root_field(e.target) == "_snd_buffer":
                touched = e.target
            if touched is None:
                continue
            gl = lits(r.guards(i))
            ok = False
            rel = [(g, p) for g, p in gl if contains(g, src)]
            if rel:
                try:
                    ok = G.implies(G.conj(rel), mk_not(mk_cmp("==", src, ("c", 255))))[0]
                except AnalysisError:
                    ok = False
            for g, p in gl:
                if g[0] == "cmp" and g[1] == "==" and not p:
                    # per-session test: matched entry's dest_address != GLOBAL
                    for x, y in ((g[2], g[3]), (g[3], g[2])):
                        if y == ("c", 255) and x[0] == "sub" and x[2] == ("c", "dest_address") and root_field(x) == "_snd_buffer":
                            ok = True
            lab = _ctl_label(L, gl)
            key = "%s %s arm: send-session effect only for a legal peer" % (L.tag, lab)
            if ok:
                seen.setdefault(key, None)
            elif seen.get(key) is None:
                seen[key] = e.node
    for key, bad in sorted(seen.items()):
        if bad is None:
            ctx.holds(rule, key)
        else:
            ctx.violated(rule, f, key, "a control frame from source address 255 addressed to this ECU computes the key of the ECU's own broadcast session "
                         "(255 is its peer) and this path then modifies / finishes that session: the broadcast is cut short and, on J1939-22, its "
                         "number is returned to the wrong pool (BAM capacity lost for good)", bad)
    if not seen:
        ctx.unknown(rule, "no effect of %s on the send-session table found" % f.qual)


def _ctl_label(L, gl):
    for g, p in gl:
        if p and g[0] == "cmp" and g[1] == "==" and is_const(g[2]) != is_const(g[3]) and contains(g, ("sub", ("p", "data"), ("c", 0))):
            v = cval(g[2]) if is_const(g[2]) else cval(g[3])
            return str(([k for k, c in L.ctl.items() if c == v] or [v])[0])
    return "?"


# --------------------------------------------------------------------------- R-LOOP-PROGRESS
_PURE = {"len", "int", "min", "max", "abs", "bool", "range", "isinstance", "bytes", "bytearray", "list", "tuple", "hex", "ceil", "floor"}
_MUTATORS = {"append", "pop", "insert", "extend", "remove", "clear", "popleft", "update", "setdefault", "sort", "reverse", "discard", "add"}


def _root(n):
    """root name of an access path: Name id, or 'self.<attr>' for self attributes"""
    while isinstance(n, (ast.Subscript, ast.Attribute)):
        if isinstance(n, ast.Attribute) and isinstance(n.value, ast.Name) and n.value.id == "self":
            return "self." + n.attr
        n = n.value
    return n.id if isinstance(n, ast.Name) else None


def _reads(expr):
    """(names read, impure?) of a condition"""
    out, impure = set(), False
    for n in ast.walk(expr):
        if isinstance(n, ast.Name):
            out.add(n.id)
        if isinstance(n, ast.Attribute) and isinstance(n.value, ast.Name) and n.value.id == "self":
            out.add("self." + n.attr)
        if isinstance(n, ast.Call):
            fn = n.func
            name = fn.id if isinstance(fn, ast.Name) else fn.attr if isinstance(fn, ast.Attribute) else None
            if name not in _PURE:
                impure = True
    out.discard("self")
    out -= _PURE
    return out, impure


def _writes(node):
    """names (roots) a statement / expression can modify"""
    out = set()
    for n in ast.walk(node):
        tg = []
        if isinstance(n, ast.Assign):
            tg = n.targets
        elif isinstance(n, (ast.AugAssign, ast.AnnAssign)):
            tg = [n.target]
        elif isinstance(n, ast.Delete):
            tg = n.targets
        elif isinstance(n, (ast.For, ast.comprehension)):
            tg = [n.target]
        elif isinstance(n, ast.NamedExpr):
            tg = [n.target]
        elif isinstance(n, ast.withitem) and n.optional_vars is not None:
            tg = [n.optional_vars]
        for t in tg:
            for el in (t.elts if isinstance(t, (ast.Tuple, ast.List)) else [t]):
                r = _root(el)
                if r:
                    out.add(r)
        if isinstance(n, ast.Call) and isinstance(n.func, ast.Attribute):
            if n.func.attr in _MUTATORS:
                r = _root(n.func.value)
                if r:
                    out.add(r)
            if isinstance(n.func.value, ast.Name) and n.func.value.id == "self":
                out.add("self.*")       # a method of this object may modify any of its fields
        if isinstance(n, ast.Call):
            # an unknown callee may modify the objects it is handed (logging and printing do not)
            fn = n.func
            name = fn.id if isinstance(fn, ast.Name) else fn.attr if isinstance(fn, ast.Attribute) else None
            recv = fn.value.id if isinstance(fn, ast.Attribute) and isinstance(fn.value, ast.Name) else None
            if name not in _PURE and name != "print" and recv not in ("logger", "logging") and name not in ("copy",):
                for a in list(n.args) + [k.value for k in n.keywords]:
                    if isinstance(a, (ast.Name, ast.Attribute, ast.Subscript)):
                        r = _root(a)
                        if r:
                            out.add(r)
    return out


def loop_progress(ctx, classes, rule="R-LOOP-PROGRESS"):
    """every way round a `while` loop changes something its exit tests read (loops whose exit depends on a clock, queue
    or other external call are exempt): otherwise one frame / one expiry makes the thread spin forever"""
    from sa.paths import Enumerator
    P = ctx.prog
    n = 0
    for cname in classes:
        c = P.cls(cname)
        for fn in sorted(c.methods.values(), key=lambda f: f.node.lineno):
            loops = [x for x in ast.walk(fn.node) if isinstance(x, ast.While)]
            for k, lp in enumerate(sorted(loops, key=lambda x: x.lineno)):
                n += 1
                inst = "%s.%s while-loop #%d [%s]" % (cname, fn.name, k, ast.unparse(lp.test)[:50])
                exit_tests = [lp.test]
                for x in ast.walk(lp):
                    # every branch test inside the loop can decide whether the round ends in break / return or comes round again
                    if isinstance(x, (ast.If, ast.IfExp)) or (isinstance(x, ast.While) and x is not lp):
                        exit_tests.append(x.test)
                reads, impure = set(), False
                for t in exit_tests:
                    r_, i_ = _reads(t)
                    reads |= r_
                    impure |= i_
                if impure:
                    ctx.holds(rule, inst, "exempt: an exit test calls into external state (clock / queue / event)")
                    continue
                # values the exit tests depend on indirectly: locals assigned in the loop from other names (one step is enough here)
                changed = True
                while changed:
                    changed = False
                    for x in ast.walk(lp):
                        if isinstance(x, ast.Assign) and any(_root(t) in reads for t in x.targets):
                            r_, i_ = _reads(x.value)
                            if i_:
                                impure = True
                            if not r_ <= reads:
                                reads |= r_
                                changed = True
                if impure:
                    ctx.holds(rule, inst, "exempt: an exit test depends on a value read from external state")
                    continue
                try:
                    paths = Enumerator(unroll=1, summarize_pad=False, prog=None, cls=None, inline=False).block(lp.body)
                except AnalysisError as ex:
                    ctx.unknown(rule, "%s: %s" % (inst, ex))
                    continue
                bad = None
                for p in paths:
                    if p.term not in ("fall", "continue"):
                        continue
                    # dep[x] = round-entry values the current value of x is computed from ('!' = an external call); a name is
                    # CHANGED by the round if it is (re)computed from its own entry value, from an external call, or from a changed
                    # name; containers written in place, augmented assignments and deletions always count as changed
                    dep, hard = {}, set()

                    def deps_of(expr):
                        r_, i_ = _reads(expr)
                        out = {"!"} if i_ else set()
                        for nm in r_:
                            out |= dep.get(nm, {nm})
                        return out
                    for ev in p.events:
                        nd = ev.node
                        if not isinstance(nd, ast.AST):
                            continue
                        if ev.kind == "for" and isinstance(nd, ast.For):
                            r = _root(nd.target)
                            if r:
                                hard.add(r)
                            continue
                        if ev.kind not in ("stmt", "cond"):
                            continue
                        if isinstance(nd, ast.Assign) and all(isinstance(t, ast.Name) for t in nd.targets):
                            d_ = deps_of(nd.value)
                            for t in nd.targets:
                                dep[t.id] = d_
                            hard |= _writes(nd.value)
                            continue
                        hard |= _writes(nd)
                    w = set(hard)
                    grew = True
                    while grew:
                        grew = False
                        for x, d_ in dep.items():
                            if x in w:
                                continue
                            if x in d_ or "!" in d_ or (d_ & w) or ("self.*" in w and any(y.startswith("self.") for y in d_)):
                                w.add(x)
                                grew = True
                    # loop variables that only feed themselves back (x = f(x)) count, constants do not matter here
                    prog_ = (w & reads) or ("self.*" in w and any(r.startswith("self.") for r in reads))
                    if not prog_:
                        last = [ev.node for ev in p.events if isinstance(ev.node, ast.AST) and hasattr(ev.node, "lineno")]
                        bad = (last[-1] if last else lp, p.term)
                        break
                if bad:
                    ctx.violated(rule, fn, inst, "one way round the loop (ending in %s at line %d) changes none of %s, which is all the exit tests read: "
                                 "once taken, the loop never ends and the calling thread spins forever" % (
                                     "`continue`" if bad[1] == "continue" else "the end of the body", bad[0].lineno, sorted(reads)[:6]), bad[0])
                else:
                    ctx.holds(rule, inst)
    if n == 0:
        ctx.unknown(rule, "no while loops found in %s" % (classes,))


def pair_order(ctx, L, rule="R-PAIR-ORDER"):
    """state and deadline of a send session form a pair that the receive path updates together (state first, deadline second) and
    the job pass reads in the opposite order (deadline first, state second): whoever sees the new deadline also sees the new state.
    (a) the job scan samples `state` only after it has tested the deadline; (b) receive-path handlers that store both store the
    state first."""
    from .flow import scan_runs
    from .timing import _reached

    def reads_state(node):
        return any(isinstance(x, ast.Subscript) and isinstance(x.ctx, ast.Load) and isinstance(x.slice, ast.Constant) and x.slice.value == "state"
                   for x in ast.walk(node)) if isinstance(node, ast.AST) else False
    bad = None
    n = 0
    for r in scan_runs(ctx, L, "_snd_buffer"):
        E = _reached(r)
        if E is None:
            continue
        dl = sub(E, "deadline")
        idx_d = None
        idx_s = None
        for j, rec in enumerate(r.recs):
            if idx_d is None and rec.cond is not None and contains(rec.cond, dl) and any(x[0] == "cmp" and x[1] == "<" for x in walk(rec.cond)):
                idx_d = j
            if idx_s is None and rec.ev.kind in ("stmt", "cond") and reads_state(rec.ev.node):
                idx_s = j
        if idx_s is None or idx_d is None:
            continue
        n += 1
        if idx_s < idx_d and bad is None:
            bad = r.recs[idx_s].ev.node
    inst = "%s job scan reads the session's state only after the deadline test" % L.tag
    if n == 0:
        ctx.unknown(rule, "%s: no expiry path with a state dispatch found" % L.job.qual)
    elif bad is not None:
        ctx.violated(rule, L.job, inst, "the state is sampled before the deadline is tested: a CTS / acknowledgement handled in between updates both, and "
                     "this pass then acts on the OLD state with the NEW (already reached) deadline - e.g. the WAITING_CTS timeout aborts a healthy session", bad)
    else:
        ctx.holds(rule, inst)
    # (b) writers
    m = 0
    for f in (L.cm, L.dt):
        seen = set()
        for r in runs(ctx, f):
            st = [(i, e) for i, e in r.effects() if e.kind == "store" and e.target[0] == "sub" and e.target[2] == ("c", "state") and root_field(e.target) == "_snd_buffer"]
            for i, e in st:
                dls = [(j, x) for j, x in r.effects() if x.kind == "store" and x.target == sub(e.target[1], "deadline")]
                if not dls or id(e.node) in seen:
                    continue
                seen.add(id(e.node))
                m += 1
                inst = "%s %s [%s]: state stored before the deadline that makes the job thread look" % (L.tag, f.name, _ctl_label(L, lits(r.guards(i))))
                if any(j < i for j, _ in dls):
                    ctx.violated(rule, f, inst, "the new deadline is stored before the new state: the job thread can see the expired deadline while the "
                                 "state still names the previous phase", e.node)
                else:
                    ctx.holds(rule, inst)
    if m == 0:
        ctx.unknown(rule, "%s: no receive-path update of state and deadline found" % L.cls)


def _self_call_graph(cls):
    """method name -> names of the same-class methods it calls / takes as bound-method values (private names unmangled)"""
    g = {}
    for mn, m in cls.methods.items():
        out = set()
        for n in ast.walk(m.node):
            if isinstance(n, ast.Attribute) and isinstance(n.value, ast.Name) and n.value.id == "self" and isinstance(n.ctx, ast.Load) \
                    and n.attr in cls.methods:
                out.add(n.attr)
        g[mn] = out
    return g


def _reach(g, start):
    seen, todo = set(), [start]
    while todo:
        x = todo.pop()
        if x in seen:
            continue
        seen.add(x)
        todo.extend(g.get(x, ()))
    return seen


def scratch_own(ctx, L, rule="R-SCRATCH-OWN"):
    """methods that run both in the job thread and in the receive / application thread (the frame builders, above all) work on containers they
    create themselves.  A container kept in the object and rewritten element by element on each call is shared between the two threads:
    a pre-emption inside one call lets the other call overwrite the half-built content (a frame goes out with the other frame's bytes)."""
    cls = L.c
    g = _self_call_graph(cls)
    job = _reach(g, L.job.name)
    rcv = _reach(g, "notify") | _reach(g, "send_pgn")
    both = sorted((job & rcv) - {L.job.name, "notify", "send_pgn"})
    TABLES = {"_rcv_buffer", "_snd_buffer", "_multi_pg_snd_buffer", "_cas"}
    MUT = ("append", "extend", "insert", "clear", "pop", "remove", "update", "sort", "reverse")
    n = 0
    for mn in both:
        m = cls.methods[mn]
        alias = {}
        for x in ast.walk(m.node):
            if isinstance(x, ast.Assign) and isinstance(x.value, ast.Attribute) and isinstance(x.value.value, ast.Name) and x.value.value.id == "self":
                for t in x.targets:
                    if isinstance(t, ast.Name):
                        alias[t.id] = x.value.attr
        hits = []
        for x in ast.walk(m.node):
            base = None
            if isinstance(x, ast.Subscript) and isinstance(x.ctx, (ast.Store, ast.Del)):
                base = x.value
            elif isinstance(x, ast.Call) and isinstance(x.func, ast.Attribute) and x.func.attr in MUT:
                base = x.func.value
            if base is None:
                continue
            fld = None
            if isinstance(base, ast.Name) and base.id in alias:
                fld = alias[base.id]
            elif isinstance(base, ast.Attribute) and isinstance(base.value, ast.Name) and base.value.id == "self":
                fld = base.attr
            if fld is not None and fld not in TABLES and not fld.endswith("_session_list"):
                hits.append((fld, x))
        n += 1
        inst = "%s %s (job thread and receive path): builds its frame in containers of its own" % (L.tag, mn.lstrip("_"))
        if hits:
            ctx.violated(rule, m, inst, "the method rewrites self.%s in place on every call and runs in the job thread as well as in the receive / "
                         "application thread: a thread switch inside one call lets the other overwrite the half-built content, the frame that "
                         "goes out is a blend of two frames" % hits[0][0], hits[0][1])
        else:
            ctx.holds(rule, inst)
    if n == 0:
        ctx.unknown(rule, "%s: no method shared between the job thread and the receive path found" % L.cls)


def state_own(ctx, L, rule="R-STATE-OWN"):
    """per-stack bookkeeping (session tables, session-number pools, CA list) that is modified in place belongs to ONE stack object: the
    constructor creates it.  Bound to a class attribute or a module-level object instead, every stack in the process modifies the same
    container - one stack's sessions use up the other's capacity, and what a stopped stack held is never returned."""
    cls = L.c
    init = cls.methods.get("__init__")
    if init is None:
        raise AnalysisError("anchor vanished: %s.__init__" % L.cls)
    MUT = ("append", "extend", "insert", "clear", "pop", "remove", "update", "sort", "reverse", "add", "discard", "setdefault", "popitem")
    mutated = set()
    for m in cls.methods.values():
        al = {}
        for x in ast.walk(m.node):
            if isinstance(x, ast.Assign) and isinstance(x.value, ast.Attribute) and isinstance(x.value.value, ast.Name) and x.value.value.id == "self":
                for t in x.targets:
                    if isinstance(t, ast.Name):
                        al[t.id] = x.value.attr
        for x in ast.walk(m.node):
            base = None
            if isinstance(x, ast.Subscript) and isinstance(x.ctx, (ast.Store, ast.Del)):
                base = x.value
            elif isinstance(x, ast.Call) and isinstance(x.func, ast.Attribute) and x.func.attr in MUT:
                base = x.func.value
            while isinstance(base, ast.Subscript):
                base = base.value
            if isinstance(base, ast.Attribute) and isinstance(base.value, ast.Name) and base.value.id == "self":
                mutated.add(base.attr)
            elif isinstance(base, ast.Name) and base.id in al:
                mutated.add(al[base.id])
    class_level = {t.id for st in cls.node.body if isinstance(st, ast.Assign) for t in st.targets if isinstance(t, ast.Name)}
    mod_level = {t.id for st in ctx.prog.modules[cls.mod].body if isinstance(st, ast.Assign) for t in st.targets if isinstance(t, ast.Name)}
    n = 0
    pairs = []
    for x in ast.walk(init.node):
        if not isinstance(x, ast.Assign):
            continue
        for t in x.targets:
            if isinstance(t, ast.Tuple) and isinstance(x.value, ast.Tuple) and len(t.elts) == len(x.value.elts):
                pairs.extend((tt, vv, x) for tt, vv in zip(t.elts, x.value.elts))
            else:
                pairs.append((t, x.value, x))
    for t, v, x in pairs:
        if not (isinstance(t, ast.Attribute) and isinstance(t.value, ast.Name) and t.value.id == "self" and t.attr in mutated):
            continue
        fld = t.attr
        inst = "%s self.%s is created by the constructor" % (L.tag, fld.lstrip("_"))
        shared = None
        if isinstance(v, ast.Attribute) and isinstance(v.value, ast.Name) and v.value.id in ("self", "cls", L.cls, "type") and v.attr in class_level:
            shared = "the class attribute %s.%s" % (L.cls, v.attr)
        elif isinstance(v, ast.Attribute) and isinstance(v.value, ast.Call) and isinstance(v.value.func, ast.Name) and v.value.func.id == "type" \
                and v.attr in class_level:
            shared = "the class attribute %s.%s" % (L.cls, v.attr)
        elif isinstance(v, ast.Name) and v.id in mod_level:
            shared = "the module-level object %s" % v.id
        n += 1
        if shared:
            ctx.violated(rule, init, inst, "the constructor binds self.%s to %s, which the methods then modify in place: all %s objects of the "
                         "process share it (sessions of one stack occupy the other's session numbers / table entries; a stack stopped with open "
                         "sessions leaves them taken for every stack created later)" % (fld, shared, L.cls), x)
        else:
            ctx.holds(rule, inst)
    if n < 3:
        ctx.unknown(rule, "%s: constructor assignments of in-place modified fields not found (%d)" % (L.cls, n))
