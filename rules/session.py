"""Session-table rules: key roles, delivery guard, send ordering, segmentation constants."""
from sa.sym import (SELF, is_const, cval, pretty, walk, contains, root_field, is_heap_path, mk_cmp, mk_not, mk_bool,
                    mk_bin)
from sa.model import AnalysisError
from sa import guards as G
from .common import (mname, is_self_call, lensym, sub, field, affine, affine_eq, affine_diff, bind_args, runs, lits,
                     loc, LEN)
from .transport import GLOBAL

MID_SA = ("attr", ("p", "mid"), "source_address")
DEST = ("p", "dest_address")
TABLES = ("_rcv_buffer", "_snd_buffer")


def _fd_session_rx():
    d0 = ("sub", ("p", "data"), ("c", 0))
    return mk_bin("&", mk_bin(">>", d0, ("c", 4)), ("c", 15))


def _table_accesses(run, tables=TABLES):
    """[(table, key Sym, node line)] for every keyed access / membership test on a run"""
    out = []
    seen = set()

    def scan(s, line):
        for x in walk(s):
            if x[0] == "sub" and x[1][0] == "attr" and x[1][1] == SELF and x[1][2] in tables:
                k = (x[1][2], x[2])
                if k not in seen:
                    seen.add(k)
                    out.append((x[1][2], x[2], line))
            if x[0] == "cmp" and x[1] == "in" and x[3][0] == "attr" and x[3][1] == SELF and x[3][2] in tables:
                k = (x[3][2], x[2])
                if k not in seen:
                    seen.add(k)
                    out.append((x[3][2], x[2], line))
    for rec in run.recs:
        if rec.cond is not None:
            scan(rec.cond, rec.line)
        for e in rec.effects:
            if e.target is not None:
                scan(e.target, e.line)
            if isinstance(e.value, tuple):
                scan(e.value, e.line)
    return out


def key_role(ctx, L, rule="R-KEY-ROLE"):
    """every keyed access uses _buffer_hash(originator, responder) with the roles the table implies"""
    def hcall(*args):
        return ("call", ("attr", SELF, "_buffer_hash"), tuple(args), ())
    sess = (_fd_session_rx(),) if L.fd else ()
    n = 0
    for f in (L.cm, L.dt):
        want = {"_rcv_buffer": hcall(*sess, MID_SA, DEST), "_snd_buffer": hcall(*sess, DEST, MID_SA)}
        seen = set()
        for r in runs(ctx, f):
            for table, key, line in _table_accesses(r):
                if (table, key) in seen:
                    continue
                seen.add((table, key))
                n += 1
                inst = "%s %s key of %s: %s" % (L.tag, f.name, table, pretty(key))
                if key == want[table]:
                    ctx.holds(rule, "%s %s keys %s by (originator, responder)" % (L.tag, f.name, table))
                else:
                    ctx.violated(rule, f, inst, "table %s is accessed with key %s; the frame's roles require %s" % (
                        table, pretty(key), pretty(want[table])), type("N", (), {"lineno": line})())
    # send_pgn
    f = L.send_pgn
    seen = set()
    for r in runs(ctx, f):
        if r.term == "cut":
            continue
        bam = bool(L.calls(r, "__send_tp_bam"))
        for table, key, line in _table_accesses(r):
            if (table, key, bam) in seen:
                continue
            seen.add((table, key, bam))
            n += 1
            ok = table == "_snd_buffer" and key[0] == "call" and is_self_call(key, "_buffer_hash")
            if ok:
                a = key[2]
                if L.fd:
                    ok = len(a) == 3 and a[0][0] == "call" and is_self_call(a[0]) and mname(a[0]) in (
                        "__get_bam_session", "__get_rts_cts_session") and a[1] == ("p", "src_address")
                    dst = a[2] if len(a) == 3 else None
                else:
                    ok = len(a) == 2 and a[0] == ("p", "src_address")
                    dst = a[1] if len(a) == 2 else None
                from .common import ife_alts
                ok = ok and dst is not None and all(a in (GLOBAL, ("p", "pdu_specific")) for a in ife_alts(dst))
                if ok and (L.calls(r, "__send_tp_bam") or L.calls(r, "__send_tp_rts")):
                    from .common import resolve_under
                    ok = resolve_under(dst, G.conj(r.guards())) == (GLOBAL if bam else ("p", "pdu_specific"))
            inst = "%s send_pgn key of %s: %s" % (L.tag, table, pretty(key))
            if ok:
                ctx.holds(rule, "%s send_pgn keys _snd_buffer by (src_address, destination)%s" % (L.tag, " BAM" if bam else ""))
            else:
                ctx.violated(rule, f, inst, "send session keyed by %s, expected _buffer_hash(%ssrc_address, destination)" % (
                    pretty(key), "session, " if L.fd else ""), type("N", (), {"lineno": line})())
    # job thread: keys are the iteration variable over a snapshot of the same table
    f = L.job
    seen = set()
    for r in runs(ctx, f):
        for table, key, line in _table_accesses(r, TABLES + ("_multi_pg_snd_buffer",)):
            if (table, key) in seen:
                continue
            seen.add((table, key))
            n += 1
            src = key[1] if key[0] == "iter" else None
            if src is None and key[0] == "sub" and key[1][0] == "call" and key[1][1] in (("glob", "list"), ("glob", "sorted")):
                src = key[1]      # an element of a snapshot of the keys, picked by index (index loop over the snapshot)
            if src is not None and src[0] == "call" and src[1] == ("glob", "list") and src[2]:
                src = src[2][0]
            if src is not None and src[0] == "call" and src[1][0] == "attr" and src[1][2] == "keys":
                src = src[1][1]
            if src == field(table):
                ctx.holds(rule, "%s job scan of %s uses its own keys" % (L.tag, table))
            else:
                ctx.violated(rule, f, "%s job key of %s: %s" % (L.tag, table, pretty(key)),
                             "job thread accesses %s with a key that does not come from that table" % table,
                             type("N", (), {"lineno": line})())
    if n < 6:
        ctx.unknown(rule, "only %d keyed accesses found in %s" % (n, L.cls))


# --------------------------------------------------------------------------- R-DELIVER-GUARD
def deliver_guard(ctx, L, rule="R-DELIVER-GUARD"):
    """reassembly delivery: complete -> truncate -> exactly once -> remove -> ack iff destination-specific"""
    if L.fd:
        return _deliver_guard_fd(ctx, L, rule)
    f = L.dt
    key = ("call", ("attr", SELF, "_buffer_hash"), (MID_SA, DEST), ())
    E = ("sub", field("_rcv_buffer"), key)
    Pd, Ps = sub(E, "data"), sub(E, "message_size")
    incomplete = mk_cmp("<", lensym(Pd), Ps)
    n = 0
    appended_runs = 0
    for r in runs(ctx, f):
        ext = [(i, e) for i, e in r.effects() if e.kind == "call" and e.value[1] == ("attr", Pd, "extend")]
        notes = [(i, e) for i, e in r.effects() if L.is_notify(f, e)]
        if ext:
            appended_runs += 1
            a = ext[0][1].value[2]
            want = ("sub", ("p", "data"), ("slice", ("c", 1), None, None))
            if len(a) != 1 or a[0] != want:
                ctx.violated(rule, f, "21 DT payload appended", "reassembly appends %s, expected data[1:] (all bytes after the sequence number)" % (
                    pretty(a[0]) if a else "?"), ext[0][1].node)
            else:
                ctx.holds(rule, "21 DT handler appends data[1:] to the session keyed by the frame")
        if not notes:
            if ext:
                # a path that appended data and does not deliver must be the incomplete one
                F = G.conj(r.guards())
                ok, cex = G.implies(F, incomplete)
                if not ok:
                    ctx.violated(rule, f, "21 non-delivery path", "a complete reassembly is not delivered on some path (counterexample %s)" % cex,
                                 ext[0][1].node, witness=cex)
            continue
        n += 1
        i, e = notes[0]
        inst = "21 delivery in _process_tp_dt"
        if not ext or ext[0][0] > i:
            ctx.violated(rule, f, inst + " (append)", "delivery is not preceded by the append of this frame's data", e.node)
        F = G.conj(r.guards(i))
        ok, cex = G.implies(F, mk_not(incomplete))
        if not ok:
            ctx.violated(rule, f, inst + " (complete)", "delivery is not dominated by len(received) >= announced size; counterexample %s" % cex,
                         e.node, witness=cex)
        if len(notes) != 1:
            ctx.violated(rule, f, inst + " (once)", "%d fan-out calls on one delivery path" % len(notes), e.node)
        a = bind_args(e.value, ctx.prog.func("ElectronicControlUnit", "_notify_subscribers"))
        trunc = ("sub", Pd, ("slice", None, Ps, None))
        if a.get("data") != trunc:
            ctx.violated(rule, f, inst + " (truncate)", "delivered payload is %s, expected the buffer truncated to the announced size %s" % (
                pretty(a.get("data")), pretty(trunc)), e.node)
        if a.get("pgn") != sub(E, "pgn") or a.get("sa") != MID_SA or a.get("dest") != DEST:
            ctx.violated(rule, f, inst + " (identity)", "delivered (pgn, sa, dest) = (%s, %s, %s)" % (
                pretty(a.get("pgn")), pretty(a.get("sa")), pretty(a.get("dest"))), e.node)
        dels = [(j, x) for j, x in r.effects() if x.kind == "del" and x.target == E]
        if not dels:
            ctx.violated(rule, f, inst + " (remove)", "the session is not removed on the delivery path", e.node)
        acks = L.calls(r, "__send_tp_eom_ack")
        specific = any(g == mk_cmp("==", DEST, GLOBAL) and not p for g, p in lits(r.guards()))
        glob = any(g == mk_cmp("==", DEST, GLOBAL) and p for g, p in lits(r.guards()))
        if specific and len(acks) != 1:
            ctx.violated(rule, f, inst + " (ack)", "destination-specific transfer completed without exactly one EndOfMsgACK", e.node)
        elif glob and acks:
            ctx.violated(rule, f, inst + " (ack)", "EndOfMsgACK sent for a broadcast", e.node)
        elif not specific and not glob:
            ctx.violated(rule, f, inst + " (ack)", "EndOfMsgACK is not conditioned on dest != GLOBAL", e.node)
        if acks:
            b = bind_args(acks[0][1].value, L.builder("__send_tp_eom_ack"))
            want = {"src_address": DEST, "dest_address": MID_SA, "message_size": Ps, "num_packets": sub(E, "num_packages"),
                    "pgn_value": sub(E, "pgn")}
            bad = {k: pretty(b.get(k)) for k, v in want.items() if b.get(k) != v}
            if bad:
                ctx.violated(rule, f, inst + " (ack fields)", "EndOfMsgACK fields differ from the session's: %s" % bad, acks[0][1].node)
        if not any(x.rule == rule and x.where == f.qual for x in ctx.findings):
            ctx.holds(rule, inst + (" [destination-specific]" if specific else " [broadcast]"))
    if n < 2 or appended_runs < 3:
        ctx.unknown(rule, "delivery paths not found in %s (deliveries=%d, appending paths=%d)" % (f.qual, n, appended_runs))


def _deliver_guard_fd(ctx, L, rule):
    f = L.cm
    sess = _fd_session_rx()
    key = ("call", ("attr", SELF, "_buffer_hash"), (sess, MID_SA, DEST), ())
    E = ("sub", field("_rcv_buffer"), key)
    Pd, Ps, Pn = sub(E, "data"), sub(E, "message_size"), sub(E, "num_segments")
    eom = L.const("ctl", "EOM_STATUS")
    n = 0
    for r in runs(ctx, f):
        notes = [(i, e) for i, e in r.effects() if L.is_notify(f, e)]
        in_eom = any(p and g[0] == "cmp" and g[1] == "==" and ("c", eom) in (g[2], g[3]) and any(
            contains(x, ("p", "data")) for x in (g[2], g[3])) for g, p in lits(r.guards()))
        if not in_eom:
            continue
        if not notes:
            continue
        n += 1
        i, e = notes[0]
        inst = "22 delivery on EOM status"
        F = G.conj(r.guards(i))
        # (a) announced sizes agree
        size_f = [x for x in walk(("tuple", tuple(g for g, _ in r.guards(i)))) if x[0] == "cmp" and x[1] == "==" and Ps in (x[2], x[3])]
        seg_f = [x for x in walk(("tuple", tuple(g for g, _ in r.guards(i)))) if x[0] == "cmp" and x[1] == "==" and Pn in (x[2], x[3])]
        ok_a = bool(size_f) and bool(seg_f) and G.implies(F, mk_bool("and", [size_f[0], seg_f[0]]))[0]
        if not ok_a:
            ctx.violated(rule, f, inst + " (announced)", "delivery is not dominated by agreement of the EOM size and segment count with the announced ones", e.node)
        # (b) completion on the received byte count (or the segment counter) of this session
        comp = [x for x in walk(("tuple", tuple(g for g, _ in r.guards(i)))) if x[0] == "cmp" and (
            contains(x, lensym(Pd)) or contains(x, sub(E, "next_packet")))]
        ok_b = False
        for c in comp:
            if contains(c, lensym(Pd)):
                # must imply len >= message_size
                ok_b = ok_b or G.implies(F, mk_not(mk_cmp("<", lensym(Pd), Ps)))[0]
            else:
                # next_packet == num_segments + 1  (all segments were appended in order)
                want = mk_cmp("==", sub(E, "next_packet"), mk_bin("+", Pn, ("c", 1)))
                d = affine_diff(sub(E, "next_packet"), Pn)
                ok_b = ok_b or G.implies(F, want)[0] or G.implies(F, mk_not(mk_cmp("<", mk_bin("-", sub(E, "next_packet"), ("c", 1)), Pn)))[0] \
                    or G.implies(F, mk_cmp("<", Pn, sub(E, "next_packet")))[0]
        if not ok_b:
            ctx.violated(rule, f, inst + " (complete)",
                         "delivery is guarded only by the sizes the peer announces, not by what was received: with one FD.TP.DT lost the "
                         "shorter buffer is delivered", e.node)
        if len(notes) != 1:
            ctx.violated(rule, f, inst + " (once)", "%d fan-out calls on the delivery path" % len(notes), e.node)
        a = bind_args(e.value, ctx.prog.func("ElectronicControlUnit", "_notify_subscribers"))
        if a.get("data") not in (Pd, ("sub", Pd, ("slice", None, Ps, None))):
            ctx.violated(rule, f, inst + " (payload)", "delivered payload is %s" % pretty(a.get("data")), e.node)
        if a.get("pgn") != sub(E, "pgn") or a.get("sa") != MID_SA or a.get("dest") != DEST:
            ctx.violated(rule, f, inst + " (identity)", "delivered (pgn, sa, dest) = (%s, %s, %s)" % (
                pretty(a.get("pgn")), pretty(a.get("sa")), pretty(a.get("dest"))), e.node)
        if not any(x.kind == "del" and x.target == E for _, x in r.effects()):
            ctx.violated(rule, f, inst + " (remove)", "the session is not removed on the delivery path", e.node)
        acks = L.calls(r, "__send_tp_eom_ack")
        specific = any(g == mk_cmp("==", DEST, GLOBAL) and not p for g, p in lits(r.guards()))
        glob = any(g == mk_cmp("==", DEST, GLOBAL) and p for g, p in lits(r.guards()))
        if (specific and len(acks) != 1) or (glob and acks) or (not specific and not glob):
            ctx.violated(rule, f, inst + " (ack)", "EOM-ack must be sent exactly when dest != GLOBAL", e.node)
        if not any(x.rule == rule and x.where == f.qual for x in ctx.findings):
            ctx.holds(rule, inst + (" [destination-specific]" if specific else " [broadcast]"))
    # converse: a reassembly that holds exactly the announced number of bytes IS delivered - the completion test must not demand more
    for r in runs(ctx, f):
        if r.term in ("raise", "exc") or not any(L.is_notify(f, e) for _, e in r.effects()):
            continue
        if any(g == mk_cmp("<", Ps, lensym(Pd)) and p is True for g, p in lits(r.guards())):
            ctx.violated(rule, f, "22 delivery on EOM status (complete <=> delivered)", "delivery demands MORE bytes than announced (%s): a reassembly of exactly "
                         "the announced size - every correct transfer, after truncation - is never delivered" % pretty(mk_cmp("<", Ps, lensym(Pd)))[:80],
                         r.recs[-1].ev.node)
            break
    if n < 2:
        ctx.unknown(rule, "EOM-status delivery paths not found in %s (%d)" % (f.qual, n))
    # the last segment is padded to a legal frame length: the reassembly is cut to the announced size - at the latest where it is delivered
    delivered_whole = any(bind_args(e.value, ctx.prog.func("ElectronicControlUnit", "_notify_subscribers")).get("data") == Pd
                          for r in runs(ctx, f) for _, e in r.effects() if L.is_notify(f, e))
    if delivered_whole:
        trunc = ("sub", Pd, ("slice", None, Ps, None))
        cut = uncut = 0
        for r in runs(ctx, L.dt):
            if r.term in ("raise", "exc"):
                continue
            if not any(e.kind == "call" and e.value[1] == ("attr", Pd, "extend") for _, e in r.effects()):
                continue
            if not any(g == mk_cmp("<", lensym(Pd), Ps) and p is False for g, p in lits(r.guards())):
                continue
            if any(e.kind == "store" and e.target == Pd and e.value == trunc for _, e in r.effects()):
                cut += 1
            else:
                uncut += 1
        inst = "22 reassembly is cut to the announced size when complete (the padding of the last segment is not delivered)"
        if uncut:
            ctx.violated(rule, L.dt, inst, "the EOM-status handler delivers the buffer as it is, and the data handler completes it without cutting it to "
                         "message_size: the application gets the message followed by the 0xFF padding of the last segment", L.dt.node)
        elif cut:
            ctx.holds(rule, inst)
        else:
            ctx.unknown(rule, "%s: completing path of the data handler not found" % inst)
    # in-order append in the DT handler
    f = L.dt
    m = 0
    for r in runs(ctx, f):
        ext = [(i, e) for i, e in r.effects() if e.kind == "call" and e.value[1] == ("attr", Pd, "extend")]
        if not ext:
            continue
        m += 1
        i, e = ext[0]
        inst = "22 in-order append in _process_tp_dt"
        segnum = None
        F = G.conj(r.guards(i))
        exp = sub(E, "next_packet")
        eqs = [x for g, p in lits(r.guards(i)) for x in [g] if p and x[0] == "cmp" and x[1] == "==" and exp in (x[2], x[3])]
        if not eqs:
            ctx.violated(rule, f, inst, "data is appended without the test segment == next expected segment", e.node)
            continue
        segnum = eqs[0][2] if eqs[0][3] == exp else eqs[0][3]
        a = e.value[2]
        if len(a) != 1 or a[0] != ("sub", ("p", "data"), ("slice", ("c", 4), None, None)):
            ctx.violated(rule, f, inst + " (payload)", "appends %s, expected data[4:]" % (pretty(a[0]) if a else "?"), e.node)
        adv = [x for _, x in r.effects() if x.kind in ("store", "aug") and x.target == exp]
        okadv = False
        for x in adv:
            v = x.value if x.kind == "store" else mk_bin("+", exp, x.value)
            d1, d2 = affine_diff(v, segnum), affine_diff(v, exp)
            if (d1 is not None and d1 == ({}, 1)) or (d2 is not None and d2 == ({}, 1)):
                okadv = True
        if not okadv:
            ctx.violated(rule, f, inst + " (advance)", "next expected segment is not advanced by exactly 1 after an append", e.node)
        if not any(x.rule == rule and x.where == f.qual for x in ctx.findings):
            ctx.holds(rule, inst)
    if m < 2:
        ctx.unknown(rule, "append paths not found in %s" % f.qual)


# --------------------------------------------------------------------------- R-ORDER-SEND (J1939-21)
def order_send(ctx, L, rule="R-ORDER-SEND"):
    """state is advanced before RTS / connection-mode DT are handed to the bus"""
    f = L.job
    st = L.const("state", "SENDING_RTS_CTS" if L.fd else "SENDING_IN_CTS")
    n = 0
    done = set()
    for r in runs(ctx, f):
        for i, e in L.calls(r, "__send_tp_dt"):
            gl = lits(r.guards(i))
            if not any(p and g[0] == "cmp" and g[1] == "==" and ("c", st) in (g[2], g[3]) for g, p in gl):
                continue
            # session entry path = base of the state comparison
            ent = [x for g, p in gl if p and g[0] == "cmp" and g[1] == "==" and ("c", st) in (g[2], g[3]) for x in (g[2], g[3]) if x[0] == "sub"]
            if not ent:
                continue
            E = ent[0][1]
            # writes after the send within the same loop iteration (up to the next loop test on this path)
            late = []
            for j in range(i + 1, len(r.recs)):
                rec = r.recs[j]
                if rec.ev.kind == "for":
                    break
                for x in rec.effects:
                    if x.kind in ("store", "aug", "del") and (x.target == E or contains(x.target, E)):
                        late.append(x)
            n += 1
            inst = "%s connection-mode DT send" % L.tag
            if late:
                if id(e.node) not in done:
                    ctx.violated(rule, f, inst, "session state is written after the DT frame is handed to the bus (%s at line %s): a reply "
                                 "processed inside the send call sees stale state and is then overwritten" % (
                                     pretty(late[0].target), late[0].line), e.node)
            else:
                ctx.holds(rule, inst + ": no session write follows the send in its iteration")
            done.add(id(e.node))
    f = L.send_pgn
    for r in runs(ctx, f):
        for i, e in L.calls(r, "__send_tp_rts"):
            n += 1
            created = [j for j, x in r.effects() if x.kind == "store" and x.target[0] == "sub" and x.target[1] == field("_snd_buffer") and j < i]
            if created:
                ctx.holds(rule, "%s RTS send is preceded by the creation of the send session" % L.tag)
            else:
                ctx.violated(rule, f, "%s RTS send" % L.tag, "RTS is handed to the bus before the send session exists: an immediate CTS finds no session", e.node)
    if n < 2:
        ctx.unknown(rule, "send sites not found (%d)" % n)


# --------------------------------------------------------------------------- R-SEG-CONST / R-SEQ-BASE (J1939-21)
def _chunk(data_sym):
    """decompose the DT payload Sym: -> dict(seq=, src=, start=, trunc=K|None, pad=(K, byte)|None) or None"""
    if data_sym[0] != "cat" or len(data_sym[1]) != 2 or data_sym[1][0][0] != "list" or len(data_sym[1][0][1]) != 1:
        if data_sym[0] == "list":
            return None
        return None
    seq = data_sym[1][0][1][0]
    body = data_sym[1][1]
    out = {"seq": seq, "pad": None, "trunc": None}
    if body[0] == "pad":
        out["pad"] = (body[2], body[3])
        body = body[1]
    # body: D[start:][:K]  |  D[start:start+K]  |  D[start:]
    if body[0] == "sub" and body[2][0] == "slice":
        lo, hi = body[2][1], body[2][2]
        inner = body[1]
        if lo is None and hi is not None and inner[0] == "sub" and inner[2][0] == "slice" and inner[2][2] is None:
            out.update(src=inner[1], start=inner[2][1], trunc=hi, rest=inner)
            return out
        if lo is not None and hi is not None:
            d = affine_diff(hi, lo)
            if d is not None and not d[0]:
                out.update(src=inner, start=lo, trunc=("c", int(d[1])), rest=None)
                return out
        if lo is not None and hi is None:
            out.update(src=inner, start=lo, trunc=None, rest=body)
            return out
    return None


def seg_const(ctx, L, rule="R-SEG-CONST", rule_seq="R-SEQ-BASE"):
    """DT packets: offset = 7*index, 7 data bytes (truncate or pad with 0xFF), sequence = index+1"""
    f = L.job
    K = L.seg
    found = {}
    for r in runs(ctx, f):
        for i, e in L.calls(r, "__send_tp_dt"):
            gl = lits(r.guards(i))
            mode = None
            for name in ("SENDING_IN_CTS", "SENDING_BM"):
                v = L.const("state", name)
                if any(p and g[0] == "cmp" and g[1] == "==" and ("c", v) in (g[2], g[3]) for g, p in gl):
                    mode = name
            if mode is None:
                continue
            a = bind_args(e.value, L.builder("__send_tp_dt"))
            ch = _chunk(a.get("data", ("c", None)))
            inst = "21 %s packetiser" % mode
            if ch is None:
                ctx.unknown(rule, "%s: DT payload %s not recognised as [seq] ++ chunk at %s" % (inst, pretty(a.get("data"))[:120], loc(f, e.node)))
                continue
            # entry and pre-increment index
            ent = [x for g, p in gl if p and g[0] == "cmp" and g[1] == "==" for x in (g[2], g[3]) if x[0] == "sub" and x[2] == ("c", "state")]
            E = ent[0][1] if ent else None
            idx = sub(E, "next_packet_to_send") if E else None
            key = (mode, "pad" if ch["pad"] else "trunc")
            problems = []
            if E is None or ch["src"] != sub(E, "data"):
                problems.append("payload source is %s, not the session's data" % pretty(ch["src"]))
            d = affine_diff(ch["start"], mk_bin("*", idx, ("c", K))) if idx else None
            if d is None or d != ({}, 0):
                problems.append("offset is %s, expected %d * packet index" % (pretty(ch["start"]), K))
            iv = G.intervals(r.guards(i))
            ln = lensym(ch["rest"]) if ch.get("rest") is not None else None
            if ch["pad"]:
                if ch["pad"][0] != ("c", K):
                    problems.append("padded to %s bytes, expected %d" % (pretty(ch["pad"][0]), K))
                if ch["pad"][1] != ("c", 255):
                    problems.append("pad byte is %s, expected 0xFF" % pretty(ch["pad"][1]))
                if ch["trunc"] is None:
                    hi = iv.get(ln, [None, None])[1] if ln else None
                    if hi is None or hi > K:
                        problems.append("un-truncated chunk may be longer than %d bytes on the padding path (len <= %s)" % (K, hi))
                elif ch["trunc"] != ("c", K):
                    problems.append("chunk truncated to %s, expected %d" % (pretty(ch["trunc"]), K))
            else:
                if ch["trunc"] != ("c", K):
                    problems.append("chunk truncated to %s, expected %d" % (pretty(ch["trunc"]) if ch["trunc"] else None, K))
                lo = iv.get(ln, [None, None])[0] if ln else None
                if ch.get("rest") is not None and (lo is None or lo < K):
                    problems.append("truncating path is taken for chunks shorter than %d (len >= %s) which then go out unpadded" % (K, lo))
            if problems:
                ctx.violated(rule, f, inst + (" (pad path)" if ch["pad"] else " (truncate path)"), "; ".join(problems), e.node)
            else:
                ctx.holds(rule, inst + (" pad path" if ch["pad"] else " truncate path"))
            found[key] = True
            # sequence number = pre-increment index + 1
            d = affine_diff(ch["seq"], idx) if idx else None
            if d is not None and d == ({}, 1):
                ctx.holds(rule_seq, inst + " sequence number = packet index + 1")
            else:
                ctx.violated(rule_seq, f, inst + " sequence", "sequence byte is %s, expected (index of this packet) + 1" % pretty(ch["seq"]), e.node)
            # the index is advanced by exactly one per packet
            adv = [x for _, x in r.effects() if x.kind in ("aug", "store") and x.target == idx]
            if not adv:
                ctx.violated(rule_seq, f, inst + " advance", "packet index is not advanced on the send path", e.node)
    for mode in ("SENDING_IN_CTS", "SENDING_BM"):
        if not any(m == mode for m, _ in found):
            ctx.unknown(rule, "21 %s packetiser: no DT send path recognised" % mode)


def refresh(ctx, L, rule="R-REFRESH"):
    """every data packet that is appended without completing the message re-arms the session's deadline"""
    from .flow import TIME, RxNames
    N = RxNames(L)
    E = N.E
    Pd = sub(E, "data")
    f = L.dt
    n = 0
    for r in runs(ctx, f):
        ext = [(i, e) for i, e in r.effects() if e.kind == "call" and e.value[1] == ("attr", Pd, "extend")]
        if not ext:
            continue
        complete = any((not p) and g == mk_cmp("<", lensym(Pd), sub(E, "message_size")) for g, p in lits(r.guards()))
        if complete:
            continue
        n += 1
        st = [e for i, e in r.effects() if e.kind == "store" and e.target == sub(E, "deadline") and i >= ext[0][0]]
        cts = bool(L.calls(r, "__send_tp_cts"))
        inst = "%s DT appended, message incomplete%s: deadline re-armed" % (L.tag, " (CTS sent)" if cts else "")
        ok = False
        for e in st:
            d = affine_diff(e.value, TIME)
            if d is not None and not d[0] and 0 < float(d[1]) <= 1.25 + 1e-9:
                ok = True
        if ok:
            ctx.holds(rule, inst)
        else:
            ctx.violated(rule, f, inst, "a received data packet does not push the session's deadline forward: a transfer that takes longer than the "
                         "timeout armed at its start (long BAM, many windows) is cut off although packets keep arriving", ext[0][1].node)
    if n < 2:
        ctx.unknown(rule, "incomplete-append paths not found in %s (%d)" % (f.qual, n))


def bam_fresh(ctx, L, rule="R-BAM-FRESH"):
    """a broadcast announcement that meets an unfinished receive session under the same key never leaves that session's
    collected data in place (the announcement's data packets cannot be told apart from the old ones)"""
    from .common import lits
    f = L.cm
    bam = L.ctl.get("BAM")
    n = 0
    seen = {}
    for r in runs(ctx, f):
        gl = lits(r.guards())
        if not any(p and g[0] == "cmp" and g[1] == "==" and ("c", bam) in (g[2], g[3]) and contains(g, ("sub", ("p", "data"), ("c", 0))) for g, p in gl):
            continue
        busy = [g for g, p in gl if p and g[0] == "cmp" and g[1] == "in" and g[3] == ("attr", SELF, "_rcv_buffer")]
        if not busy:
            continue
        key = busy[0][2]
        E = ("sub", ("attr", SELF, "_rcv_buffer"), key)
        n += 1
        gone = any((e.kind == "del" and e.target == E) or (e.kind == "store" and e.target == E and e.value[0] == "dict") or
                   (e.kind == "call" and mname(e.value) == "pop" and e.value[1][1] == ("attr", SELF, "_rcv_buffer") and e.value[2][:1] == (key,))
                   for _, e in r.effects())
        inst = "%s BAM announcement meeting an open receive session: the old session is dropped or replaced" % L.tag
        if gone:
            seen.setdefault(inst, None)
        elif seen.get(inst) is None:
            seen[inst] = r.recs[-1].ev.node if r.recs else f.node
    for inst, bad in seen.items():
        if bad is None:
            ctx.holds(rule, inst)
        else:
            ctx.violated(rule, f, inst, "the half-filled session survives the new announcement: the data packets of the new broadcast carry the same source "
                         "(and session number) and are appended to the old data - the application is handed a mixture of two messages", bad)
    if n == 0:
        ctx.unknown(rule, "%s: no BAM path with an occupied receive key found" % f.qual)


def rts_accept(ctx, L, rule="R-RTS-ACCEPT"):
    """an incoming RTS is refused (abort BUSY, no session) only when the receive key of that very (session,) originator, responder
    triple is occupied - nothing else (own send sessions to the peer, other peers) may make the stack drop an accepted message"""
    from .common import lits
    f = L.cm
    rts = L.ctl.get("RTS")
    n = 0
    seen = {}
    for r in runs(ctx, f):
        gl = lits(r.guards())
        if not any(p and g[0] == "cmp" and g[1] == "==" and ("c", rts) in (g[2], g[3]) and contains(g, ("sub", ("p", "data"), ("c", 0))) for g, p in gl):
            continue
        created = any(e.kind == "store" and e.value[0] == "dict" and root_field(e.target) == "_rcv_buffer" for _, e in r.effects())
        aborts = L.calls(r, "__send_tp_abort")
        if created or not aborts:
            continue
        n += 1
        busy = [g for g, p in gl if p and g[0] == "cmp" and g[1] == "in" and g[3] == ("attr", SELF, "_rcv_buffer")]
        inst = "%s RTS refusal is conditioned on the occupied receive key alone" % L.tag
        if busy:
            seen.setdefault(inst, None)
        elif seen.get(inst) is None:
            seen[inst] = aborts[0][1].node
    # silent drops: an RTS that is neither accepted nor answered.  Decided where the dropping condition is a box over the announcement's
    # own fields: it must not contain a legal announcement (9..1785 bytes in 2..255 packets, any packets-per-CTS byte)
    if not L.fd:
        from sa import guards as _G
        from sa.sym import mk_bin
        d = lambda i: ("sub", ("p", "data"), ("c", i))
        size = mk_bin("|", d(1), mk_bin("<<", d(2), ("c", 8)))
        box = {size: (9, 1785), d(3): (2, 255), d(4): (1, 255), d(1): (0, 255), d(2): (0, 6)}
        inst = "%s RTS is never dropped silently for a legal announcement (9..1785 bytes, 2..255 packets)" % L.tag
        dropped = None
        for r in runs(ctx, f):
            gs = r.guards()
            gl = lits(gs)
            if not any(p and g[0] == "cmp" and g[1] == "==" and ("c", rts) in (g[2], g[3]) and contains(g, d(0)) for g, p in gl):
                continue
            if r.term in ("raise", "exc"):
                continue
            created = any(e.kind == "store" and e.value[0] == "dict" and root_field(e.target) == "_rcv_buffer" for _, e in r.effects())
            if created or L.calls(r, "__send_tp_abort") or L.calls(r, "__send_tp_cts"):
                continue
            # literals other than the branch selection and the source-address plausibility test
            rest = [(g, p) for g, p in gl if not contains(g, d(0)) and not contains(g, ("attr", ("p", "mid"), "source_address"))]
            if not rest:
                continue
            # disjunctive normal form of the remaining condition (a positive `or` / negated `and` splits into cases)
            cases = [[]]
            for g, p in rest:
                if g[0] == "not":
                    g, p = g[1], not p
                if g[0] == "bool" and ((g[1] == "or" and p) or (g[1] == "and" and not p)):
                    cases = [c + [(x, p)] for c in cases for x in g[2]]
                elif g[0] == "bool":
                    cases = [c + [(x, p) for x in g[2]] for c in cases]
                else:
                    cases = [c + [(g, p)] for c in cases]
            def _nn(g, p):
                while g[0] == "not":
                    g, p = g[1], not p
                return g, p
            for case in cases[:64]:
                case = [_nn(g, p) for g, p in case]
                iv = _G.intervals(case)
                known = all(g[0] == "cmp" and g[1] in ("<", "==") and ((is_const(g[2]) and g[3] in box) or (is_const(g[3]) and g[2] in box))
                            and (p or g[1] == "<") for g, p in case)
                if not known or not iv:
                    continue
                feasible = True
                for k, (lo, hi) in iv.items():
                    blo, bhi = box[k]
                    lo = blo if lo is None else max(lo, blo)
                    hi = bhi if hi is None else min(hi, bhi)
                    if lo > hi:
                        feasible = False
                        break
                if feasible:
                    dropped = (r, iv)
                    break
            if dropped is not None:
                break
        if dropped is not None:
            r, iv = dropped
            ctx.violated(rule, f, inst, "the RTS arm returns without session, CTS or abort when %s - this includes legal announcements (e.g. a "
                         "1779..1785 byte message has 255 packets): send_pgn on the other side accepted the message, it is never delivered" % (
                             ", ".join("%s in [%s, %s]" % (pretty(k)[:30], v[0], v[1]) for k, v in iv.items())), f.node)
        else:
            ctx.holds(rule, inst)
    for inst, bad in seen.items():
        if bad is None:
            ctx.holds(rule, inst)
        else:
            ctx.violated(rule, f, inst, "an RTS is answered with an abort on a path where its own receive key is not known to be occupied (some other "
                         "condition - e.g. a send session of this stack to that peer - refuses it): transfers crossing on the pair are lost", bad)
    if n == 0:
        ctx.unknown(rule, "%s: RTS refusal path not found" % f.qual)


def session_fresh(ctx, L, rule="R-SESSION-FRESH"):
    """every receive session starts with its OWN empty reassembly buffer: the 'data' entry of the session record is an empty container
    created when the session is opened.  A container created once (constructor, class body, default template) and handed to every session
    is shared: it still holds the previous message's bytes, so the next session completes early with stale / blended data."""
    import ast
    f = L.cm
    seen = {}
    for r in runs(ctx, f):
        for i, e in r.effects():
            if not (e.kind == "store" and root_field(e.target) == "_rcv_buffer"):
                continue
            val = e.value
            if val[0] == "call" and val[1] == ("glob", "dict") and len(val[2]) == 1 and val[3]:
                # dict(template, key=value, ...) is {**template, 'key': value, ...}
                val = ("dict", ((("c", "**"), val[2][0]),) + tuple((("c", k), v) for k, v in val[3]))
            if val[0] != "dict" or not any(k == ("c", "message_size") or k == ("c", "**") for k, _ in val[1]):
                continue
            d = dict(val[1])
            ctl = [g for g, p in lits(r.guards()) if p and g[0] == "cmp" and g[1] == "==" and contains(g, ("sub", ("p", "data"), ("c", 0)))]
            what = {v: k for k, v in L.ctl.items()}.get(next((x[1] for g in ctl for x in (g[2], g[3]) if is_const(x)), None), "?")
            inst = "%s %s arm: the new receive session gets its own empty data buffer" % (L.tag, what)
            v = d.get(("c", "data"))
            verdict = None
            if v is not None:
                fresh = v == ("list", ()) or (v[0] == "call" and v[1] in (("glob", "list"), ("glob", "bytearray")) and not v[2] and not v[3])
                if fresh:
                    verdict = (True, None)
                elif any(isinstance(x, tuple) and x[:2] == ("attr", SELF) for x in walk(v)) or v[0] == "attr":
                    verdict = (False, "the session's data buffer is %s, an object that outlives the session" % pretty(v)[:50])
            else:
                sp = d.get(("c", "**"))
                if sp is not None and sp[0] == "attr" and sp[1] == SELF:
                    # a template spread into the record: a shallow copy - a list inside the template is the same object in every session
                    fld = sp[2]
                    cls = f.cls
                    shared = None
                    for n in ast.walk(cls.node):
                        tgt = None
                        if isinstance(n, ast.Assign):
                            for t in n.targets:
                                if (isinstance(t, ast.Attribute) and t.attr == fld) or (isinstance(t, ast.Name) and t.id == fld):
                                    tgt = n.value
                        if isinstance(tgt, ast.Dict):
                            for k, val in zip(tgt.keys, tgt.values):
                                if isinstance(k, ast.Constant) and k.value == "data" and isinstance(val, (ast.List, ast.Call)):
                                    shared = n
                    if shared is not None:
                        verdict = (False, "the record is built by spreading the template self.%s (line %d); the spread copies the template's "
                                   "'data' list by reference, so every receive session of this stack appends to the same list" % (fld, shared.lineno))
            if verdict is None:
                seen.setdefault(inst, ("?", e.node))
            elif verdict[0]:
                seen.setdefault(inst, (None, e.node))
            else:
                seen[inst] = (verdict[1], e.node)
    for inst, (bad, node) in seen.items():
        if bad is None:
            ctx.holds(rule, inst)
        elif bad == "?":
            ctx.unknown(rule, "%s: origin of the session's data buffer not recognised" % inst)
        else:
            ctx.violated(rule, f, inst, bad + ": it still contains the previous message's bytes - the next message is completed early and "
                         "delivered with stale or blended content", node)
    if not seen:
        ctx.unknown(rule, "%s: no receive-session record found" % f.qual)


def cm_minlen(ctx, L, rule="R-DT-MINLEN"):
    """FD.TP.CM frames are 12 bytes long: the length plausibility test of the connection-management handler must accept them"""
    return dt_minlen(ctx, L, rule, func=L.cm, legal=range(12, 65), what="CM", header=12)


def dt_minlen(ctx, L, rule="R-DT-MINLEN", func=None, legal=range(5, 65), what="DT", header=4):
    """FD.TP.DT: a frame with the 4 header bytes and at least one data byte (5..64 bytes) is a legal segment - the last segment of a message
    carries 1..60 bytes.  The length plausibility test at the top of the handler must not drop such a frame."""
    from sa import guards as _G
    f = func or L.dt
    LEN = ("call", ("glob", "len"), (("p", "data"),), ())
    n = 0
    bad = None

    for r in runs(ctx, f):
        if r.term != "return":
            continue
        gs = r.guards()
        if not gs or any(e.kind in ("store", "aug", "del") for _, e in r.effects()):
            continue
        lits_ = []
        okp = True
        for g, p in gs:
            while g[0] == "not":
                g, p = g[1], not p
            if not (g[0] == "cmp" and g[1] in ("<", "==")):
                okp = False
                break
            sides = []
            for x in (g[2], g[3]):
                if is_const(x) and isinstance(x[1], int):
                    sides.append(("k", x[1]))
                elif x == LEN:
                    sides.append(("len", 0))
                elif x[0] == "call" and x[1] == ("glob", "len") and len(x[2]) == 1 and x[2][0][0] == "sub" and x[2][0][1] == ("p", "data") and \
                        x[2][0][2][0] == "slice" and is_const(x[2][0][2][1]) and x[2][0][2][2] is None and isinstance(x[2][0][2][1][1], int) \
                        and 0 <= x[2][0][2][1][1] <= 4:
                    sides.append(("len", x[2][0][2][1][1]))
                else:
                    okp = False
            if not okp or sorted(s[0] for s in sides) != ["k", "len"]:
                okp = False
                break
            lits_.append((g[1], sides, p))
        if not okp or not lits_:
            continue
        n += 1
        dropped = [v for v in legal if all(
            ((lambda a, b: (a < b) if op == "<" else (a == b))(*[(s[1] if s[0] == "k" else v - s[1]) for s in sides])) == p for op, sides, p in lits_)]
        if dropped and bad is None:
            bad = (r, dropped)
    inst = "%s %s length test passes every frame %s" % (L.tag, what, "with a header and at least one data byte" if what == "DT" else "of the 12 bytes a TP.CM has")
    if bad is not None and what != "DT":
        ctx.violated(rule, f, inst, "frames of %d..%d bytes are dropped as too short: every FD.TP.CM frame (RTS, CTS, end-of-message status ...) has 12 "
                     "bytes - no transfer is ever opened or completed" % (bad[1][0], bad[1][-1]), f.node)
    elif bad is not None:
        ctx.violated(rule, f, inst, "frames of %s bytes are dropped as too short although they carry %s data byte(s) after the 4 header bytes: a message "
                     "whose last segment is that short is never completed (no EndOfMsgACK, broadcast lost)" % (
                         "%d..%d" % (bad[1][0], bad[1][-1]), "%d..%d" % (bad[1][0] - 4, bad[1][-1] - 4)), f.node)
    elif n:
        ctx.holds(rule, inst)
    else:
        ctx.holds(rule, inst, "no length-only rejection in the handler")


def reply_arms(ctx, L, rule="R-REPLY-ARMS"):
    """originator side of a connection-mode transfer: what the arms of the TP.CM handler must do for the transfer to go on.
    CTS with a grant (session known, not a hold): the window end, the sending state and an immediate deadline are stored and the job thread
    is woken (otherwise the granted packets leave only when the old T3 deadline expires - after the responder has given up).
    End-of-message acknowledge (session known): the originator's listeners are told, the session is marked finished."""
    from .flow import TIME
    f = L.cm
    d0 = ("sub", ("p", "data"), ("c", 0))
    sending = L.const("state", "SENDING_RTS_CTS" if L.fd else "SENDING_IN_CTS")
    done = L.const("state", "EOM_ACK_RECEIVED") if L.fd and "EOM_ACK_RECEIVED" in L.states else L.const("state", "TRANSMISSION_FINISHED")
    cts, ack = L.ctl.get("CTS"), L.ctl.get("EOM_ACK")
    res = {}
    for r in runs(ctx, f):
        if r.term in ("raise", "exc"):
            continue
        gl = lits(r.guards())
        ctl = [x[1] for g, p in gl if p and g[0] == "cmp" and g[1] == "==" and contains(g, d0) for x in (g[2], g[3]) if is_const(x)]
        arm = "CTS" if cts in ctl else "EOM_ACK" if ack in ctl else "ABORT" if L.ctl.get("ABORT") in ctl else None
        if arm is None or L.calls(r, "__send_tp_abort"):
            continue
        if arm == "ABORT" and not any(p and g[0] == "cmp" and g[1] == "==" and any(y[0] == "sub" and y[2] == ("c", "state") for y in (g[2], g[3]))
                                      for g, p in gl):
            continue        # no send session of ours waits for that peer's CTS
        stores = {}
        for _, e in r.effects():
            if e.kind == "store" and e.target[0] == "sub" and is_const(e.target[2]) and root_field(e.target) == "_snd_buffer":
                stores[e.target[2][1]] = e.value
        woke = any(L.is_wake(f, e) for _, e in r.effects())
        told = any(L.is_notify(f, e) for _, e in r.effects())
        miss = []
        if arm == "CTS":
            hold = any(e.kind == "store" and e.target[0] == "sub" and e.target[2] == ("c", "deadline") and e.value != TIME for _, e in r.effects()) \
                and "state" not in stores and "next_wait_on_cts" not in stores
            if hold:
                continue
            if "next_wait_on_cts" not in stores:
                miss.append("the window end (next_wait_on_cts) is not stored")
            if stores.get("state") != ("c", sending):
                miss.append("the state does not become the sending state")
            if stores.get("deadline") != TIME:
                miss.append("the deadline is not set to now")
            if L.fd and "next_packet_to_send" not in stores:
                miss.append("the first segment of the window (next_packet_to_send) is not taken from the CTS")
            if not woke:
                miss.append("the job thread is not woken")
        elif arm == "ABORT":
            if "state" not in stores or not is_const(stores["state"]):
                miss.append("the aborted send session is not marked finished")
            if stores.get("deadline") != TIME:
                miss.append("its deadline is not set to now")
            if not woke:
                miss.append("the job thread is not woken")
        else:
            if not told:
                miss.append("the originator's listeners are not told about the acknowledge")
            if "state" not in stores or not is_const(stores["state"]):
                miss.append("the send session is not marked finished")
            if not woke:
                miss.append("the job thread is not woken")
        key = "%s %s arm (session known%s)" % (L.tag, arm, ", grant > 0" if arm == "CTS" else ", waiting for CTS" if arm == "ABORT" else "")
        if miss:
            res[key] = (miss, r.recs[-1].ev.node if r.recs else f.node)
        else:
            res.setdefault(key, None)
    for key, bad in sorted(res.items()):
        inst = "%s: the transfer is carried on" % key
        if bad is None:
            ctx.holds(rule, inst)
        else:
            ctx.violated(rule, f, inst, "; ".join(bad[0]) + (": the granted packets are not sent before the responder's T2 expires - the accepted message is "
                         "lost" if " CTS arm" in key else ": the session keeps the pair busy until its old time-out (a new transfer to that peer is refused meanwhile) / the application never learns of the completion"), bad[1])
    if len(res) < 2:
        ctx.unknown(rule, "%s: CTS / end-of-message-acknowledge arms not found (%d)" % (f.qual, len(res)))
