"""Deadline / expiry / wake-up rules (C06, C07, C10, C11)."""
import ast
from sa.sym import (SELF, is_const, cval, pretty, walk, contains, root_field, mk_cmp, mk_not, mk_bool, mk_bin)
from sa.model import AnalysisError
from sa import guards as G
from .common import (mname, is_self_call, lensym, sub, field, affine, affine_eq, affine_diff, bind_args, runs, lits, loc)
from .transport import GLOBAL
from .flow import scan_runs, TIME, _job_entry

NOW = ("p", "now")
INTERVALS = (field("_minimum_tp_bam_dt_interval"), field("_minimum_tp_rts_cts_dt_interval"))


def timeout_const(ctx, L, rule="R-TIMEOUT-CONST"):
    from spec import sae
    want = sae.TIMEOUT_22 if L.fd else sae.TIMEOUT_21
    for k, v in want.items():
        inst = "%s Timeout.%s = %.3f s" % (L.tag, k, v)
        got = L.timeout.get(k)
        if got is None:
            continue   # an unused constant may be dropped; the deadlines themselves are bounded by R-DEADLINE-FINITE
        elif abs(float(got) - v) > 1e-9:
            ctx.violated(rule, L.job, inst, "Timeout.%s is %r, SAE value is %r" % (k, got, v), L.c.nested["Timeout"].node)
        else:
            ctx.holds(rule, inst)
    for k, v in sae.ABORT_REASON.items():
        inst = "%s ConnectionAbortReason.%s = %d" % (L.tag, k, v)
        if L.reason.get(k) != v:
            ctx.violated(rule, L.job, inst, "constant is %r" % (L.reason.get(k),), L.c.nested["ConnectionAbortReason"].node)
        else:
            ctx.holds(rule, inst)


def _deadline_stores(ctx, L, funcs):
    """(func, run, rec index, Eff, value, table, state stored on the same path or None)"""
    out = []
    seen = set()
    for f in funcs:
        rs = scan_all(ctx, L) if f is L.job else runs(ctx, f)
        for r in rs:
            for i, e in r.effects():
                if e.kind != "store":
                    continue
                t = root_field(e.target)
                if t not in ("_rcv_buffer", "_snd_buffer"):
                    continue
                v = None
                if e.value[0] == "dict":
                    v = dict(e.value[1]).get(("c", "deadline"))
                    stt = dict(e.value[1]).get(("c", "state"))
                elif e.target[0] == "sub" and e.target[2] == ("c", "deadline"):
                    v = e.value
                    stt = None
                    ent = e.target[1]
                    for _, x in r.effects():
                        if x.kind == "store" and x.target == sub(ent, "state"):
                            stt = x.value
                if v is None:
                    continue
                k = (id(e.node), repr(v), repr(stt))
                if k in seen:
                    continue
                seen.add(k)
                out.append((f, r, i, e, v, t, stt))
    return out


def scan_all(ctx, L):
    out = []
    for t in ("_rcv_buffer", "_snd_buffer") + (("_multi_pg_snd_buffer",) if L.fd else ()):
        out.extend(scan_runs(ctx, L, t))
    return out


def deadline_finite(ctx, L, rule="R-DEADLINE-FINITE"):
    """every stored session deadline is now, now + (SAE timeout <= 1.25 s; 3 s only with WAITING_EOM_ACK), or now + interval"""
    n = 0
    eomack = L.states.get("WAITING_EOM_ACK")
    for f, r, i, e, v, t, stt in _deadline_stores(ctx, L, (L.send_pgn, L.cm, L.dt, L.job)):
        n += 1
        inst = "%s deadline store in %s line-independent value %s" % (L.tag, f.name, pretty(v))
        d = affine_diff(v, TIME)
        if d is None:
            ctx.violated(rule, f, inst, "deadline %s is not of the form time.time() + c" % pretty(v), e.node)
            continue
        terms, c = d
        if terms:
            if len(terms) == 1 and list(terms.items())[0] in [(x, 1) for x in INTERVALS] and c == 0:
                ctx.holds(rule, "%s %s: now + configured interval" % (L.tag, f.name))
                continue
            ctx.violated(rule, f, inst, "deadline %s is not now + constant / configured interval" % pretty(v), e.node)
            continue
        c = float(c)
        lim = 1.25
        if L.fd and eomack is not None and stt == ("c", eomack):
            lim = 3.0
        if c < 0 or c > lim + 1e-9:
            ctx.violated(rule, f, inst, "session deadline is now%+.3f s; the standard's bound for this state is %.2f s" % (c, lim), e.node)
        else:
            ctx.holds(rule, "%s %s: now + %.3f" % (L.tag, f.name, c))
    if n < 8:
        ctx.unknown(rule, "only %d deadline stores found in %s" % (n, L.cls))


def _reached(run):
    """the 'deadline reached' arm: literal (now < E.deadline) is False on the run"""
    for g, p in lits(run.guards()):
        if (not p) and g[0] == "cmp" and g[1] == "<" and g[2] in (NOW, TIME) and g[3][0] == "sub" and g[3][2] == ("c", "deadline"):
            return g[3][1]      # (the pass's clock reading or a fresh one)
    return None


def _state_name(L, run):
    for g, p in lits(run.guards()):
        if p and g[0] == "cmp" and g[1] == "==":
            for x, y in ((g[2], g[3]), (g[3], g[2])):
                if x[0] == "sub" and x[2] == ("c", "state") and is_const(y):
                    for k, v in L.states.items():
                        if v == y[1]:
                            return k
    return None


def rearm(ctx, L, rule="R-REARM"):
    """every expiry path deletes the session or re-arms its deadline in the future"""
    n = 0
    tables = ["_rcv_buffer", "_snd_buffer"] + (["_multi_pg_snd_buffer"] if L.fd else [])
    for table in tables:
        for unroll in ((1, 2) if ctx.tier == "thorough" else (1,)):
            for r in scan_runs(ctx, L, table, unroll=unroll):
                E = _reached(r)
                if E is None:
                    continue
                n += 1
                st = _state_name(L, r) if table == "_snd_buffer" else "-"
                loops = [rec for rec in r.recs if rec.ev.kind == "cond" and rec.ev.extra == "loop"]
                zero = bool(loops) and not any(rec.pol for rec in loops)
                inst = "%s %s expiry state=%s%s" % (L.tag, table, st, " (loop body not entered)" if zero else "")
                dele = [e for _, e in r.effects() if e.kind == "del" and e.target == E]
                arm = [e for _, e in r.effects() if e.kind == "store" and e.target == sub(E, "deadline")]
                ok = bool(dele)
                why = ""
                for e in arm:
                    d = affine_diff(e.value, TIME)
                    if d is None:
                        continue
                    terms, c = d
                    if (not terms and c > 0) or (len(terms) == 1 and list(terms.items())[0] in [(x, 1) for x in INTERVALS] and c >= 0):
                        ok = True
                    else:
                        why = " (deadline set to %s, which is not in the future)" % pretty(e.value)
                # progress: an expiry that neither removes the session, nor transmits, nor changes any session field besides the
                # deadline repeats identically at every later expiry - the session (and its pair / number) is held forever
                if ok and not dele and table == "_snd_buffer" and st is not None:
                    sends = [e for _, e in r.effects() if e.kind == "call" and (mname(e.value) or "").startswith("__send_tp")]
                    other = [e for _, e in r.effects() if e.kind in ("store", "aug") and e.target[0] == "sub" and e.target[1] == E and
                             e.target != sub(E, "deadline") and not (e.target == sub(E, "state") and e.value == ("c", L.const("state", st)))]
                    if not sends and not other:
                        ctx.violated(rule, L.job, inst + " makes progress", "the expired session is only given a new deadline: nothing is sent and neither its "
                                     "state nor its position changes, so the same expiry repeats forever and the pair stays occupied (no timeout abort is ever reached)",
                                     arm[0].node if arm else L.job.node)
                        continue
                if ok:
                    ctx.holds(rule, inst)
                else:
                    ctx.violated(rule, L.job, inst, "deadline has passed but the session is neither removed nor re-armed%s: the job "
                                 "thread busy-spins and the session is held forever" % why, r.recs[-1].ev.node if r.recs else L.job.node)
    if n < (10 if L.fd else 6):
        ctx.unknown(rule, "only %d expiry paths found in %s" % (n, L.job.qual))


def expiry_shape(ctx, L, rule="R-EXPIRY-SHAPE"):
    """expiry of a receive session / of WAITING_CTS: abort(TIMEOUT) in the right direction, iff destination-specific; removal"""
    to = L.const("reason", "TIMEOUT")
    b = L.builder("__send_tp_abort")
    n = 0
    for r in scan_runs(ctx, L, "_rcv_buffer"):
        E = _reached(r)
        if E is None:
            continue
        n += 1
        ab = L.calls(r, "__send_tp_abort")
        specific = any(g == mk_cmp("==", sub(E, "dest_address"), GLOBAL) and not p for g, p in lits(r.guards()))
        glob = any(g == mk_cmp("==", sub(E, "dest_address"), GLOBAL) and p for g, p in lits(r.guards()))
        inst = "%s receive-session expiry [%s]" % (L.tag, "destination-specific" if specific else "broadcast" if glob else "?")
        problems = []
        if specific:
            if len(ab) != 1:
                problems.append("%d abort frames, expected 1" % len(ab))
            else:
                a = bind_args(ab[0][1].value, b)
                if a.get("reason") != ("c", to):
                    problems.append("abort reason %s, expected TIMEOUT (3)" % pretty(a.get("reason")))
                if a.get("src_address") != sub(E, "dest_address") or a.get("dest_address") != sub(E, "src_address"):
                    problems.append("abort sent %s -> %s, expected responder -> originator" % (pretty(a.get("src_address")), pretty(a.get("dest_address"))))
                if a.get("pgn_value") != sub(E, "pgn"):
                    problems.append("abort names PGN %s" % pretty(a.get("pgn_value")))
        elif glob:
            if ab:
                problems.append("abort sent for a broadcast session")
        else:
            problems.append("abort is not conditioned on dest != GLOBAL")
        if not any(e.kind == "del" and e.target == E for _, e in r.effects()):
            problems.append("session not removed")
        if problems:
            ctx.violated(rule, L.job, inst, "; ".join(problems), r.recs[-1].ev.node)
        else:
            ctx.holds(rule, inst)
    m = 0
    for r in scan_runs(ctx, L, "_snd_buffer"):
        E = _reached(r)
        if E is None or _state_name(L, r) != "WAITING_CTS":
            continue
        m += 1
        ab = L.calls(r, "__send_tp_abort")
        inst = "%s WAITING_CTS expiry" % L.tag
        problems = []
        if len(ab) != 1:
            problems.append("%d abort frames, expected 1" % len(ab))
        else:
            a = bind_args(ab[0][1].value, b)
            if a.get("reason") != ("c", to):
                problems.append("abort reason %s, expected TIMEOUT (3)" % pretty(a.get("reason")))
            if a.get("src_address") != sub(E, "src_address") or a.get("dest_address") != sub(E, "dest_address"):
                problems.append("abort sent %s -> %s, expected originator -> responder" % (pretty(a.get("src_address")), pretty(a.get("dest_address"))))
        if not any(e.kind == "del" and e.target == E for _, e in r.effects()):
            problems.append("session not removed")
        if problems:
            ctx.violated(rule, L.job, inst, "; ".join(problems), r.recs[-1].ev.node)
        else:
            ctx.holds(rule, inst)
    if n < 2 or m < 1:
        ctx.unknown(rule, "expiry arms not found (rcv=%d, waiting_cts=%d)" % (n, m))
    # the scan acts only on passed deadlines: not-due arm has no effect on the session
    for table in ("_rcv_buffer", "_snd_buffer"):
        for r in scan_runs(ctx, L, table):
            due = [g for g, p in lits(r.guards()) if p and g[0] == "cmp" and g[1] == "<" and g[2] == NOW]
            if due:
                eff = [e for _, e in r.effects() if (e.kind in ("store", "aug", "del") and root_field(e.target) == table) or L.is_send(L.job, e)]
                inst = "%s %s not-due arm is effect-free" % (L.tag, table)
                if eff:
                    ctx.violated(rule, L.job, inst, "a session whose deadline has not passed is acted on", eff[0].node)
                else:
                    ctx.holds(rule, inst)


def wake(ctx, L, rule="R-WAKE", tables=("_rcv_buffer", "_snd_buffer"), funcs=None):
    """RX/APP: entry creation with a deadline, deadline := now, or min-update must be followed by a wake-up"""
    funcs = funcs or (L.send_pgn, L.cm, L.dt)
    n = 0
    for f in funcs:
        reported = set()
        for r in runs(ctx, f):
            if r.term == "cut":
                continue
            last = None
            for i, e in r.effects():
                if e.kind != "store" or root_field(e.target) not in tables:
                    continue
                kind = None
                if e.value[0] == "dict" and ("c", "deadline") in dict(e.value[1]):
                    kind = "creation of a session with a deadline"
                elif e.target[0] == "sub" and e.target[2] == ("c", "deadline"):
                    if e.value == TIME:
                        kind = "deadline := now (immediate action requested)"
                    elif root_field(e.target) == "_multi_pg_snd_buffer":
                        kind = "deadline lowered to an earlier one"
                if kind:
                    last = (i, e, kind)
            if last is None:
                continue
            i, e, kind = last
            n += 1
            woke = any(L.is_wake(f, x) for j, x in r.effects() if j >= i)
            lab = ""
            for g, p in lits(r.guards(i)):
                if p and g[0] == "cmp" and g[1] == "==" and is_const(g[2]) != is_const(g[3]) and contains(g, ("p", "data")):
                    v = cval(g[2]) if is_const(g[2]) else cval(g[3])
                    lab = " control=%s" % ([k for k, c in L.ctl.items() if c == v] or [v])[0]
                    break
            inst = "%s %s%s: %s [%s]" % (L.tag, f.name, lab, kind, pretty(e.target)[:70])
            if woke:
                ctx.holds(rule, inst)
            elif id(e.node) not in reported:
                reported.add(id(e.node))
                ctx.violated(rule, f, inst, "no wake-up of the job thread follows on some path: it keeps sleeping until its previous "
                             "wake-up time (up to 5 s) although this deadline is earlier", e.node)
    return n


# --------------------------------------------------------------------------- pools (FD)
PUTS = {"__put_rts_cts_session": "__get_rts_cts_session", "__put_bam_session": "__get_bam_session"}


def pool_owner(ctx, L, rule="R-POOL-OWNER"):
    """pool numbers are released only where an outbound session is deleted (never on inbound paths)"""
    P = ctx.prog
    n = 0
    from .common import is_helper
    for fn in P.all_funcs():
        if fn.cls is None or fn.cls.name != L.cls or fn.name in PUTS or is_helper(fn):
            continue   # helpers are inlined into the anchor functions that call them
        if fn is not L.job:
            seen_nodes = set()
            try:
                rs = runs(ctx, fn)
            except AnalysisError:
                rs = []
            for r in rs:
                for name in PUTS:
                    for i, e in L.calls(r, name):
                        if id(e.node) in seen_nodes:
                            continue
                        seen_nodes.add(id(e.node))
                        n += 1
                        ctx.violated(rule, fn, "22 %s called in %s [%s]" % (name, fn.name, _branch_label(ctx, L, fn, e.node)),
                                     "an inbound path releases a number of the stack's own originator pool: a frame from a peer frees "
                                     "(or indexes beyond) outbound capacity", e.node)
            continue
        # job thread: classify by scan
        for table in ("_rcv_buffer", "_multi_pg_snd_buffer", "_snd_buffer"):
            seen = set()
            for r in scan_runs(ctx, L, table):
                for name in PUTS:
                    for i, e in L.calls(r, name):
                        if id(e.node) in seen:
                            continue
                        seen.add(id(e.node))
                        n += 1
                        E = _reached(r)
                        arg = e.value[2][0] if e.value[2] else None
                        if table != "_snd_buffer":
                            ctx.violated(rule, fn, "22 %s called in the %s scan [%s]" % (name, table, "dest-specific" if "rts" in name else "broadcast"),
                                         "expiry of an inbound session releases a number of the stack's own originator pool", e.node)
                        elif E is None or arg not in (sub(E, "session"), sub(("popped", E), "session")) or not any(x.kind == "del" and x.target == E for _, x in r.effects()):
                            ctx.violated(rule, fn, "22 %s in the send scan" % name, "released number %s is not that of a send session deleted on this path" % pretty(arg), e.node)
                        else:
                            ctx.holds(rule, "22 %s releases the deleted send session's own number (state %s)" % (name, _state_name(L, r)))
    return n


def _branch_label(ctx, L, fn, node):
    """control-byte branch a call site lives in (for stable finding keys)"""
    for r in runs(ctx, fn):
        for i, e in r.effects():
            if e.node is node:
                for g, p in lits(r.guards(i)):
                    if p and g[0] == "cmp" and g[1] == "==" and is_const(g[2]) != is_const(g[3]):
                        v = cval(g[2]) if is_const(g[2]) else cval(g[3])
                        for k, c in L.ctl.items():
                            if c == v:
                                later = [1 for g2, p2 in lits(r.guards(i)) if g2[0] == "cmp" and g2[1] == "in"]
                                return "control=%s%s" % (k, ", session-lookup branch" if later else "")
                return "?"
    return "?"


def pool_pair(ctx, L, rule="R-POOL-PAIR"):
    """acquired numbers label their session; every deletion of a send session returns its number to the right pool"""
    f = L.send_pgn
    n = 0
    for r in runs(ctx, f):
        for i, e in r.effects():
            if e.kind == "store" and e.value[0] == "dict" and root_field(e.target) == "_snd_buffer":
                n += 1
                d = dict(e.value[1])
                s = d.get(("c", "session"))
                bam = bool(L.calls(r, "__send_tp_bam"))
                want = "__get_bam_session" if bam else "__get_rts_cts_session"
                inst = "22 new %s session is labelled with the number taken from its pool" % ("BAM" if bam else "RTS/CTS")
                ok = s is not None and s[0] == "call" and is_self_call(s, want)
                keyok = e.target[0] == "sub" and e.target[2][0] == "call" and e.target[2][2] and e.target[2][2][0] == s
                if ok and keyok:
                    ctx.holds(rule, inst)
                else:
                    ctx.violated(rule, f, inst, "session number stored is %s (key %s), expected the value returned by %s" % (
                        pretty(s), pretty(e.target[2])[:60], want), e.node)
    bam_states = {"SENDING_BAM", "SENDING_EOM_STATUS"}
    m = 0
    for r in scan_runs(ctx, L, "_snd_buffer"):
        E = _reached(r)
        if E is None:
            continue
        if not any(e.kind == "del" and e.target == E for _, e in r.effects()):
            continue
        st = _state_name(L, r)
        if st is None:
            continue  # the 'unknown state' arm
        m += 1
        want = "__put_bam_session" if st in bam_states else "__put_rts_cts_session"
        other = "__put_rts_cts_session" if st in bam_states else "__put_bam_session"
        calls = L.calls(r, want)
        inst = "22 deletion in state %s returns the number" % st
        if L.calls(r, other):
            ctx.violated(rule, L.job, inst, "number is returned to the wrong pool (%s)" % other, L.calls(r, other)[0][1].node)
        elif len(calls) != 1 or calls[0][1].value[2] not in ((sub(E, "session"),), (sub(("popped", E), "session"),)):
            ctx.violated(rule, L.job, inst, "send session is deleted without returning its session number to the pool: the number is lost for good",
                         [e for _, e in r.effects() if e.kind == "del"][0].node)
        else:
            di = [i for i, e in r.effects() if e.kind == "del" and e.target == E][0]
            if calls[0][0] < di:
                # the number is part of the session key: once it is back in the pool, send_pgn on another thread can take it and
                # create a session under the very key this pass is about to delete
                ctx.violated(rule, L.job, inst + " (after the deletion)", "the session number is returned to the pool BEFORE the session is removed from "
                             "the table: a send_pgn running in between gets the same number and the same key, and its new session is then "
                             "deleted by this pass (message lost, number leaked)", calls[0][1].node)
            else:
                ctx.holds(rule, inst)
    if n < 2 or m < 4:
        ctx.unknown(rule, "pool sites not found (creations=%d, deletions=%d)" % (n, m))
    # getters hand out the index they mark
    for put, get in PUTS.items():
        g = L.builder(get)
        lists = set()
        for r in runs(ctx, g):
            rets = [e for _, e in r.effects() if e.kind == "ret" and e.value != ("c", None)]
            st = [e for _, e in r.effects() if e.kind == "store"]
            # `idx = next((...), None); if idx is not None: mark; return idx`: on the path where the test says None, None is returned
            if rets and any(p_ and g_ == mk_cmp("==", rets[0].value, ("c", None)) for g_, p_ in lits(r.guards())):
                if st:
                    ctx.violated(rule, g, "22 %s marks nothing when no number is free" % get, "a list entry is marked although None is returned", st[0].node)
                continue
            if rets:
                inst = "22 %s returns the index it marks used" % get
                from .common import affine_eq
                if len(st) == 1 and st[0].target[0] == "sub" and affine_eq(st[0].target[2], rets[0].value) and st[0].value == ("c", False):
                    lists.add(st[0].target[1])
                    ctx.holds(rule, inst)
                else:
                    ctx.violated(rule, g, inst, "getter returns %s but marks %s" % (pretty(rets[0].value), pretty(st[0].target) if st else None), g.node)
        p = L.builder(put)
        for r in runs(ctx, p):
            st = [e for _, e in r.effects() if e.kind == "store"]
            inst = "22 %s frees the same list %s marks" % (put, get)
            if len(st) == 1 and st[0].target[0] == "sub" and st[0].target[1] in lists and st[0].value == ("c", True) and st[0].target[2] == ("p", p.params[0]):
                ctx.holds(rule, inst)
            else:
                ctx.violated(rule, p, inst, "setter stores %s" % (pretty(st[0].target) if st else None), p.node)


def wake_var(f):
    """name of the wake-up variable of a job pass (or of a helper that carries it): the returned name, or the name handed to the
    same-class helper whose result is returned"""
    for n in ast.walk(f.node):
        if isinstance(n, ast.Return) and isinstance(n.value, ast.Name):
            return n.value.id
    assigned = {t.id for n in ast.walk(f.node) if isinstance(n, ast.Assign) for t in n.targets if isinstance(t, ast.Name)}
    for n in ast.walk(f.node):
        if isinstance(n, ast.Return) and isinstance(n.value, ast.Call) and isinstance(n.value.func, ast.Attribute) and \
                isinstance(n.value.func.value, ast.Name) and n.value.func.value.id == "self":
            cands = [a.id for a in n.value.args if isinstance(a, ast.Name) and a.id in assigned]
            if len(cands) == 1:
                return cands[0]
    return None


def _min_form(a, var, pm):
    """assignment `a` to `var` keeps the running minimum: min(var, X) / guarded by `var > X` / conditional expression"""
    v = a.value
    if isinstance(v, ast.Call) and isinstance(v.func, ast.Name) and v.func.id == "min" and any(isinstance(x, ast.Name) and x.id == var for x in v.args):
        return True
    if isinstance(v, ast.IfExp) and isinstance(v.test, ast.Compare) and len(v.test.ops) == 1:
        l, r_, op = v.test.left, v.test.comparators[0], v.test.ops[0]
        isvar = lambda x: isinstance(x, ast.Name) and x.id == var
        for cand, keep in ((v.body, v.orelse), (v.orelse, v.body)):
            if not isvar(keep) or isvar(cand):
                continue
            dv = ast.dump(cand)
            takes_new_when_true = cand is v.body
            later = (isinstance(op, (ast.Gt, ast.GtE)) and isvar(l) and ast.dump(r_) == dv) or (isinstance(op, (ast.Lt, ast.LtE)) and isvar(r_) and ast.dump(l) == dv)
            earlier = (isinstance(op, (ast.Lt, ast.LtE)) and isvar(l) and ast.dump(r_) == dv) or (isinstance(op, (ast.Gt, ast.GtE)) and isvar(r_) and ast.dump(l) == dv)
            if (takes_new_when_true and later) or (not takes_new_when_true and earlier):
                return True
    par = pm.get(a)
    if isinstance(par, ast.If) and a in par.body and isinstance(par.test, ast.Compare) and len(par.test.ops) == 1:
        l, r, op = par.test.left, par.test.comparators[0], par.test.ops[0]
        dv = ast.dump(v)
        if isinstance(op, (ast.Gt, ast.GtE)) and isinstance(l, ast.Name) and l.id == var and ast.dump(r) == dv:
            return True
        if isinstance(op, (ast.Lt, ast.LtE)) and isinstance(r, ast.Name) and r.id == var and ast.dump(l) == dv:
            return True
    return False


def _helper_keeps_min(ctx, cls, call, var, depth=0):
    """-> number of running-minimum updates inside (0 or more) when the helper keeps the minimum, None otherwise.
    `var = self.h(.., var, ..)`: h is a helper of the same class that receives the wake-up time in one parameter, only ever lowers
    it in the running-minimum forms, and returns it (possibly through further helpers)"""
    from .common import is_helper
    from .robust import parents
    if depth > 3 or not (isinstance(call, ast.Call) and isinstance(call.func, ast.Attribute) and isinstance(call.func.value, ast.Name)
                         and call.func.value.id == "self"):
        return None
    h = ctx.prog.find_method(cls, call.func.attr)
    if h is None or not is_helper(h):
        return None
    pos = [i for i, x in enumerate(call.args) if isinstance(x, ast.Name) and x.id == var]
    kw = [k.arg for k in call.keywords if isinstance(k.value, ast.Name) and k.value.id == var]
    if len(pos) + len(kw) != 1:
        return None
    pv = h.params[pos[0]] if pos and pos[0] < len(h.params) else (kw[0] if kw else None)
    if pv is None:
        return None
    pm = parents(h.node)
    cnt = 0
    for n in ast.walk(h.node):
        if isinstance(n, ast.Assign) and any(isinstance(t, ast.Name) and t.id == pv for t in n.targets):
            if _min_form(n, pv, pm):
                cnt += 1
                continue
            sub_ = _helper_keeps_min(ctx, cls, n.value, pv, depth + 1)
            if sub_ is None:
                return None
            cnt += sub_
        elif isinstance(n, (ast.AugAssign, ast.AnnAssign)) and isinstance(n.target, ast.Name) and n.target.id == pv:
            return None
        elif isinstance(n, ast.Return):
            v = n.value
            if isinstance(v, ast.Name) and v.id == pv:
                continue
            if v is not None and isinstance(v, ast.Call) and isinstance(v.func, ast.Name) and v.func.id == "min" and \
                    any(isinstance(x, ast.Name) and x.id == pv for x in v.args):
                continue
            sub_ = _helper_keeps_min(ctx, cls, v, pv, depth + 1) if v is not None else None
            if sub_ is not None:
                cnt += sub_
                continue
            return None
    return cnt


def wakeup_min(ctx, func, rule="R-WAKEUP-MIN", tag=""):
    """the job pass computes its next wake-up as a running minimum: every assignment to the wake-up variable after
    its initialisation is `if wake > X: wake = X` or `wake = min(wake, X)`"""
    f = func
    # the wake-up variable: returned by the DLL scan / used for the sleep in the ECU loop
    var = wake_var(f)
    if var is None:
        for n in ast.walk(f.node):
            if isinstance(n, ast.Assign) and isinstance(n.value, ast.Call) and isinstance(n.value.func, ast.Attribute) and n.value.func.attr == "async_job_thread" \
                    and isinstance(n.targets[0], ast.Name):
                var = n.targets[0].id
    if var is None:
        ctx.unknown(rule, "wake-up variable not found in %s" % f.qual)
        return
    from .robust import parents
    pm = parents(f.node)
    assigns = [n for n in ast.walk(f.node) if isinstance(n, ast.Assign) and any(isinstance(t, ast.Name) and t.id == var for t in n.targets)]
    assigns.sort(key=lambda n: n.lineno)
    n_ok = 0
    for k, a in enumerate(assigns):
        if k == 0:
            continue  # initialisation (now + 5 s / result of the DLL scan)
        v = a.value
        ok = _min_form(a, var, pm)
        if not ok and f.cls is not None:
            inner = _helper_keeps_min(ctx, f.cls, v, var)
            ok = inner is not None
            for q in range(inner or 0):
                ctx.holds(rule, "%s%s update #%d.%d: running minimum inside %s" % (tag, f.name, k, q, ast.unparse(v.func)[:40]))
                n_ok += 1
        inst = "%s%s update #%d: wake-up := %s only when earlier" % (tag, f.name, k, ast.unparse(v)[:40])
        if ok:
            n_ok += 1
            ctx.holds(rule, inst)
        else:
            ctx.violated(rule, f, "%s%s update #%d: next wake-up is a running minimum [%s]" % (tag, f.name, k, ast.unparse(v)[:40]),
                         "the wake-up time is overwritten without the test `later than this deadline`: with several pending deadlines the "
                         "thread sleeps until the one scanned last, and an earlier one is served late", a)
    # a test `wake-up later than this deadline?` is there to be acted on: one of its branches assigns the wake-up variable
    k_t = 0
    for n in ast.walk(f.node):
        if isinstance(n, ast.If) and isinstance(n.test, ast.Compare) and any(isinstance(x, ast.Name) and x.id == var for x in ast.walk(n.test)):
            k_t += 1
            acts = any(isinstance(x, ast.Assign) and any(isinstance(t, ast.Name) and t.id == var for t in x.targets)
                       for b in n.body + n.orelse for x in ast.walk(b))
            inst = "%s%s test #%d `%s`: the earlier deadline is taken over" % (tag, f.name, k_t, ast.unparse(n.test)[:40])
            if acts:
                ctx.holds(rule, inst)
            else:
                ctx.violated(rule, f, "%s%s test #%d: an earlier deadline found by `%s` becomes the next wake-up" % (tag, f.name, k_t, ast.unparse(n.test)[:40]),
                             "the pass compares its next wake-up with this deadline but never takes the deadline over: it sleeps past it (up to 5 s when "
                             "idle) - the time-out, the paced packet or the timer due then is served late", n)
    for n in ast.walk(f.node):
        if isinstance(n, ast.Return) and isinstance(n.value, ast.Call) and any(isinstance(a_, ast.Name) and a_.id == var for a_ in n.value.args):
            inst = "%s%s result: wake-up handed on through %s" % (tag, f.name, ast.unparse(n.value.func)[:40])
            inner = _helper_keeps_min(ctx, f.cls, n.value, var) if f.cls is not None else None
            if inner is not None:
                n_ok += 1
                ctx.holds(rule, inst)
                for q in range(inner):
                    ctx.holds(rule, "%s%s result.%d: running minimum inside %s" % (tag, f.name, q, ast.unparse(n.value.func)[:40]))
            else:
                ctx.unknown(rule, "%s: not a helper that keeps the running minimum" % inst)
    if n_ok == 0 and len(assigns) < 2:
        ctx.unknown(rule, "no wake-up updates found in %s" % f.qual)


def wakeup_cover(ctx, L, rule="R-WAKEUP-COVER"):
    """every job-pass path that gives a surviving session a new deadline afterwards folds that deadline into the pass's
    next wake-up (a comparison with / assignment of the wake-up variable after the last deadline store)"""
    f = L.job
    tables = ["_rcv_buffer", "_snd_buffer"] + (["_multi_pg_snd_buffer"] if L.fd else [])
    seen = {}
    for table in tables:
        rs = scan_runs(ctx, L, table, unroll=2)
        host = ctx.__dict__.get("_scan_host", {}).get((L.cls, table), L.job)
        var = wake_var(host)
        if var is None:
            ctx.unknown(rule, "wake-up variable not found in %s" % host.qual)
            return

        def mentions(node, var=var):
            return any(isinstance(x, ast.Name) and x.id == var for x in ast.walk(node))
        for r in rs:
            E = None
            for i, e in r.effects():
                if e.kind == "store" and e.target[0] == "sub" and e.target[2] == ("c", "deadline") and root_field(e.target) == table:
                    E = e.target[1]
            if E is None:
                continue
            if any(e.kind == "del" and e.target == E for _, e in r.effects()) or r.term in ("raise", "cut"):
                continue
            k = max(i for i, e in r.effects() if e.kind == "store" and e.target == sub(E, "deadline"))
            st = (_state_name(L, r) if table == "_snd_buffer" else None) or "-"
            node = [e for i, e in r.effects() if i == k][0].node
            key = (table, st, getattr(node, "lineno", 0))
            ok = False
            for rec in r.recs[k + 1:]:
                nd = rec.ev.node
                if rec.ev.kind == "cond" and isinstance(nd, ast.AST) and mentions(nd):
                    ok = True
                    break
                if rec.ev.kind == "stmt" and isinstance(nd, ast.Assign) and any(isinstance(t, ast.Name) and t.id == var for t in nd.targets):
                    ok = True
                    break
            if ok:
                seen.setdefault(key, None)
            else:
                seen[key] = node
    for (table, st, ln), bad in sorted(seen.items()):
        inst = "%s %s state=%s: new deadline (line-independent #%d) reaches the next wake-up" % (L.tag, table, st, sorted(k for k in seen if k[:2] == (table, st)).index((table, st, ln)))
        if bad is None:
            ctx.holds(rule, inst)
        else:
            ctx.violated(rule, f, inst, "a path gives the session a new deadline but leaves the pass without comparing it with `%s`: the job thread "
                         "sleeps until some other deadline (5 s when idle) and the packet / timeout due at this one is served late" % var, bad)
    if not seen:
        ctx.unknown(rule, "no re-arming paths found in %s" % f.qual)


def finish_now(ctx, L, rule="R-FINISH-NOW"):
    """a send session that the peer has acknowledged (or aborted) is handed to the job thread for removal immediately:
    its deadline is set to `now` - any later time keeps the pair busy and the next send_pgn to that peer is refused"""
    done = [L.const("state", "EOM_ACK_RECEIVED"), L.const("state", "TRANSMISSION_FINISHED")] if L.fd else [L.const("state", "TRANSMISSION_FINISHED")]
    n = 0
    for f in (L.cm, L.dt):
        seen = set()
        for r in runs(ctx, f):
            for i, e in r.effects():
                if e.kind == "store" and e.target[0] == "sub" and e.target[2] == ("c", "state") and root_field(e.target) == "_snd_buffer" \
                        and is_const(e.value) and cval(e.value) in done and id(e.node) not in seen:
                    seen.add(id(e.node))
                    n += 1
                    E = e.target[1]
                    lab = ""
                    for g, p in lits(r.guards(i)):
                        if p and g[0] == "cmp" and g[1] == "==" and is_const(g[2]) != is_const(g[3]) and contains(g, ("sub", ("p", "data"), ("c", 0))):
                            v = cval(g[2]) if is_const(g[2]) else cval(g[3])
                            lab = " (%s)" % ([k for k, c in L.ctl.items() if c == v] or [v])[0]
                    inst = "%s %s%s: finished send session is due for removal at once" % (L.tag, f.name, lab)
                    dl = [x for _, x in r.effects() if x.kind == "store" and x.target == sub(E, "deadline")]
                    if not dl:
                        ctx.violated(rule, f, inst, "the session is marked finished but its deadline is left as it was", e.node)
                        continue
                    d = affine_diff(dl[-1].value, TIME)
                    if d == ({}, 0):
                        ctx.holds(rule, inst)
                    else:
                        ctx.violated(rule, f, inst, "the finished session's deadline is %s instead of now: until then the pair counts as busy and a "
                                     "following transfer to the same peer is silently refused" % pretty(dl[-1].value)[:60], dl[-1].node)
    if n == 0:
        ctx.unknown(rule, "no 'finished' state store found on the receive path of %s" % L.cls)
