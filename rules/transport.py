"""Transport-protocol rules shared by C01/C02/C03/C06/C07/C08/C09/C10 (both data link layers)."""
import ast
from sa.sym import (SELF, is_const, cval, pretty, walk, contains, root_field, is_heap_path, mk_cmp, mk_not, mk_bool,
                    mk_bin, C)
from sa.model import AnalysisError, EnumVal, NOCONST
from sa import guards as G
from sa.bits import BV, BitEval, T
from .common import (ret_is_none, mname, is_self_call, lensym, sub, field, affine, affine_eq, affine_diff, min_leaves, Sinks,
                     bind_args, runs, lits, has_lit, loc, LEN)
from .arith import ceil_div_check, Unk

GLOBAL = ("c", 255)


def _list_count_guard(v, r, i):
    """a count taken as len() of the chunk list: paths on which `len(np.split(arr, [cut])) > 1` is false are infeasible ("skip");
    paths conditioned on the remainder part itself are not decided in the quotient/remainder domain ("unknown")"""
    sp = [x for x in walk(v) if x[0] == "call" and x[1] == ("attr", ("glob", "np"), "split")]
    if not any(x[0] == "call" and x[1] == ("glob", "len") and x[2] and x[2][0][0] in ("cat", "call") and x[2][0] != ("p", "data") for x in walk(v)) or not sp:
        return None
    gl = lits(r.guards(i))
    for g, p in gl:
        if g == mk_cmp("<", ("c", 1), lensym(sp[0])):
            if not p:
                return "skip"
            continue
        if any(x[0] == "sub" and x[1] == sp[0] and x[2] == ("c", 1) for x in walk(g)):
            return "unknown"
    return None


class Layer:
    def __init__(self, ctx, fd):
        P = ctx.prog
        self.ctx, self.fd = ctx, fd
        self.cls = "J1939_22" if fd else "J1939_21"
        self.c = P.cls(self.cls)
        self.tag = "22" if fd else "21"
        self.send_pgn = P.func(self.cls, "send_pgn")
        self.job = P.func(self.cls, "async_job_thread")
        self.cm = P.func(self.cls, "_process_tp_cm")
        self.dt = P.func(self.cls, "_process_tp_dt")
        self.notify = P.func(self.cls, "notify")
        self.hash = P.func(self.cls, "_buffer_hash")
        self.sinks = ctx.__dict__.setdefault("_sinks", None) or Sinks(ctx)
        ctx._sinks = self.sinks
        self.seg = 60 if fd else 7
        self.npk = "num_segments" if fd else "num_packages"   # entry field: total packet count
        st = self.c.nested.get("SendBufferState")
        if st is None:
            raise AnalysisError("anchor vanished: %s.SendBufferState" % self.cls)
        self.states = dict(st.consts)
        self.ctl = self.c.nested["TpControlType" if fd else "ConnectionMode"].consts
        self.timeout = self.c.nested["Timeout"].consts
        self.reason = self.c.nested["ConnectionAbortReason"].consts

    def const(self, group, name):
        d = {"state": self.states, "ctl": self.ctl, "timeout": self.timeout, "reason": self.reason}[group]
        if name not in d:
            raise AnalysisError("anchor vanished: %s constant %s.%s" % (self.cls, group, name))
        return d[name]

    def builder(self, name):
        return self.ctx.prog.func(self.cls, name)

    def calls(self, run, name):
        """(rec index, Eff) of self.<name>(...) calls on a run"""
        return [(i, e) for i, e in run.effects() if e.kind == "call" and is_self_call(e.value, name)]

    def is_notify(self, func, e):
        return e.kind == "call" and self.sinks.direct(func, e.value, self.sinks.notify_q)

    def is_wake(self, func, e):
        return e.kind == "call" and self.sinks.is_wake(func, e.value)

    def is_send(self, func, e):
        return e.kind == "call" and self.sinks.is_send(func, e.value)

    def table_key(self, s, table):
        """s = self.<table>[K]... -> K (innermost subscript on the table) or None"""
        cur = s
        while cur[0] in ("sub", "attr"):
            if cur[0] == "sub" and cur[1] == field(table):
                return cur[2]
            cur = cur[1]
        return None

    def entry(self, table, key):
        return ("sub", field(table), key)


# --------------------------------------------------------------------------- R-SEG-CEIL
def seg_ceil(ctx, L, rule="R-SEG-CEIL"):
    """packet count stored in every new send session is ceil(len(data)/seg)"""
    f = L.send_pgn
    n = 0
    for r in runs(ctx, f):
        for i, e in r.effects():
            if e.kind == "store" and e.target[0] == "sub" and e.target[1] == field("_snd_buffer") and e.value[0] == "dict":
                d = dict(e.value[1])
                v = d.get(("c", L.npk))
                size = d.get(("c", "message_size"))
                if v is None or size is None:
                    ctx.unknown(rule, "send session created without '%s'/'message_size' at %s" % (L.npk, loc(f, e.node)))
                    continue
                inst = "%s num-packets of session created at state=%s" % (L.tag, pretty(d.get(("c", "state"), ("c", "?"))))
                nsym = lensym(("p", "data"))
                if size != nsym:
                    ctx.violated(rule, f, inst + " (size)", "announced message_size is %s, not len(data)" % pretty(size), e.node)
                    continue
                try:
                    ok, detail = ceil_div_check(v, nsym, L.seg, [(g_, p_) for g_, p_ in r.guards(i) if contains(g_, nsym)])
                except Unk as u:
                    ctx.unknown(rule, "cannot evaluate %s in the quotient/remainder domain (%s) at %s" % (pretty(v), u, loc(f, e.node)))
                    continue
                lg = _list_count_guard(v, r, i)
                if lg == "skip":
                    continue
                if not ok and lg == "unknown":
                    ctx.unknown(rule, "%s: the count is the length of a list assembled under a condition on the split remainder at %s" % (inst, loc(f, e.node)))
                    continue
                n += 1
                if ok:
                    ctx.holds(rule, inst, "%s : %s" % (pretty(v), detail))
                else:
                    ctx.violated(rule, f, inst, "packet count %s is not ceil(len/%d): %s" % (pretty(v), L.seg, detail), e.node)
                # the count announced in the RTS/BAM frame is the stored one
        for name in ("__send_tp_rts", "__send_tp_bam"):
            for i, e in L.calls(r, name):
                b = L.builder(name)
                a = bind_args(e.value, b)
                pk = a.get("num_packets", a.get("num_segments"))
                ms = a.get("message_size")
                inst = "%s %s announces count and size" % (L.tag, name)
                if pk is None or ms is None:
                    ctx.unknown(rule, "cannot bind %s arguments at %s" % (name, loc(f, e.node)))
                    continue
                try:
                    ok, detail = ceil_div_check(pk, lensym(("p", "data")), L.seg, [(g_, p_) for g_, p_ in r.guards(i) if contains(g_, lensym(("p", "data")))])
                except Unk as u:
                    ctx.unknown(rule, "cannot evaluate announced count %s (%s)" % (pretty(pk), u))
                    continue
                lg = _list_count_guard(pk, r, i)
                if lg == "skip":
                    continue
                if not ok and lg == "unknown":
                    ctx.unknown(rule, "%s: the count is the length of a list assembled under a condition on the split remainder" % inst)
                    continue
                if ok and ms == lensym(("p", "data")):
                    ctx.holds(rule, inst)
                else:
                    ctx.violated(rule, f, inst, "announced count %s / size %s are not ceil(len/%d) / len(data)" % (
                        pretty(pk), pretty(ms), L.seg), e.node)
    if n == 0:
        ctx.unknown(rule, "no send-session creation found in %s" % f.qual)


# --------------------------------------------------------------------------- R-HASH-INJ
def hash_inj(ctx, L, rule="R-HASH-INJ"):
    """_buffer_hash places each masked argument in a disjoint bit field"""
    P = ctx.prog
    specs = [("_buffer_hash", [("session_num", 4)] * L.fd + [("src_address", 8), ("dest_address", 8)])]
    if L.fd:
        specs.append(("_buffer_hash_mpg", [("frame_format", 8), ("msg_counter", 8), ("src_address", 8), ("dest_address", 8)]))
    for fname, fields in specs:
        f = P.func(L.cls, fname)
        rs = runs(ctx, f)
        rets = [e.value for r in rs for _, e in r.effects() if e.kind == "ret"]
        if len(rets) != 1:
            ctx.unknown(rule, "%s has %d return paths" % (f.qual, len(rets)))
            continue
        params = f.params
        if len(params) != len(fields):
            ctx.unknown(rule, "%s takes %d parameters, expected %d" % (f.qual, len(params), len(fields)))
            continue
        be = BitEval(lambda s: BV.input(s[1]) if s[0] == "p" else None)
        bv = be.ev(rets[0])
        inst = "%s %s injective on masked arguments" % (L.tag, fname)
        if bv.has_top():
            ctx.unknown(rule, "%s: hash expression not interpretable: %s" % (f.qual, bv.describe()))
            continue
        # every one of the low `w` bits of each parameter must appear exactly once
        seen = {}
        for i, b in enumerate(bv.bits):
            if isinstance(b, tuple):
                seen.setdefault((b[1], b[2]), []).append(i)
        bad = []
        for p, (_, w) in zip(params, fields):
            for k in range(w):
                if (p, k) not in seen:
                    bad.append("bit %d of %s is not represented" % (k, p))
        if bv.tail != 0:
            bad.append("unbounded")
        if bad:
            ctx.violated(rule, f, inst, "; ".join(bad[:4]) + " -> distinct (session,) address pairs share a table key",
                         f.node, witness=bv.describe())
        else:
            ctx.holds(rule, inst, bv.describe())
    if L.fd:
        # unhash_mpg inverts hash_mpg
        h, u = P.func(L.cls, "_buffer_hash_mpg"), P.func(L.cls, "_buffer_unhash_mpg")
        hret = [e.value for r in runs(ctx, h) for _, e in r.effects() if e.kind == "ret"][0]
        uret = [e.value for r in runs(ctx, u) for _, e in r.effects() if e.kind == "ret"][0]
        inst = "22 _buffer_unhash_mpg o _buffer_hash_mpg = identity"
        if uret[0] != "tuple" or len(uret[1]) != 4:
            ctx.unknown(rule, "unhash_mpg does not return a 4-tuple")
        else:
            be = BitEval(lambda s: BV.input(s[1]) if s[0] == "p" and s[1] != u.params[0] else None)
            hv = be.ev(hret)
            be2 = BitEval(lambda s: hv if s == ("p", u.params[0]) else None)
            bad = []
            for p, comp in zip(h.params, uret[1]):
                v = be2.ev(comp)
                want = BV.input(p, 8)
                if v != want:
                    bad.append("%s comes back as %s" % (p, v.describe()))
            if bad:
                ctx.violated(rule, u, inst, "; ".join(bad), u.node)
            else:
                ctx.holds(rule, inst)


# --------------------------------------------------------------------------- R-DEST-CLASS / R-REFUSE
def _pdu2_atom(s):
    """ParameterGroupNumber(_, PF, _).is_pdu2_format -> ('pdu2', PF) ; is_pdu1_format -> not pdu2"""
    def fn(x):
        if x[0] == "attr" and x[2] in ("is_pdu2_format", "is_pdu1_format") and x[1][0] == "call" \
                and x[1][1] == ("clsref", "ParameterGroupNumber") and len(x[1][2]) >= 2:
            a = ("pdu2", x[1][2][1])
            return a if x[2] == "is_pdu2_format" else mk_not(a)
        return None
    return G.renorm(G.subst(s, fn))


def dest_class(ctx, L, rule="R-DEST-CLASS"):
    """send_pgn: transport iff len > threshold; BAM iff PS==255 or PDU2, else RTS to PS"""
    f = L.send_pgn
    thr = 60 if L.fd else 8
    nlen = lensym(("p", "data"))
    ps, pf = ("p", "pdu_specific"), ("p", "pdu_format")
    want_bam = mk_bool("or", [mk_cmp("==", ps, GLOBAL), ("pdu2", pf)])
    n = 0
    for r in runs(ctx, f):
        if r.term == "cut":
            continue
        bam = L.calls(r, "__send_tp_bam")
        rts = L.calls(r, "__send_tp_rts")
        gl = [(_pdu2_atom(g), p) for g, p in r.guards()]
        iv = G.intervals(gl).get(nlen, [None, None])
        F = G.conj(gl)
        if bam or rts:
            n += 1
            kind = "BAM" if bam else "RTS"
            inst = "%s send_pgn %s path" % (L.tag, kind)
            ok, cex = G.implies(F, want_bam if bam else mk_not(want_bam))
            if not ok:
                ctx.violated(rule, f, inst, "%s chosen although the destination class says otherwise; counterexample %s" % (kind, cex),
                             (bam or rts)[0][1].node, witness=cex)
            else:
                ctx.holds(rule, inst)
            if rts:
                b = L.builder("__send_tp_rts")
                a = bind_args(rts[0][1].value, b)
                if a.get("dest_address") != ps or a.get("src_address") != ("p", "src_address"):
                    ctx.violated(rule, f, inst + " addressing", "RTS sent from %s to %s, expected src_address -> pdu_specific" % (
                        pretty(a.get("src_address")), pretty(a.get("dest_address"))), rts[0][1].node)
            if bam:
                b = L.builder("__send_tp_bam")
                a = bind_args(bam[0][1].value, b)
                if a.get("src_address") != ("p", "src_address"):
                    ctx.violated(rule, f, inst + " addressing", "BAM sent from %s" % pretty(a.get("src_address")), bam[0][1].node)
        elif not L.fd and any(L.sinks.direct(f, e.value, L.sinks.send_q) for _, e in r.effects() if e.kind == "call"):
            n += 1
            inst = "21 send_pgn single-frame path"
            if iv[1] is None or iv[1] > thr:
                ctx.violated(rule, f, inst, "single frame used for len(data) <= %s, but a classic frame holds %d bytes" % (iv[1], thr), f.node)
            else:
                ctx.holds(rule, inst)
        elif L.fd and (L.calls(r, "__send_multi_pg") or any(
                e.kind == "store" and root_field(e.target) == "_multi_pg_snd_buffer" for _, e in r.effects())):
            n += 1
            inst = "22 send_pgn multi-PG path"
            if iv[1] is None or iv[1] > thr:
                ctx.violated(rule, f, inst, "multi-PG used for len(data) <= %s, but a contained group holds at most %d bytes" % (iv[1], thr), f.node)
            else:
                ctx.holds(rule, inst)
    if n < 3:
        ctx.unknown(rule, "only %d classified send_pgn paths in %s" % (n, f.qual))


def refuse(ctx, L, rule="R-REFUSE"):
    """send_pgn returns False only when the pair is busy (21) / the pool is empty (22), without effects"""
    f = L.send_pgn
    n = 0
    for r in runs(ctx, f):
        if r.term != "return":
            continue
        rets = [(i, e) for i, e in r.effects() if e.kind == "ret"]
        i, e = rets[-1]
        small = any(L.sinks.direct(f, x.value, L.sinks.send_q) for _, x in r.effects() if x.kind == "call") or \
            L.calls(r, "__send_multi_pg") or any(
                x.kind in ("store", "aug") and root_field(x.target) == "_multi_pg_snd_buffer" for _, x in r.effects()) or \
            any(p and g[0] == "cmp" and g[1] == "==" and ("p", "frame_format") in (g[2], g[3]) for g, p in lits(r.guards()))
        if small:
            continue
        eff_before = [x for j, x in r.effects() if j < i and (
            (x.kind in ("store", "aug", "del") and root_field(x.target) in ("_snd_buffer", "_rcv_buffer"))
            or L.is_send(f, x) or L.is_wake(f, x))]
        if e.value == ("c", False):
            n += 1
            pool = ""
            if L.fd:
                pool = " bam" if any(x[0] == "call" and mname(x) == "__get_bam_session" for g, p in lits(r.guards()) for x in walk(g)) else " rts/cts"
            inst = "%s refusal path (%s%s)" % (L.tag, "pool empty" if L.fd else "pair busy", pool)
            if L.fd:
                # guard: session number returned by a pool getter is None
                ok = any(p and g[0] == "cmp" and g[1] == "==" and ("c", None) in (g[2], g[3]) and any(
                    x[0] == "call" and is_self_call(x, None) and mname(x) in ("__get_bam_session", "__get_rts_cts_session")
                    for x in (g[2], g[3])) for g, p in lits(r.guards()))
            else:
                ok = any(p and g[0] == "cmp" and g[1] == "in" and g[3] == field("_snd_buffer") for g, p in lits(r.guards()))
            if not ok:
                ctx.violated(rule, f, inst, "send_pgn returns False on a path that is not the busy/exhausted test", e.node)
            elif eff_before:
                ctx.violated(rule, f, inst, "refusal is not effect-free: %s precedes `return False`" % (
                    ", ".join(sorted({x.kind + ":" + pretty(x.target or x.value)[:50] for x in eff_before}))), e.node)
            else:
                ctx.holds(rule, inst)
        else:
            # accepted transport path: must not be reachable with the busy test true
            if not L.fd:
                busy = any(p and g[0] == "cmp" and g[1] == "in" and g[3] == field("_snd_buffer") for g, p in lits(r.guards()))
                if busy:
                    ctx.violated(rule, f, "21 accept path", "a transfer is started although the pair is busy", e.node)
            if e.value != ("c", True):
                ctx.violated(rule, f, "%s accept path" % L.tag, "accepted transfer returns %s, not True" % pretty(e.value), e.node)
    if n < (2 if L.fd else 1):
        ctx.unknown(rule, "refusal path(s) not found in %s (%d)" % (f.qual, n))
    if L.fd:
        # pool getter has no side effect on its None path
        for gname in ("__get_bam_session", "__get_rts_cts_session"):
            g = L.builder(gname)
            for r in runs(ctx, g):
                rets = [e for _, e in r.effects() if e.kind == "ret"]
                if rets and ret_is_none(r, rets[-1].value):
                    st = [e for _, e in r.effects() if e.kind in ("store", "aug", "del")]
                    if st:
                        ctx.violated(rule, g, "22 %s None path" % gname, "pool getter modifies state although it returns None", st[0].node)
                    else:
                        ctx.holds(rule, "22 %s None path effect-free" % gname)


# --------------------------------------------------------------------------- R-DISPATCH
def dispatch(ctx, L, rule="R-DISPATCH"):
    """notify routes TP.CM / TP.DT by resolved PGN constant; every control byte has a branch; SAE values"""
    from spec import sae
    f = L.notify
    want = {"_process_tp_cm": sae.PGN["FD_TP_CM" if L.fd else "TP_CM"], "_process_tp_dt": sae.PGN["FD_TP_DT" if L.fd else "TP_DT"]}
    found = {}
    for r in runs(ctx, f):
        for i, e in r.effects():
            if e.kind == "call" and is_self_call(e.value) and mname(e.value) in want:
                consts = [cval(x) for g, p in lits(r.guards(i)) if p and g[0] == "cmp" and g[1] == "==" for x in (g[2], g[3]) if is_const(x)]
                found.setdefault(mname(e.value), set()).update(consts)
                a = bind_args(e.value, L.builder(mname(e.value)))
                if a.get("dest_address") is None or a.get("data") != ("p", "data"):
                    ctx.violated(rule, f, "%s %s arguments" % (L.tag, mname(e.value)), "handler not called with the frame's data", e.node)
    for h, v in want.items():
        inst = "%s notify -> %s on PGN 0x%X" % (L.tag, h, v)
        if h not in found:
            ctx.violated(rule, f, inst, "handler is never called from notify", f.node)
        elif v not in found[h]:
            ctx.violated(rule, f, inst, "handler is reached under PGN constants %s" % sorted(found[h]), f.node)
        else:
            ctx.holds(rule, inst)
    # control bytes: SAE values and a branch each
    spec = sae.FD_TP_CONTROL if L.fd else sae.TP_CONTROL
    for name, v in spec.items():
        inst = "%s control byte %s = %d" % (L.tag, name, v)
        if L.ctl.get(name) != v:
            ctx.violated(rule, L.cm, inst, "constant is %r" % (L.ctl.get(name),), L.cm.node)
            continue
        hit = False
        for r in runs(ctx, L.cm):
            for g, p in lits(r.guards()):
                if p and g[0] == "cmp" and g[1] == "==" and ("c", v) in (g[2], g[3]):
                    hit = True
        if hit:
            ctx.holds(rule, inst + " has a branch")
        else:
            ctx.violated(rule, L.cm, inst, "no branch of _process_tp_cm handles this control byte", L.cm.node)
