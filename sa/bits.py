"""Known-bits / bit-provenance abstract domain (cf. LLVM computeKnownBits + provenance).

A BV is an unbounded non-negative integer described bit by bit (LSB first):
    0, 1, ('b', source, k)  = bit k of input `source`,   'T' = unknown
plus a tail descriptor for all higher bits: 0 (all zero), ('src', source, delta)
(bit i = bit i+delta of source) or 'T'.
Transfer functions are exact whenever they return anything but 'T'.
Inputs are assumed to be non-negative integers (recorded as an assumption).
"""
from .sym import is_const, pretty
from .model import EnumVal

T = "T"
MAXW = 160


class BV:
    __slots__ = ("bits", "tail")

    def __init__(self, bits, tail=0):
        self.bits, self.tail = list(bits), tail
        self._trim()

    def _trim(self):
        # drop high bits that the tail already describes
        while self.bits:
            i = len(self.bits) - 1
            b = self.bits[-1]
            if self.tail == 0 and b == 0:
                self.bits.pop()
            elif self.tail == T and b == T:
                self.bits.pop()
            elif isinstance(self.tail, tuple) and b == ("b", self.tail[1], i + self.tail[2]):
                self.bits.pop()
            else:
                break

    # -- constructors
    @staticmethod
    def const(v):
        if isinstance(v, bool):
            v = int(v)
        if not isinstance(v, int) or v < 0:
            return BV([], T)
        return BV([(v >> i) & 1 for i in range(v.bit_length())], 0)

    @staticmethod
    def input(name, width=None):
        if width is None:
            return BV([], ("src", name, 0))
        return BV([("b", name, i) for i in range(width)], 0)

    @staticmethod
    def top():
        return BV([], T)

    # -- access
    def bit(self, i):
        if i < len(self.bits):
            return self.bits[i]
        if self.tail == 0:
            return 0
        if self.tail == T:
            return T
        return ("b", self.tail[1], i + self.tail[2])

    def width(self):
        """number of possibly non-zero low bits, or None if unbounded"""
        return len(self.bits) if self.tail == 0 else None

    def is_const(self):
        return self.tail == 0 and all(b in (0, 1) for b in self.bits)

    def value(self):
        return sum(b << i for i, b in enumerate(self.bits))

    def is_top(self):
        return self.tail == T and not self.bits

    def has_top(self):
        return self.tail == T or any(b == T for b in self.bits)

    def window(self, lo, n):
        return [self.bit(lo + i) for i in range(n)]

    def sources(self):
        s = {b[1] for b in self.bits if isinstance(b, tuple)}
        if isinstance(self.tail, tuple):
            s.add(self.tail[1])
        return s

    def __eq__(self, o):
        return isinstance(o, BV) and self.bits == o.bits and self.tail == o.tail

    def __repr__(self):
        return "BV(%s)" % self.describe()

    def describe(self):
        """compact: runs of identical provenance"""
        out = []
        i = 0
        n = len(self.bits)
        while i < n:
            b = self.bits[i]
            j = i
            if isinstance(b, tuple):
                while j + 1 < n and self.bits[j + 1] == ("b", b[1], b[2] + (j + 1 - i)):
                    j += 1
                out.append("[%d..%d]=%s[%d..%d]" % (i, j, b[1], b[2], b[2] + j - i))
            else:
                while j + 1 < n and self.bits[j + 1] == b:
                    j += 1
                out.append("[%d..%d]=%s" % (i, j, b))
            i = j + 1
        if self.tail == T:
            out.append("[%d..]=T" % n)
        elif isinstance(self.tail, tuple):
            out.append("[%d..]=%s[%d..]" % (n, self.tail[1], n + self.tail[2]))
        return " ".join(out) if out else "0"

    # -- helpers
    def _mat(self, n):
        return [self.bit(i) for i in range(n)]

    # -- transfer functions
    def shl(self, c):
        if c < 0 or c > MAXW:
            return BV.top()
        tail = self.tail
        if isinstance(tail, tuple):
            tail = ("src", tail[1], tail[2] - c)
        return BV([0] * c + self.bits, tail)

    def shr(self, c):
        if c < 0:
            return BV.top()
        tail = self.tail
        bits = self.bits[c:]
        if isinstance(tail, tuple):
            tail = ("src", tail[1], tail[2] + c)
        return BV(bits, tail)

    @staticmethod
    def _and_bit(a, b):
        if a == 0 or b == 0:
            return 0
        if a == 1:
            return b
        if b == 1:
            return a
        if a == b:
            return a
        return T

    @staticmethod
    def _or_bit(a, b):
        if a == 1 or b == 1:
            return 1
        if a == 0:
            return b
        if b == 0:
            return a
        if a == b:
            return a
        return T

    @staticmethod
    def _xor_bit(a, b):
        if a == 0:
            return b
        if b == 0:
            return a
        if a in (0, 1) and b in (0, 1):
            return a ^ b
        if a == b and a != T:
            return 0
        return T

    def _zip(self, o, fn, tailfn):
        n = max(len(self.bits), len(o.bits))
        tail = tailfn(self.tail, o.tail)
        if tail == "mat":
            # tails differ and are not absorbing: materialise up to MAXW then give up above
            n = max(n, MAXW)
            tail = T
        return BV([fn(self.bit(i), o.bit(i)) for i in range(n)], tail)

    def band(self, o):
        def tf(a, b):
            if a == 0 or b == 0:
                return 0
            if a == b:
                return a
            return T
        return self._zip(o, BV._and_bit, tf)

    def bor(self, o):
        def tf(a, b):
            if a == 0:
                return b
            if b == 0:
                return a
            if a == b:
                return a
            return T
        return self._zip(o, BV._or_bit, tf)

    def bxor(self, o):
        def tf(a, b):
            if a == 0:
                return b
            if b == 0:
                return a
            return T
        return self._zip(o, BV._xor_bit, tf)

    def add(self, o):
        """exact (= or) when supports are disjoint; else T from the lowest overlap upward"""
        n = max(len(self.bits), len(o.bits))
        both_tail = self.tail != 0 and o.tail != 0
        out = []
        overlap = None
        for i in range(n):
            a, b = self.bit(i), o.bit(i)
            if a != 0 and b != 0:
                overlap = i
                break
            out.append(a if b == 0 else b)
        if overlap is None and not both_tail:
            return BV(out, self.tail if o.tail == 0 else o.tail)
        if overlap is None:
            return BV(out, T)
        # constant + constant handled by caller; general carry: unknown above
        return BV(out + [T] * 0, T) if overlap == len(out) else BV(out, T)

    def sub_const(self, c):
        """x - c, exact only when the low bits of x covering c are known ones where c has ones"""
        if c == 0:
            return self
        k = c.bit_length()
        low = self._mat(k)
        if all(b in (0, 1) for b in low):
            v = sum(b << i for i, b in enumerate(low))
            if v >= c:
                r = v - c
                return BV([(r >> i) & 1 for i in range(k)] + [self.bit(i) for i in range(k, max(k, len(self.bits)))], self.tail)
        # every set bit of c is a known 1 in x: clear them (no borrow)
        if all(((c >> i) & 1) == 0 or low[i] == 1 for i in range(k)):
            bits = self._mat(max(k, len(self.bits)))
            for i in range(k):
                if (c >> i) & 1:
                    bits[i] = 0
            return BV(bits, self.tail)
        return BV.top()

    def mask(self, m):
        return self.band(BV.const(m))


class BitEval:
    LOSSY = []   # notes about float-lossy constructs met since the last pop_lossy()

    @staticmethod
    def pop_lossy():
        out, BitEval.LOSSY[:] = list(BitEval.LOSSY), []
        return out

    """Evaluates a Sym to a BV.  `leaf(sym)` binds inputs (returns BV or None);
    unknown constructs give top, never a wrong fact."""

    def __init__(self, leaf=None, note=None):
        self.leaf = leaf or (lambda s: None)
        self.notes = note if note is not None else []

    def ev(self, s):
        v = self.leaf(s)
        if v is not None:
            return v
        k = s[0]
        if k == "c":
            c = s[1]
            if isinstance(c, EnumVal):
                c = c.value
            if isinstance(c, (bool, int)):
                return BV.const(int(c))
            return BV.top()
        if k == "bin":
            return self.binop(s[1], s[2], s[3])
        if k == "ife":
            a, b = self.ev(s[2]), self.ev(s[3])
            return a if a == b else self.join(a, b)
        if k == "cmp" or k == "not" or k == "bool":
            return BV([T], 0)   # a bool: one unknown bit
        if k == "call":
            f = s[1]
            # int(x) of an exact integer expression
            if f == ("glob", "int") and len(s[2]) == 1:
                x = s[2][0]
                if x[0] == "bin" and x[1] == "/":
                    # int(a / 2**k): true division goes through a float.  Exact (= a >> k) only while a fits the 53-bit mantissa.
                    a, b = self.ev(x[2]), self.ev(x[3])
                    if b.is_const():
                        v = b.value()
                        if v > 0 and v & (v - 1) == 0:
                            w = a.width()
                            if w is not None and w <= 53:
                                return a.shr(v.bit_length() - 1)
                            BitEval.LOSSY.append("int(x / %d) with x up to %s bits wide: the quotient is a float with a 53-bit mantissa, so it is "
                                                 "rounded (not truncated) for x >= 2**53" % (v, w if w is not None else "unbounded"))
                    return BV.top()
                return self.ev(s[2][0])
            if f == ("attr", ("glob", "int"), "from_bytes"):
                return self.from_bytes(s)
        return BV.top()

    def join(self, a, b):
        n = max(len(a.bits), len(b.bits))
        tail = a.tail if a.tail == b.tail else T
        if tail == T:
            n = max(n, 0)
        return BV([a.bit(i) if a.bit(i) == b.bit(i) else T for i in range(n)], tail)

    def binop(self, op, l, r):
        if op in ("<<", ">>"):
            a = self.ev(l)
            if is_const(r) and isinstance(r[1], int):
                return a.shl(r[1]) if op == "<<" else a.shr(r[1])
            b = self.ev(r)
            if b.is_const():
                return a.shl(b.value()) if op == "<<" else a.shr(b.value())
            return BV.top()
        a, b = self.ev(l), self.ev(r)
        if op == "&":
            return a.band(b)
        if op == "|":
            return a.bor(b)
        if op == "^":
            return a.bxor(b)
        if op == "+":
            if a.is_const() and b.is_const():
                return BV.const(a.value() + b.value())
            return a.add(b)
        if op == "-":
            if a.is_const() and b.is_const():
                return BV.const(a.value() - b.value()) if a.value() >= b.value() else BV.top()
            if b.is_const():
                return a.sub_const(b.value())
            return BV.top()
        if op == "*":
            for x, y in ((a, b), (b, a)):
                if y.is_const():
                    v = y.value()
                    if v == 0:
                        return BV.const(0)
                    if v & (v - 1) == 0:
                        return x.shl(v.bit_length() - 1)
            if a.is_const() and b.is_const():
                return BV.const(a.value() * b.value())
            return BV.top()
        if op == "**":
            if a.is_const() and b.is_const() and b.value() < MAXW:
                return BV.const(a.value() ** b.value())
            return BV.top()
        if op == "//":
            if b.is_const():
                v = b.value()
                if v > 0 and v & (v - 1) == 0:
                    return a.shr(v.bit_length() - 1)
            return BV.top()
        if op == "%":
            if b.is_const():
                v = b.value()
                if v > 0 and v & (v - 1) == 0:
                    return a.mask(v - 1)
            return BV.top()
        return BV.top()

    def from_bytes(self, s):
        """int.from_bytes(<list of byte syms>, byteorder='little', signed=False)"""
        args, kw = s[2], dict(s[3])
        seq = args[0] if args else kw.get("bytes")
        order = args[1] if len(args) > 1 else kw.get("byteorder")
        signed = kw.get("signed", ("c", False))
        if seq is None or order is None or not is_const(order) or signed != ("c", False):
            return BV.top()
        items = self.byte_list(seq)
        if items is None:
            return BV.top()
        if order[1] == "big":
            items = items[::-1]
        elif order[1] != "little":
            return BV.top()
        bits = []
        for it in items:
            w = it.width()
            if w is None or w > 8:
                return BV.top()
            bits.extend(it._mat(8))
        return BV(bits, 0)

    def byte_list(self, seq):
        if seq[0] == "list":
            return [self.ev(x) for x in seq[1]]
        v = self.leaf(("bytes-of", seq))
        return v


def to_bytes_syms(x, n):
    """x.to_bytes(n, 'little') as Syms"""
    return [("bin", "&", ("c", 255), ("bin", ">>", x, ("c", 8 * i))) if i else ("bin", "&", ("c", 255), x)
            for i in range(n)]


def selftest(seed=0, rounds=3000):
    """Checks the transfer functions against Python integer semantics on random operands.
    (A test of the checker's trusted base, not of the repository.)"""
    import random
    rnd = random.Random(seed)
    n = 0

    def concretize(bv, envv, nbits=96):
        v = 0
        for i in range(nbits):
            b = bv.bit(i)
            if b == T:
                return None
            if isinstance(b, tuple):
                b = (envv[b[1]] >> b[2]) & 1
            v |= b << i
        return v

    for _ in range(rounds):
        wx, wy = rnd.choice([3, 8, 16, 21]), rnd.choice([1, 5, 8, 11])
        x, y = rnd.getrandbits(wx), rnd.getrandbits(wy)
        envv = {"x": x, "y": y}
        X, Y = BV.input("x", wx), BV.input("y", wy)
        c = rnd.choice([0, 1, 2, 3, 5, 8, 11, 16, 21])
        m = rnd.choice([0x1, 0x7, 0x1F, 0xFF, 0xE0, 0x70000, 0xFFFF, 0x3FFFF])
        cases = [
            (X.shl(c), x << c), (X.shr(c), x >> c), (X.mask(m), x & m),
            (X.shl(c).bor(Y), None if False else ((x << c) | y)),
            (X.shl(wy).add(Y), (x << wy) + y),
            (X.shl(c).add(Y), (x << c) + y),
            (X.band(Y), x & y), (X.bxor(BV.const(m)), x ^ m),
            (X.shl(1).add(BV.const(1)), (x << 1) + 1),
            (X.shl(1).add(BV.const(1)).sub_const(1), (x << 1)),
            (BV.input("x").shr(c).mask(m), (x >> c) & m),
        ]
        for bv, want in cases:
            got = concretize(bv, envv)
            n += 1
            if got is not None and got != want:
                raise AssertionError("bits.py transfer function unsound: %r got %d want %d (x=%d y=%d c=%d m=%d)"
                                     % (bv, got, want, x, y, c, m))
    return n
