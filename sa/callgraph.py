"""Resolved call graph, receiver typing, callback fields, registries, thread roles."""
import ast
from .model import AnalysisError, Cls
from .sym import SELF, pretty
from .paths import runs_of

# Element types of list fields that cannot be read off a constructor call.
# (who appends what was confirmed by reading: ECU.add_ca -> dll.add_ca(ca))
ELEM_TYPES = {
    ("J1939_21", "_cas"): "ControllerApplication",
    ("J1939_22", "_cas"): "ControllerApplication",
}
# attribute -> class for objects whose class the package does not annotate
EXTRA_FIELD_TYPES = {
    ("ControllerApplication", "_name"): "Name",
    ("ControllerApplication", "_ecu"): "ElectronicControlUnit",
}
# registration API (class, method, callback parameter) -> function that later invokes the callable
REGISTRIES = [
    ("ElectronicControlUnit", "add_timer", "callback", ("ElectronicControlUnit", "_async_job_thread")),
    ("ElectronicControlUnit", "subscribe", "callback", ("ElectronicControlUnit", "_notify_subscribers")),
    ("ControllerApplication", "subscribe_request", "callback", ("ControllerApplication", "_process_request")),
    ("ControllerApplication", "add_timer", "callback", ("ElectronicControlUnit", "_async_job_thread")),
    ("ControllerApplication", "subscribe", "callback", ("ElectronicControlUnit", "_notify_subscribers")),
]
EXTERNAL = "<external>"

BUILTIN_NORAISE = {"len", "min", "max", "int", "list", "range", "enumerate", "callable", "isinstance", "hex", "str",
                   "print", "bool", "abs", "sorted", "tuple", "dict", "set", "zip", "format", "repr", "bytes",
                   "bytearray", "float", "round", "sum", "any", "all", "id", "type", "super", "iter", "next",
                   "getattr", "hasattr"}


MODULES = {"time", "logger", "logging", "queue", "np", "secrets", "threading", "sys", "can", "int"}
BUILTIN_METHODS = {"append", "extend", "insert", "remove", "pop", "copy", "get", "put", "format", "tolist", "to_bytes",
                   "from_bytes", "qsize", "set", "is_set", "join", "start", "clear", "keys", "values", "items",
                   "index", "count", "sort", "reverse", "update", "setdefault", "split", "strip", "lower", "upper"}


class CallSite:
    __slots__ = ("caller", "node", "sym", "targets", "resolved")

    def __init__(self, caller, node, sym, targets, resolved):
        self.caller, self.node, self.sym, self.targets, self.resolved = caller, node, sym, targets, resolved


class CallGraph:
    def __init__(self, prog):
        self.prog = prog
        self.field_types = {}     # (cls, field) -> set(cls names)
        self.callback_fields = {}  # (cls, field) -> set(Func)
        self._scan_fields()
        self.sites = {}           # func.qual -> [CallSite]
        self.edges = {}           # func.qual -> set(func.qual | EXTERNAL)
        self.registered = {}      # invoker qual -> set(Func)  (library callables stored in registries)
        self.unresolved = []
        self._build()

    # ------------------------------------------------------------ field types
    def _cls_of_expr(self, n, func):
        """class name constructed by expression `n` (X(...), j1939.X(...)) or None"""
        if isinstance(n, ast.Call):
            f = n.func
            name = f.attr if isinstance(f, ast.Attribute) else (f.id if isinstance(f, ast.Name) else None)
            if name in self.prog.top_classes:
                return name
        return None

    def _ctor_classes(self, n, fn):
        """class names a call expression may construct: X(...), j1939.X(...), or alias(...) where `alias` is a local that is only
        ever bound to classes (alias = X in sibling branches, or the target of a loop over a display that names classes)"""
        k = self._cls_of_expr(n, fn)
        if k:
            return [k]
        if not (isinstance(n, ast.Call) and isinstance(n.func, ast.Name)):
            return []
        name = n.func.id
        out, other = set(), False
        for a in ast.walk(fn.node):
            if isinstance(a, ast.Assign) and any(isinstance(t, ast.Name) and t.id == name for t in a.targets):
                if isinstance(a.value, ast.Name) and a.value.id in self.prog.top_classes:
                    out.add(a.value.id)
                elif isinstance(a.value, ast.Attribute) and a.value.attr in self.prog.top_classes:
                    out.add(a.value.attr)
                elif isinstance(a.value, ast.Constant) and a.value.value is None:
                    pass
                else:
                    other = True
            elif isinstance(a, (ast.For, ast.comprehension)) and any(isinstance(x, ast.Name) and x.id == name for x in ast.walk(a.target)):
                for x in ast.walk(a.iter):
                    if isinstance(x, ast.Name) and x.id in self.prog.top_classes:
                        out.add(x.id)
        return sorted(out) if out and not other else []

    def _call_keywords(self, call, fn):
        """keyword bindings of a call, `**name` expanded when `name` is a local bound once to a dict display / dict(k=v) call
        (displays may themselves splice other such locals in)"""
        out = {}

        def expand(expr, depth=0):
            if depth > 3:
                return
            if isinstance(expr, ast.Name):
                asg = [a for a in ast.walk(fn.node) if isinstance(a, ast.Assign) and any(isinstance(t, ast.Name) and t.id == expr.id for t in a.targets)]
                if len(asg) == 1:
                    expand(asg[0].value, depth + 1)
                    # later `name['k'] = v` / name.update(k=v) refinements
                    for a in ast.walk(fn.node):
                        if isinstance(a, ast.Assign) and len(a.targets) == 1 and isinstance(a.targets[0], ast.Subscript) and \
                                isinstance(a.targets[0].value, ast.Name) and a.targets[0].value.id == expr.id and \
                                isinstance(a.targets[0].slice, ast.Constant) and isinstance(a.targets[0].slice.value, str):
                            out[a.targets[0].slice.value] = a.value
                        if isinstance(a, ast.Call) and isinstance(a.func, ast.Attribute) and a.func.attr == "update" and \
                                isinstance(a.func.value, ast.Name) and a.func.value.id == expr.id:
                            for kw in a.keywords:
                                if kw.arg:
                                    out[kw.arg] = kw.value
                                else:
                                    expand(kw.value, depth + 1)
                            for ar in a.args:
                                expand(ar, depth + 1)
            elif isinstance(expr, ast.Dict):
                for k_, v_ in zip(expr.keys, expr.values):
                    if k_ is None:
                        expand(v_, depth + 1)
                    elif isinstance(k_, ast.Constant) and isinstance(k_.value, str):
                        out[k_.value] = v_
            elif isinstance(expr, ast.Call) and isinstance(expr.func, ast.Name) and expr.func.id == "dict":
                for ar in expr.args:
                    expand(ar, depth + 1)
                for kw in expr.keywords:
                    if kw.arg:
                        out[kw.arg] = kw.value
                    else:
                        expand(kw.value, depth + 1)
        for kw in call.keywords:
            if kw.arg:
                out[kw.arg] = kw.value
            else:
                expand(kw.value)
        return out

    def _scan_fields(self):
        P = self.prog
        for (c, f), t in EXTRA_FIELD_TYPES.items():
            self.field_types.setdefault((c, f), set()).add(t)
        ctor_calls = []  # (caller Func, call node, class name)
        for fn in P.all_funcs():
            for n in ast.walk(fn.node):
                if isinstance(n, ast.Call):
                    for k in self._ctor_classes(n, fn):
                        ctor_calls.append((fn, n, k))
                tgt = val = None
                if isinstance(n, ast.Assign) and len(n.targets) == 1:
                    tgt, val = n.targets[0], n.value
                elif isinstance(n, ast.AnnAssign):
                    tgt, val = n.target, n.value
                    if fn.cls is not None and isinstance(tgt, ast.Attribute) and isinstance(tgt.value, ast.Name) \
                            and tgt.value.id == "self":
                        an = ast.unparse(n.annotation).split(".")[-1]
                        if an in P.top_classes:
                            self.field_types.setdefault((fn.cls.name, tgt.attr), set()).add(an)
                if tgt is None or val is None or fn.cls is None:
                    continue
                if isinstance(tgt, ast.Attribute) and isinstance(tgt.value, ast.Name) and tgt.value.id == "self":
                    ks = self._ctor_classes(val, fn)
                    if ks:
                        for k in ks:
                            self.field_types.setdefault((fn.cls.name, tgt.attr), set()).add(k)
                    elif isinstance(val, ast.Name) and val.id in fn.annotations:
                        an = fn.annotations[val.id].split(".")[-1].strip("'\"")
                        if an in P.top_classes:
                            self.field_types.setdefault((fn.cls.name, tgt.attr), set()).add(an)
                    elif isinstance(val, ast.List) and len(val.elts) == 1:
                        k = self._cls_of_expr(val.elts[0], fn)
                        if k:
                            self.field_types.setdefault((fn.cls.name, tgt.attr + "[]"), set()).add(k)
        # callback fields: K(args) binds args to K.__init__ params; `self.f = param` in __init__
        for caller, call, k in ctor_calls:
            kc = P.top_classes[k]
            init = kc.methods.get("__init__")
            if init is None or caller.cls is None:
                continue
            bound = {}
            for i, a in enumerate(call.args):
                if i < len(init.params):
                    bound[init.params[i]] = a
            bound.update(self._call_keywords(call, caller))
            for st in ast.walk(init.node):
                if isinstance(st, ast.Assign) and len(st.targets) == 1 and isinstance(st.targets[0], ast.Attribute) \
                        and isinstance(st.targets[0].value, ast.Name) and st.targets[0].value.id == "self" \
                        and isinstance(st.value, ast.Name) and st.value.id in bound:
                    a = bound[st.value.id]
                    if isinstance(a, ast.Attribute) and isinstance(a.value, ast.Name) and a.value.id == "self":
                        m = P.find_method(caller.cls, a.attr)
                        if m is not None:
                            self.callback_fields.setdefault((k, st.targets[0].attr), set()).add(m)
                    elif isinstance(a, ast.Name) and a.id == "self":
                        self.field_types.setdefault((k, st.targets[0].attr), set()).add(caller.cls.name)

    # ------------------------------------------------------------- typing
    def types_of(self, s, func):
        """set of class names the Sym may denote an instance of"""
        P = self.prog
        if s == SELF:
            return {func.cls.name} if func.cls else set()
        k = s[0]
        if k == "p":
            an = func.annotations.get(s[1])
            if an:
                an = an.split(".")[-1].strip("'\"")
                if an in P.top_classes:
                    return {an}
            return set()
        if k == "attr":
            out = set()
            for bt in self.types_of(s[1], func):
                out |= self.field_types.get((bt, s[2]), set())
            return out
        if k == "call" and s[1][0] == "clsref":
            return {s[1][1].split(".")[0]}
        if k == "iter":
            src = s[1]
            if src[0] == "call" and src[1] == ("glob", "list") and src[2]:
                src = src[2][0]
            if src[0] == "attr":
                out = set()
                for bt in self.types_of(src[1], func):
                    if (bt, src[2]) in ELEM_TYPES:
                        out.add(ELEM_TYPES[(bt, src[2])])
                    out |= self.field_types.get((bt, src[2] + "[]"), set())
                return out
        return set()

    def resolve(self, callsym, func):
        """-> (set(Func), kind) for a ('call', f, args, kwargs) Sym;
        kind in resolved | builtin | external (user callable) | unknown"""
        P = self.prog
        f = callsym[1]
        if f[0] == "clsref":
            c = P.top_classes.get(f[1].split(".")[0])
            if c is not None:
                init = P.find_method(c, "__init__")
                return ({init} if init else set()), "resolved"
        if f[0] == "glob":
            q = "%s:%s" % (func.mod, f[1])
            if q in P.funcs:
                return {P.funcs[q]}, "resolved"
            if f[1] in BUILTIN_NORAISE or f[1] in ("RuntimeError", "ValueError", "RuntimeWarning", "Exception"):
                return set(), "builtin"
            return set(), "unknown"
        if f[0] == "attr":
            base, m = f[1], f[2]
            ts = self.types_of(base, func)
            out = set()
            for t in ts:
                c = P.top_classes[t]
                fn = P.find_method(c, m)
                if fn is not None:
                    out.add(fn)
                elif (t, m) in self.callback_fields:
                    out |= self.callback_fields[(t, m)]
            if out:
                return out, "resolved"
            if ts:
                # typed receiver, attribute is a plain field holding a user callable
                return set(), "external"
            if base[0] == "glob" and base[1] in MODULES:
                return set(), "builtin"
            if base[0] == "attr" and base[1][0] == "glob" and base[1][1] in MODULES:
                return set(), "builtin"
            if m in BUILTIN_METHODS:
                return set(), "builtin"
            return set(), "unknown"
        if f[0] in ("sub", "iter", "item", "p", "var"):
            return set(), "external"
        return set(), "unknown"

    # -------------------------------------------------------------- building
    def _build(self):
        P = self.prog
        for fn in P.all_funcs():
            sites = {}
            try:
                runs = runs_of(P, fn, unroll=1)
            except AnalysisError:
                raise
            for r in runs:
                for _, e in r.effects():
                    if e.kind != "call" or id(e.node) in sites:
                        continue
                    targets, kind = self.resolve(e.value, fn)
                    sites[id(e.node)] = CallSite(fn, e.node, e.value, targets, kind)
            lst = sorted(sites.values(), key=lambda s: (s.node.lineno, s.node.col_offset))
            self.sites[fn.qual] = lst
            self.edges[fn.qual] = set()
            for s in lst:
                for t in s.targets:
                    self.edges[fn.qual].add(t.qual)
                if s.resolved == "external":
                    self.edges[fn.qual].add(EXTERNAL)
                if s.resolved == "unknown":
                    self.unresolved.append(s)
        # registries
        reg_api = {}
        for c, m, param, inv in REGISTRIES:
            if P.has_func(c, m) and P.has_func(*inv):
                reg_api[P.func(c, m).qual] = (param, P.func(*inv).qual)
        for q, lst in self.sites.items():
            for s in lst:
                for t in s.targets:
                    if t.qual in reg_api:
                        param, inv = reg_api[t.qual]
                        arg = self._arg(s.sym, t, param)
                        if arg is not None and arg[0] == "attr" and arg[1] == SELF and s.caller.cls is not None:
                            m = P.find_method(s.caller.cls, arg[2])
                            if m is not None:
                                self.registered.setdefault(inv, set()).add(m)
                                self.edges[inv].add(m.qual)
        for inv in {v[1] for v in reg_api.values()}:
            self.edges.setdefault(inv, set()).add(EXTERNAL)

    def _arg(self, callsym, target, param):
        args, kwargs = callsym[2], callsym[3]
        for n, v in kwargs:
            if n == param:
                return v
        if param in target.params:
            i = target.params.index(param)
            if i < len(args):
                return args[i]
        return None

    def arg(self, callsym, target, param):
        return self._arg(callsym, target, param)

    # ----------------------------------------------------------------- queries
    def reach(self, roots):
        seen = set()
        todo = [r.qual if hasattr(r, "qual") else r for r in roots]
        while todo:
            q = todo.pop()
            if q in seen or q == EXTERNAL:
                continue
            seen.add(q)
            todo.extend(self.edges.get(q, ()))
        return seen

    def reaches(self, src, dst_quals):
        return bool(self.reach([src]) & set(dst_quals))

    def callers_of(self, qual):
        out = []
        for q, lst in self.sites.items():
            for s in lst:
                if any(t.qual == qual for t in s.targets):
                    out.append(s)
        return out

    def roles(self):
        P = self.prog
        job = self.reach([P.func("ElectronicControlUnit", "_async_job_thread")])
        rx = self.reach([P.func("MessageListener", "on_message_received"), P.func("ElectronicControlUnit", "notify")])
        return {"JOB": job, "RX": rx}
