"""Propositional reasoning over branch conditions (finite truth tables, no solver)."""
import itertools
from .sym import is_const, mk_not, mk_bool, mk_cmp, pretty, SELF
from .model import AnalysisError, EnumVal

MAX_ATOMS = 14


def atoms(f, acc=None):
    acc = set() if acc is None else acc
    k = f[0]
    if k == "bool":
        for x in f[2]:
            atoms(x, acc)
    elif k == "not":
        atoms(f[1], acc)
    elif k == "c" and not isinstance(f[1], EnumVal):
        pass
    else:
        acc.add(f)
    return acc


def evalf(f, asg):
    k = f[0]
    if k == "bool":
        if f[1] == "and":
            return all(evalf(x, asg) for x in f[2])
        return any(evalf(x, asg) for x in f[2])
    if k == "not":
        return not evalf(f[1], asg)
    if k == "c" and not isinstance(f[1], EnumVal):
        return bool(f[1])
    return asg[f]


def _eq_parts(a):
    """atom `X == const` -> (X, const) else None"""
    if a[0] == "cmp" and a[1] == "==":
        if is_const(a[2]) and not is_const(a[3]):
            return a[3], a[2][1]
        if is_const(a[3]) and not is_const(a[2]):
            return a[2], a[3][1]
    return None


def _lt_parts(a):
    """atom `X < c` -> ('ub', X, c) ; `c < X` -> ('lb', X, c)"""
    if a[0] == "cmp" and a[1] == "<":
        if is_const(a[3]) and not is_const(a[2]) and isinstance(a[3][1], (int, float)):
            return ("ub", a[2], a[3][1])
        if is_const(a[2]) and not is_const(a[3]) and isinstance(a[2][1], (int, float)):
            return ("lb", a[3], a[2][1])
    return None


def consistent(asg):
    """rule out assignments that contradict arithmetic on constants:
    X==a & X==b (a!=b);  X==a vs X<c / c<X;  X<c1 vs c2<X"""
    eqs = {}
    for a, v in asg.items():
        p = _eq_parts(a)
        if p and v:
            if p[0] in eqs and eqs[p[0]] != p[1]:
                return False
            eqs[p[0]] = p[1]
    lo, hi = {}, {}
    for a, v in asg.items():
        p = _lt_parts(a)
        if not p:
            continue
        kind, x, c = p
        if kind == "ub":      # x < c  (v)  /  x >= c (not v)
            if v:
                hi[x] = min(hi.get(x, c - 1), c - 1) if isinstance(c, int) else hi.get(x, c)
            else:
                lo[x] = max(lo.get(x, c), c)
        else:                 # c < x (v) / x <= c (not v)
            if v:
                lo[x] = max(lo.get(x, c + 1), c + 1) if isinstance(c, int) else lo.get(x, c)
            else:
                hi[x] = min(hi.get(x, c), c)
    for x in set(lo) | set(hi):
        if x in lo and x in hi and lo[x] > hi[x]:
            return False
        if x in eqs and isinstance(eqs[x], (int, float)) and not isinstance(eqs[x], bool):
            if x in lo and eqs[x] < lo[x]:
                return False
            if x in hi and eqs[x] > hi[x]:
                return False
    # trichotomy on the same pair of non-constant operands: exactly one of x<y, x==y, y<x
    rel = {}
    for a, v in asg.items():
        if a[0] == "cmp" and a[1] in ("<", "==") and not is_const(a[2]) and not is_const(a[3]):
            pair = tuple(sorted((a[2], a[3]), key=repr))
            if a[1] == "==":
                rel.setdefault(pair, {})["eq"] = v
            else:
                rel.setdefault(pair, {})["lt" if (a[2], a[3]) == pair else "gt"] = v
    for pair, d in rel.items():
        trues = sum(1 for v in d.values() if v)
        if trues > 1:
            return False
        if len(d) == 3 and trues == 0:
            return False
    return True


def assignments(fs, extra_atoms=()):
    al = set(extra_atoms)
    for f in fs:
        atoms(f, al)
    al = sorted(al, key=repr)
    if len(al) > MAX_ATOMS:
        raise AnalysisError("too many atoms (%d) for a truth table" % len(al))
    for vals in itertools.product((False, True), repeat=len(al)):
        asg = dict(zip(al, vals))
        if consistent(asg):
            yield asg


def implies(p, q):
    """p => q for every consistent assignment; returns (ok, counterexample)"""
    for asg in assignments([p, q]):
        if evalf(p, asg) and not evalf(q, asg):
            return False, {pretty(k): v for k, v in asg.items()}
    return True, None


def equivalent(p, q):
    for asg in assignments([p, q]):
        if evalf(p, asg) != evalf(q, asg):
            return False, {pretty(k): v for k, v in asg.items()}
    return True, None


def satisfiable(p):
    for asg in assignments([p]):
        if evalf(p, asg):
            return True
    return False


def conj(guards):
    """[(sym, pol)] -> formula"""
    return mk_bool("and", [g if pol else mk_not(g) for g, pol in guards]) if guards else ("c", True)


def disj(fs):
    fs = list(fs)
    return mk_bool("or", fs) if fs else ("c", False)


def subst(s, fn):
    """bottom-up rewriting of a Sym; fn(sym)->sym or None"""
    if not isinstance(s, tuple) or not s:
        return s
    if isinstance(s[0], str):
        parts = [s[0]]
        for x in s[1:]:
            if isinstance(x, tuple):
                if x and isinstance(x[0], str):
                    parts.append(subst(x, fn))
                else:
                    parts.append(tuple(
                        (subst(y, fn) if (isinstance(y, tuple) and y and isinstance(y[0], str))
                         else (tuple(subst(z, fn) if isinstance(z, tuple) and z and isinstance(z[0], str) else z for z in y)
                               if isinstance(y, tuple) else y))
                        for y in x))
            else:
                parts.append(x)
        out = tuple(parts)
        r = fn(out)
        return out if r is None else r
    return s


def renorm(s):
    """re-apply the normalising constructors after a substitution"""
    from .sym import mk_bin
    def fn(x):
        if x[0] == "cmp":
            return mk_cmp(x[1], x[2], x[3])
        if x[0] == "not":
            return mk_not(x[1])
        if x[0] == "bool":
            return mk_bool(x[1], list(x[2]))
        if x[0] == "bin":
            return mk_bin(x[1], x[2], x[3])
        return None
    return subst(s, fn)


def intervals(guards):
    """{sym: [lo, hi]} implied by a conjunction of guard literals (consts only; one-sided -> None)"""
    out = {}

    def add(x, lo=None, hi=None):
        cur = out.setdefault(x, [None, None])
        if lo is not None:
            cur[0] = lo if cur[0] is None else max(cur[0], lo)
        if hi is not None:
            cur[1] = hi if cur[1] is None else min(cur[1], hi)

    def lit(f, pol):
        k = f[0]
        if k == "not":
            return lit(f[1], not pol)
        if k == "bool":
            if (f[1] == "and" and pol) or (f[1] == "or" and not pol):
                for x in f[2]:
                    lit(x, pol)
            return
        p = _lt_parts(f)
        if p:
            kind, x, c = p
            if kind == "ub":
                add(x, hi=c - 1) if pol else add(x, lo=c)
            else:
                add(x, lo=c + 1) if pol else add(x, hi=c)
            return
        e = _eq_parts(f)
        if e and pol and isinstance(e[1], int) and not isinstance(e[1], bool):
            add(e[0], lo=e[1], hi=e[1])

    for g, pol in guards:
        lit(g, pol)
    return out
