"""Program model of <root>/j1939: modules, classes, functions, constants.

Pure syntax: nothing under <root> is imported or executed.
"""
import ast
import os


class AnalysisError(Exception):
    """The engine met something it cannot interpret (-> UNKNOWN, exit 2)."""


class EnumVal:
    __slots__ = ("cls", "name", "value")

    def __init__(self, cls, name, value):
        self.cls, self.name, self.value = cls, name, value

    def __eq__(self, o):
        return isinstance(o, EnumVal) and (self.cls, self.name) == (o.cls, o.name)

    def __hash__(self):
        return hash((self.cls, self.name))

    def __repr__(self):
        return "%s.%s" % (self.cls, self.name)


NOCONST = object()


class Cls:
    def __init__(self, mod, name, node, outer=None):
        self.mod, self.name, self.node, self.outer = mod, name, node, outer
        self.qual = (outer.qual + "." + name) if outer else name
        self.consts = {}      # name -> python value / EnumVal / list / dict
        self.const_nodes = {}  # name -> ast value node
        self.methods = {}     # name -> Func (getter wins for properties)
        self.setters = {}     # property name -> Func
        self.getters = {}     # property name -> Func
        self.nested = {}      # name -> Cls
        self.bases = [ast.unparse(b) for b in node.bases]
        self.is_enum = any(b.split(".")[-1] == "Enum" for b in self.bases)

    def __repr__(self):
        return "<Cls %s:%s>" % (self.mod, self.qual)


class Func:
    def __init__(self, mod, cls, node):
        self.mod, self.cls, self.node = mod, cls, node
        self.name = node.name
        self.qual = "%s:%s" % (mod, (cls.qual + "." if cls else "") + node.name)
        a = node.args
        self.all_params = [x.arg for x in a.posonlyargs + a.args]
        self.is_method = cls is not None and not any(
            isinstance(d, ast.Name) and d.id == "staticmethod" for d in node.decorator_list)
        self.params = self.all_params[1:] if self.is_method and self.all_params else list(self.all_params)
        self.kwonly = [x.arg for x in a.kwonlyargs]
        nd = len(a.defaults)
        pos = a.posonlyargs + a.args
        self.defaults = {}
        for p, d in zip(pos[len(pos) - nd:], a.defaults):
            self.defaults[p.arg] = d
        for p, d in zip(a.kwonlyargs, a.kw_defaults):
            if d is not None:
                self.defaults[p.arg] = d
        self.vararg = a.vararg.arg if a.vararg else None
        self.kwarg = a.kwarg.arg if a.kwarg else None
        self.annotations = {x.arg: ast.unparse(x.annotation) for x in pos + a.kwonlyargs if x.annotation is not None}
        self.kind = "method"
        for d in node.decorator_list:
            if isinstance(d, ast.Name) and d.id == "property":
                self.kind = "getter"
            elif isinstance(d, ast.Attribute) and d.attr == "setter":
                self.kind = "setter"

    @property
    def file(self):
        return "j1939/%s.py" % self.mod

    def __repr__(self):
        return "<Func %s>" % self.qual


class Program:
    PKG = "j1939"

    def __init__(self, root):
        self.root = root
        self.pkgdir = os.path.join(root, self.PKG)
        if not os.path.isdir(self.pkgdir):
            raise AnalysisError("package directory %s not found" % self.pkgdir)
        self.modules = {}     # modname -> ast.Module
        self.sources = {}
        self.classes = {}     # simple name -> [Cls]  (all, incl nested)
        self.top_classes = {}  # simple name -> Cls (top-level only; first wins)
        self.funcs = {}       # qual -> Func
        self.mod_consts = {}  # modname -> {name: value}
        self.mod_const_nodes = {}
        self.files = []
        for fn in sorted(os.listdir(self.pkgdir)):
            if not fn.endswith(".py"):
                continue
            path = os.path.join(self.pkgdir, fn)
            src = open(path, encoding="utf-8").read()
            try:
                tree = ast.parse(src, filename=path)
            except SyntaxError as e:
                raise AnalysisError("cannot parse %s: %s" % (path, e))
            mod = fn[:-3]
            self.modules[mod] = tree
            self.sources[mod] = src
            self.files.append("j1939/" + fn)
        for mod, tree in self.modules.items():
            self.mod_consts[mod] = {}
            self.mod_const_nodes[mod] = {}
            for st in tree.body:
                if isinstance(st, ast.ClassDef):
                    self._add_class(mod, st, None)
                elif isinstance(st, (ast.FunctionDef,)):
                    f = Func(mod, None, st)
                    self.funcs[f.qual] = f
        # constants need classes first (Enum refs); two passes for cross refs
        for _ in range(2):
            for mod, tree in self.modules.items():
                for st in tree.body:
                    if isinstance(st, ast.Assign) and len(st.targets) == 1 and isinstance(st.targets[0], ast.Name):
                        self.mod_const_nodes[mod][st.targets[0].id] = st.value
                        v = self.const_eval(st.value, mod, None)
                        if v is not NOCONST:
                            self.mod_consts[mod][st.targets[0].id] = v
            for lst in self.classes.values():
                for c in lst:
                    self._class_consts(c)

    # ------------------------------------------------------------------ build
    def _add_class(self, mod, node, outer):
        c = Cls(mod, node.name, node, outer)
        self.classes.setdefault(node.name, []).append(c)
        if outer is None:
            self.top_classes.setdefault(node.name, c)
        else:
            outer.nested[node.name] = c
        for st in node.body:
            if isinstance(st, ast.ClassDef):
                self._add_class(mod, st, c)
            elif isinstance(st, ast.FunctionDef):
                f = Func(mod, c, st)
                if f.kind == "setter":
                    c.setters[f.name] = f
                    self.funcs[f.qual + "@setter"] = f
                    f.qual += "@setter"
                else:
                    if f.kind == "getter":
                        c.getters[f.name] = f
                    c.methods[f.name] = f
                    self.funcs[f.qual] = f
        return c

    def _class_consts(self, c):
        # a class-level name that some method re-binds (self.x = ..., Cls.x = ...) is per-object / mutable state, not a constant
        rebound = {n.attr for n in ast.walk(c.node) if isinstance(n, ast.Attribute) and isinstance(n.ctx, (ast.Store, ast.Del))}
        for st in c.node.body:
            if isinstance(st, ast.Assign) and len(st.targets) == 1 and isinstance(st.targets[0], ast.Name):
                n = st.targets[0].id
                if n in rebound:
                    continue
                c.const_nodes[n] = st.value
                v = self.const_eval(st.value, c.mod, c)
                if v is NOCONST:
                    continue
                c.consts[n] = EnumVal(c.qual, n, v) if c.is_enum else v

    # -------------------------------------------------------------- constants
    def const_eval(self, node, mod, cls):
        """Evaluate a constant expression; NOCONST if it is not one."""
        try:
            return self._ce(node, mod, cls)
        except _NotConst:
            return NOCONST

    def _ce(self, n, mod, cls):
        if isinstance(n, ast.Constant):
            return n.value
        if isinstance(n, ast.Subscript):
            base = self._ce(n.value, mod, cls)
            if isinstance(base, (tuple, list, str)):
                sl = n.slice
                try:
                    if isinstance(sl, ast.Slice):
                        lo = self._ce(sl.lower, mod, cls) if sl.lower is not None else None
                        hi = self._ce(sl.upper, mod, cls) if sl.upper is not None else None
                        st = self._ce(sl.step, mod, cls) if sl.step is not None else None
                        if all(x is None or (isinstance(x, int) and not isinstance(x, bool)) for x in (lo, hi, st)):
                            return base[lo:hi:st]
                    else:
                        i = self._ce(sl, mod, cls)
                        if isinstance(i, int) and not isinstance(i, bool):
                            return base[i]
                except (IndexError, ValueError):
                    pass
            raise _NotConst
        if isinstance(n, ast.Name):
            # class-body scope, then module scope
            c = cls
            while c is not None:
                if n.id in c.consts:
                    return c.consts[n.id]
                c = c.outer
            if n.id in self.mod_consts.get(mod, {}):
                return self.mod_consts[mod][n.id]
            raise _NotConst
        if isinstance(n, ast.Attribute):
            chain = attr_chain(n)
            if chain is None:
                raise _NotConst
            v = self.resolve_chain(chain, cls)
            if v is NOCONST or isinstance(v, Cls):
                raise _NotConst
            return v
        if isinstance(n, ast.UnaryOp):
            v = self._ce(n.operand, mod, cls)
            if isinstance(v, EnumVal):
                raise _NotConst
            if isinstance(n.op, ast.USub):
                return -v
            if isinstance(n.op, ast.Invert):
                return ~v
            if isinstance(n.op, ast.Not):
                return not v
            if isinstance(n.op, ast.UAdd):
                return +v
            raise _NotConst
        if isinstance(n, ast.BinOp):
            l, r = self._ce(n.left, mod, cls), self._ce(n.right, mod, cls)
            return fold_binop(n.op, l, r)
        if isinstance(n, (ast.List, ast.Tuple)):
            vals = [self._ce(e, mod, cls) for e in n.elts]
            return vals if isinstance(n, ast.List) else tuple(vals)
        if isinstance(n, ast.Dict):
            d = {}
            for k, v in zip(n.keys, n.values):
                if k is None:
                    raise _NotConst
                kk = self._ce(k, mod, cls)
                try:
                    d[kk] = self._ce(v, mod, cls)
                except TypeError:
                    raise _NotConst
            return d
        raise _NotConst

    def resolve_chain(self, chain, cls):
        """['self','ConnectionMode','RTS'] / ['j1939','ParameterGroupNumber','PGN','DM14'] ->
        value, Cls, or NOCONST."""
        chain = list(chain)
        cur = None
        if chain and chain[0] == "j1939":
            chain = chain[1:]
        if not chain:
            return NOCONST
        if chain[0] in ("self", "cls"):
            if cls is None:
                return NOCONST
            cur = cls
            chain = chain[1:]
        else:
            head = chain[0]
            # nested class of the context class (or its outers), else top-level class
            c = cls
            found = None
            while c is not None and found is None:
                if head in c.nested:
                    found = c.nested[head]
                elif c.name == head:
                    found = c
                c = c.outer
            if found is None:
                found = self.top_classes.get(head)
            if found is None:
                # module-level constant (e.g. ErrorInfo)
                for m, d in self.mod_consts.items():
                    if head in d:
                        cur = d[head]
                        break
                else:
                    return NOCONST
                chain = chain[1:]
                for a in chain:
                    return NOCONST
                return cur
            cur = found
            chain = chain[1:]
        for a in chain:
            if isinstance(cur, Cls):
                if a in cur.nested:
                    cur = cur.nested[a]
                elif a in cur.consts:
                    cur = cur.consts[a]
                else:
                    # inherited?
                    hit = None
                    for b in cur.bases:
                        bc = self.top_classes.get(b.split(".")[-1])
                        if bc is not None and (a in bc.nested or a in bc.consts):
                            hit = bc.nested.get(a, bc.consts.get(a))
                    if hit is None:
                        return NOCONST
                    cur = hit
            elif isinstance(cur, EnumVal):
                if a == "value":
                    cur = cur.value
                elif a == "name":
                    cur = cur.name
                else:
                    return NOCONST
            else:
                return NOCONST
        return cur

    # ---------------------------------------------------------------- lookup
    def cls(self, name):
        """Top-level class by simple name, or dotted nested name."""
        parts = name.split(".")
        c = self.top_classes.get(parts[0])
        if c is None:
            raise AnalysisError("anchor vanished: class %s" % name)
        for p in parts[1:]:
            if p not in c.nested:
                raise AnalysisError("anchor vanished: class %s" % name)
            c = c.nested[p]
        return c

    def func(self, clsname, fname, setter=False):
        c = self.cls(clsname)
        f = (c.setters if setter else c.methods).get(fname)
        if f is None:
            f = self.find_method(c, fname)
        if f is None:
            raise AnalysisError("anchor vanished: function %s.%s" % (clsname, fname))
        return f

    def has_func(self, clsname, fname):
        c = self.top_classes.get(clsname)
        return c is not None and self.find_method(c, fname) is not None

    def find_method(self, c, name):
        """Method lookup incl. name-mangled privates and base classes."""
        seen = set()
        while c is not None and c.qual not in seen:
            seen.add(c.qual)
            if name in c.methods:
                return c.methods[name]
            nxt = None
            for b in c.bases:
                bc = self.top_classes.get(b.split(".")[-1])
                if bc is not None:
                    nxt = bc
                    break
            c = nxt
        return None

    def all_funcs(self):
        return list(self.funcs.values())


class _NotConst(Exception):
    pass


def fold_binop(op, l, r):
    if isinstance(l, EnumVal) or isinstance(r, EnumVal):
        raise _NotConst
    try:
        if isinstance(op, ast.Add):
            return l + r
        if isinstance(op, ast.Sub):
            return l - r
        if isinstance(op, ast.Mult):
            return l * r
        if isinstance(op, ast.Pow):
            if isinstance(r, int) and abs(r) > 4096:
                raise _NotConst
            return l ** r
        if isinstance(op, ast.LShift):
            if r > 4096:
                raise _NotConst
            return l << r
        if isinstance(op, ast.RShift):
            return l >> r
        if isinstance(op, ast.BitAnd):
            return l & r
        if isinstance(op, ast.BitOr):
            return l | r
        if isinstance(op, ast.BitXor):
            return l ^ r
        if isinstance(op, ast.FloorDiv):
            return l // r
        if isinstance(op, ast.Mod):
            if isinstance(l, str):
                raise _NotConst
            return l % r
        if isinstance(op, ast.Div):
            return l / r
    except _NotConst:
        raise
    except Exception:
        raise _NotConst
    raise _NotConst


def attr_chain(n):
    """a.b.c -> ['a','b','c'] or None."""
    out = []
    while isinstance(n, ast.Attribute):
        out.append(n.attr)
        n = n.value
    if isinstance(n, ast.Name):
        out.append(n.id)
        return out[::-1]
    return None
