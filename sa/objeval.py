"""Abstract evaluation of the package's small value classes (MessageId, ParameterGroupNumber, Name, DTC):
constructor -> field Syms, property getters/setters inlined.  Straight-line bodies only; anything else is UNKNOWN."""
import ast
from .model import AnalysisError
from .sym import SELF, SymEval, is_const, pretty, C
from .paths import Enumerator, replay

MAXDEPTH = 4


def _feasible_runs(prog, func, ev):
    from .paths import desugared_body
    en = Enumerator(unroll=1, prog=prog, cls=func.cls, inline=func.cls is not None)
    body = desugared_body(func)
    en.fnode = ast.Module(body=body, type_ignores=[])
    out = []
    for p in en.block(body):
        r = replay(prog, func, p, evalr=ev)
        if r.feasible:
            out.append(r)
    return out


def bind(prog, func, args, kwargs, cls_ctx=None):
    """env for calling func with positional Syms `args` and keyword Syms `kwargs` (defaults evaluated)"""
    env = {}
    params = func.params
    for i, a in enumerate(args):
        if i < len(params):
            env[params[i]] = a
    kw = dict(kwargs)
    for p in params + func.kwonly:
        if p in kw:
            env[p] = kw.pop(p)
    dev = SymEval(prog, func)
    for p in params + func.kwonly:
        if p not in env:
            if p in func.defaults:
                env[p] = dev.expr(func.defaults[p])
            else:
                raise AnalysisError("call of %s lacks argument %s" % (func.qual, p))
    if func.kwarg:
        env[func.kwarg] = ("dict", tuple((("c", k), v) for k, v in kw.items()))
    elif kw:
        raise AnalysisError("unexpected keyword(s) %s for %s" % (sorted(kw), func.qual))
    return env


def call_runs(prog, func, args, kwargs=(), fields=None):
    """feasible runs of func with bound arguments; `fields` preloads self.<f> values"""
    env = bind(prog, func, args, kwargs)
    ev = SymEval(prog, func, env)
    if fields:
        for k, v in fields.items():
            ev.heap[("attr", SELF, k)] = v
    return _feasible_runs(prog, func, ev)


class Obj:
    """fields of an abstract instance"""

    def __init__(self, prog, clsname, fields=None):
        self.prog, self.clsname = prog, clsname
        self.cls = prog.cls(clsname)
        self.fields = dict(fields or {})

    def _apply_stores(self, run, depth):
        for _, e in run.effects():
            if e.kind == "store" and e.target[0] == "attr" and e.target[1] == SELF:
                name = e.target[2]
                self.set(name, e.value, depth + 1)

    def set(self, name, value, depth=0):
        if depth > MAXDEPTH:
            raise AnalysisError("setter recursion too deep in %s" % self.clsname)
        st = self.cls.setters.get(name)
        if st is None:
            self.fields[name] = value
            return
        rs = call_runs(self.prog, st, [self._subst(value)], (), self.fields)
        if len(rs) != 1:
            raise AnalysisError("setter %s.%s is not straight-line (%d paths)" % (self.clsname, name, len(rs)))
        self._apply_stores(rs[0], depth)

    def _subst(self, v):
        return v

    def get(self, name, depth=0):
        if depth > MAXDEPTH:
            raise AnalysisError("getter recursion too deep in %s" % self.clsname)
        g = self.cls.getters.get(name)
        if g is None:
            if name in self.fields:
                return self.fields[name]
            # name-mangled private stored by a trivial setter
            raise AnalysisError("field %s.%s not set" % (self.clsname, name))
        ev = SymEval(self.prog, g)
        for k, v in self.fields.items():
            ev.heap[("attr", SELF, k)] = v
        rs = _feasible_runs(self.prog, g, ev)
        rets = [e.value for r in rs for _, e in r.effects() if e.kind == "ret"]
        if len(rets) > 1 and all(v in (("c", True), ("c", False)) for v in rets) and len(rets) == len(rs):
            # a predicate spelt with several `return True / return False`: its value is the condition under which True is returned
            from . import guards as _G
            from .sym import mk_bool
            conds = []
            for r in rs:
                v = [e.value for _, e in r.effects() if e.kind == "ret"][-1]
                if v == ("c", True):
                    conds.append(_G.conj(r.guards()))
            rets = [_G.disj(conds)]
        if len(rets) != 1:
            raise AnalysisError("getter %s.%s is not straight-line (%d returns)" % (self.clsname, name, len(rets)))
        # remaining self.<property> reads are resolved recursively (memoised)
        from .guards import subst, renorm
        cache = self.__dict__.setdefault("_pc", {})

        def fn(x):
            if x[0] == "attr" and x[1] == SELF and x[2] in self.cls.getters and x[2] != name:
                if x[2] not in cache:
                    cache[x[2]] = self.get(x[2], depth + 1)
                return cache[x[2]]
            # a temporary of another value class: Cls(args).prop is its constructor followed by the getter
            if x[0] == "attr" and x[1][0] == "call" and x[1][1][0] == "clsref" and x[1][1][1] in self.prog.classes:
                try:
                    tmp = construct(self.prog, x[1][1][1], [renorm(subst(a, fn)) for a in x[1][2]],
                                    tuple((k, renorm(subst(v, fn))) for k, v in x[1][3]))
                    return tmp.get(x[2], depth + 1)
                except AnalysisError:
                    return None
            return None
        return renorm(subst(rets[0], fn))


def construct(prog, clsname, args=(), kwargs=()):
    o = Obj(prog, clsname)
    init = prog.find_method(o.cls, "__init__")
    if init is None:
        return o
    rs = [r for r in call_runs(prog, init, list(args), kwargs) if r.term not in ("raise", "exc")]
    if len(rs) != 1:
        raise AnalysisError("constructor %s(...) has %d feasible paths for these arguments" % (clsname, len(rs)))
    o._apply_stores(rs[0], 0)
    o.init_run = rs[0]
    return o
