"""Syntax-directed path enumeration over the statement kinds the package uses,
and a runner that replays one path through the def-use evaluator (sym.py).

Loops are unrolled 0..k times (k configurable), `while True` paths that do not
leave after k iterations are cut (term 'cut').  Exceptional edges are optional
and driven by a rule-supplied predicate.  Any other compound statement is an
AnalysisError, never a silent skip.
"""
import ast
from .model import AnalysisError
from .sym import SymEval, Eff, mk_cmp, mk_not, mk_bool, mk_bin, is_const, is_heap_path, cat, C
from .model import EnumVal

MAX_PATHS = 60000
CATCH_ALL = (None, "Exception", "BaseException")


class Ev:
    __slots__ = ("kind", "node", "pol", "extra")

    def __init__(self, kind, node, pol=None, extra=None):
        self.kind, self.node, self.pol, self.extra = kind, node, pol, extra

    @property
    def line(self):
        return getattr(self.node, "lineno", 0)

    def __repr__(self):
        return "Ev(%s@%s %s)" % (self.kind, self.line, self.pol if self.pol is not None else "")


class Path:
    __slots__ = ("events", "term", "exc_types")

    def __init__(self, events, term="fall", exc_types=None):
        self.events, self.term, self.exc_types = events, term, exc_types

    def __add__(self, other):
        return Path(self.events + other.events, other.term, other.exc_types)


def _is_pad_loop(st):
    """while len(X) < N: X.append(C)   (the package's padding idiom)"""
    if not isinstance(st, ast.While) or st.orelse or len(st.body) != 1:
        return None
    t = st.test
    if not (isinstance(t, ast.Compare) and len(t.ops) == 1 and isinstance(t.ops[0], ast.Lt)):
        return None
    l = t.left
    if not (isinstance(l, ast.Call) and isinstance(l.func, ast.Name) and l.func.id == "len" and len(l.args) == 1
            and isinstance(l.args[0], ast.Name)):
        return None
    name = l.args[0].id
    b = st.body[0]
    if not (isinstance(b, ast.Expr) and isinstance(b.value, ast.Call) and isinstance(b.value.func, ast.Attribute)
            and b.value.func.attr == "append" and isinstance(b.value.func.value, ast.Name)
            and b.value.func.value.id == name and len(b.value.args) == 1):
        return None
    return name, t.comparators[0], b.value.args[0]


def _is_for_pad_loop(st):
    """for _ in range(N - len(X)): X.append(C)   (counted spelling of the padding idiom; nothing happens when N <= len(X))"""
    if not isinstance(st, ast.For) or st.orelse or len(st.body) != 1 or not isinstance(st.target, ast.Name):
        return None
    it = st.iter
    if not (isinstance(it, ast.Call) and isinstance(it.func, ast.Name) and it.func.id == "range" and len(it.args) == 1 and not it.keywords):
        return None
    a = it.args[0]
    if not (isinstance(a, ast.BinOp) and isinstance(a.op, ast.Sub) and isinstance(a.right, ast.Call) and isinstance(a.right.func, ast.Name)
            and a.right.func.id == "len" and len(a.right.args) == 1 and isinstance(a.right.args[0], ast.Name)):
        return None
    name = a.right.args[0].id
    b = st.body[0]
    if not (isinstance(b, ast.Expr) and isinstance(b.value, ast.Call) and isinstance(b.value.func, ast.Attribute)
            and b.value.func.attr == "append" and isinstance(b.value.func.value, ast.Name)
            and b.value.func.value.id == name and len(b.value.args) == 1):
        return None
    if any(isinstance(x, ast.Name) and x.id == st.target.id for x in ast.walk(b)):
        return None
    return name, a.left, b.value.args[0]


def _is_extend_loop(st):
    """for x in Y: L.append(x)   ==   L.extend(Y)"""
    if not isinstance(st, ast.For) or st.orelse or len(st.body) != 1 or not isinstance(st.target, ast.Name):
        return None
    b = st.body[0]
    if isinstance(b, ast.Expr) and isinstance(b.value, ast.Call) and isinstance(b.value.func, ast.Attribute) \
            and b.value.func.attr == "append" and len(b.value.args) == 1 and isinstance(b.value.args[0], ast.Name) \
            and b.value.args[0].id == st.target.id and not b.value.keywords:
        call = ast.Call(func=ast.Attribute(value=b.value.func.value, attr="extend", ctx=ast.Load()), args=[st.iter], keywords=[])
        new = ast.Expr(value=call)
        ast.copy_location(new, st)
        ast.copy_location(call, st)
        ast.fix_missing_locations(new)
        return new
    return None


def _const_truth(test):
    if isinstance(test, ast.Constant):
        return bool(test.value)
    return None


_ANCHORS = None


def anchors():
    global _ANCHORS
    if _ANCHORS is None:
        import json
        import os
        p = os.path.join(os.path.dirname(os.path.dirname(os.path.abspath(__file__))), "spec", "anchors.json")
        try:
            _ANCHORS = set(json.load(open(p))["functions"])
        except OSError:
            _ANCHORS = set()
    return _ANCHORS


class _Rename(ast.NodeTransformer):
    def __init__(self, names, prefix):
        self.names, self.prefix = names, prefix

    def visit_Name(self, n):
        if n.id in self.names:
            return ast.copy_location(ast.Name(id=self.prefix + n.id, ctx=n.ctx), n)
        return n


def _local_names(fnode):
    out = set()
    for n in ast.walk(fnode):
        if isinstance(n, ast.Name) and isinstance(n.ctx, (ast.Store, ast.Del)):
            out.add(n.id)
        elif isinstance(n, ast.ExceptHandler) and n.name:
            out.add(n.name)
    a = fnode.args
    for x in a.posonlyargs + a.args + a.kwonlyargs:
        out.add(x.arg)
    if a.vararg:
        out.add(a.vararg.arg)
    if a.kwarg:
        out.add(a.kwarg.arg)
    out.discard("self")
    return out


def _table_item(x, depth=0):
    """an element of a constant table: a scalar, or a (nested) tuple of such"""
    if isinstance(x, (int, str, float, bool, type(None))):
        return True
    return isinstance(x, tuple) and depth < 3 and all(_table_item(y, depth + 1) for y in x)


class Enumerator:
    def __init__(self, unroll=1, may_raise=None, summarize_pad=True, prog=None, cls=None, inline=True):
        self.unroll = unroll
        self.may_raise = may_raise  # node -> set of exception type names ('*' = unknown) or empty
        self.summarize_pad = summarize_pad
        self.count = 0
        self.prog, self.cls = prog, cls
        self.inline = inline and prog is not None and cls is not None
        self._n = 0
        self._depth = 0
        self.fnode = None

    # ---- inlining of helper methods that are not rule anchors (introduced by later clean-ups)
    def _helper(self, call):
        """Func for `self.h(...)` when h is a same-class method that is not an anchor, else None"""
        if not self.inline or self._depth >= 3 or not isinstance(call, ast.Call):
            return None
        f = call.func
        if isinstance(f, ast.Name) and self.fnode is not None:
            lf = self._local_function(call, f.id)
            if lf is not None:
                return lf
            # a plain function of the same module (a helper moved out of the class)
            mf = self.prog.funcs.get("%s:%s" % (self.cls.mod, f.id)) if self.cls is not None else None
            if mf is None or mf.cls is not None or mf.vararg or mf.kwarg or any(isinstance(a, ast.Starred) for a in call.args) \
                    or any(k.arg is None for k in call.keywords):
                return None
            if any(isinstance(n, (ast.Yield, ast.YieldFrom, ast.Await, ast.Global, ast.Nonlocal, ast.Lambda)) for n in ast.walk(mf.node)) or \
                    any(isinstance(n, ast.Call) and isinstance(n.func, ast.Name) and n.func.id == mf.name for n in ast.walk(mf.node)):
                return None
            if any(isinstance(n, ast.Name) and n.id == f.id and isinstance(n.ctx, (ast.Store, ast.Del)) for n in ast.walk(self.fnode)):
                return None   # shadowed by a local
            return mf
        if not (isinstance(f, ast.Attribute) and isinstance(f.value, ast.Name) and f.value.id == "self"):
            return None
        if f.attr in anchors() or any(isinstance(a, ast.Starred) for a in call.args) or any(k.arg is None for k in call.keywords):
            return None
        fn = self.prog.find_method(self.cls, f.attr)
        if fn is None or fn.kind != "method" or fn.vararg or fn.kwarg:
            return None
        if any(isinstance(n, (ast.Yield, ast.YieldFrom, ast.Await, ast.Global, ast.Nonlocal, ast.Lambda)) for n in ast.walk(fn.node)):
            return None
        if any(isinstance(n, ast.Call) and isinstance(n.func, ast.Attribute) and isinstance(n.func.value, ast.Name)
               and n.func.value.id == "self" and n.func.attr == fn.name for n in ast.walk(fn.node)):
            return None   # recursive
        return fn

    def _local_function(self, call, name):
        """Func for a call of a function defined by a `def` nested in the function being enumerated (a closure over its locals):
        bound exactly once, not re-assigned, no recursion, no varargs, no yield"""
        from .model import Func
        cache = self.__dict__.setdefault("_localfn", {})
        key = (id(self.fnode), name)
        if key not in cache:
            defs = [n for n in ast.walk(self.fnode) if isinstance(n, ast.FunctionDef) and n.name == name]
            rebound = [n for n in ast.walk(self.fnode) if isinstance(n, ast.Name) and n.id == name and isinstance(n.ctx, (ast.Store, ast.Del))]
            fn = None
            if len(defs) == 1 and not rebound:
                d = defs[0]
                bad = any(isinstance(n, (ast.Yield, ast.YieldFrom, ast.Await, ast.Global, ast.Nonlocal, ast.Lambda)) for n in ast.walk(d)) or \
                    any(isinstance(n, ast.Call) and isinstance(n.func, ast.Name) and n.func.id == name for n in ast.walk(d)) or \
                    any(isinstance(n, ast.FunctionDef) and n is not d for n in ast.walk(d)) or d.decorator_list
                if not bad:
                    fn = Func("<local>", None, d)
                    if fn.vararg or fn.kwarg:
                        fn = None
            cache[key] = fn
        fn = cache[key]
        if fn is None or any(isinstance(a, ast.Starred) for a in call.args) or any(k.arg is None for k in call.keywords):
            return None
        return fn

    def _inline(self, call, fn, on_value):
        """paths of the callee body with parameters bound; `on_value(expr_ast)` -> list of events for the returned value"""
        import copy
        self._n += 1
        prefix = "_inl%d_" % self._n
        names = _local_names(fn.node)
        ren = _Rename(names, prefix)
        binds = []
        params = list(fn.params)
        given = {}
        for i, a in enumerate(call.args):
            if i < len(params):
                given[params[i]] = a
        for k in call.keywords:
            given[k.arg] = k.value
        for p_ in params + fn.kwonly:
            v = given.get(p_, fn.defaults.get(p_))
            if v is None:
                raise AnalysisError("call of helper %s lacks argument %s" % (fn.qual, p_))
            asg = ast.Assign(targets=[ast.Name(id=prefix + p_, ctx=ast.Store())], value=v)
            ast.copy_location(asg, call)
            ast.fix_missing_locations(asg)
            binds.append(Ev("stmt", asg))
        body = [ren.visit(copy.deepcopy(st)) for st in fn.node.body
                if not (isinstance(st, ast.Expr) and isinstance(st.value, ast.Constant))]
        for b in body:
            ast.fix_missing_locations(b)
        self._depth += 1
        saved_fnode = self.fnode
        try:
            saved_cls = self.cls
            self.fnode = ast.Module(body=body, type_ignores=[])
            paths = self.block(body)
        finally:
            self._depth -= 1
            self.fnode = saved_fnode
        out = []
        none = ast.copy_location(ast.Constant(value=None), call)
        for p_ in paths:
            evs = list(binds) + list(p_.events)
            if p_.term == "return":
                last = evs[-1]
                val = last.node.value if isinstance(last.node, ast.Return) and last.node.value is not None else none
                raised = isinstance(last.extra, tuple) and last.extra and last.extra[0] == "raised"
                if raised:
                    out.append(Path(evs, "exc", p_.exc_types))
                    continue
                evs = evs[:-1]
                for q in on_value(val):
                    out.append(Path(evs + q.events, q.term, q.exc_types))
            elif p_.term == "fall":
                for q in on_value(none):
                    out.append(Path(evs + q.events, q.term, q.exc_types))
            else:
                out.append(Path(evs, p_.term, p_.exc_types))
        return out

    def _hoist(self, st):
        """helper calls nested inside a simple statement are evaluated into temporaries first"""
        if not self.inline:
            return None
        import copy
        found = []
        blocked = set()
        for n in ast.walk(st):
            if isinstance(n, (ast.BoolOp, ast.IfExp, ast.Lambda, ast.ListComp, ast.SetComp, ast.DictComp, ast.GeneratorExp)):
                for c in ast.walk(n):
                    if c is not n:
                        blocked.add(id(c))
        top = st.value if isinstance(st, (ast.Assign, ast.AnnAssign, ast.Expr, ast.Return, ast.AugAssign)) else None
        for n in ast.walk(st):
            if isinstance(n, ast.Call) and n is not top and id(n) not in blocked and self._helper(n) is not None:
                found.append(n)
        if not found:
            return None
        # innermost first: a call that contains another found call is handled after it
        st2 = copy.deepcopy(st)
        pre = []
        for _ in range(len(found)):
            cands = [n for n in ast.walk(st2) if isinstance(n, ast.Call) and self._helper(n) is not None
                     and n is not (st2.value if hasattr(st2, "value") else None)
                     and not any(isinstance(c, ast.Call) and c is not n and self._helper(c) is not None for c in ast.walk(n) if c is not n)]
            if not cands:
                break
            c = cands[0]
            self._n += 1
            tmp = "_tmp%d" % self._n
            asg = ast.Assign(targets=[ast.Name(id=tmp, ctx=ast.Store())], value=copy.deepcopy(c))
            ast.copy_location(asg, c)
            ast.fix_missing_locations(asg)
            pre.append(asg)

            class R(ast.NodeTransformer):
                def visit_Call(self_inner, node):
                    if node is c:
                        return ast.copy_location(ast.Name(id=tmp, ctx=ast.Load()), node)
                    return self_inner.generic_visit(node)
            st2 = R().visit(st2)
            ast.fix_missing_locations(st2)
        return pre + [st2]

    # ---- public
    def function(self, fnode):
        return self.block(fnode.body)

    def block(self, stmts):
        paths = [Path([], "fall")]
        for st in stmts:
            live = [p for p in paths if p.term == "fall"]
            if not live:
                break
            done = [p for p in paths if p.term != "fall"]
            sub = self.stmt(st)
            new = []
            for p in live:
                for q in sub:
                    new.append(p + q)
            paths = done + new
            self.count = len(paths)
            if len(paths) > MAX_PATHS:
                raise AnalysisError("path cap hit (%d) at line %s" % (len(paths), getattr(st, "lineno", "?")))
        return paths

    # ---- helpers
    def _raising(self, node, ev):
        """paths for an event that may raise mid-way"""
        if self.may_raise is None:
            return []
        types = self.may_raise(node)
        if not types:
            return []
        e2 = Ev(ev.kind, ev.node, ev.pol, ("raised", ev.extra))
        return [Path([e2], "exc", frozenset(types))]

    def stmt(self, st):
        if isinstance(st, (ast.Assign, ast.AugAssign, ast.AnnAssign, ast.Expr, ast.Return)) and self.inline:
            hoisted = self._hoist(st)
            if hoisted is not None:
                return self.block(hoisted)
            val = getattr(st, "value", None)
            fn = self._helper(val) if val is not None and not isinstance(st, ast.AugAssign) else None
            if fn is not None:
                def on_value(expr, st=st):
                    if isinstance(st, ast.Expr):
                        return [Path([], "fall")]
                    if isinstance(st, ast.Return):
                        r = ast.copy_location(ast.Return(value=expr), st)
                        return [Path([Ev("stmt", r)], "return")]
                    if isinstance(st, ast.AnnAssign):
                        a = ast.copy_location(ast.Assign(targets=[st.target], value=expr), st)
                    else:
                        a = ast.copy_location(ast.Assign(targets=st.targets, value=expr), st)
                    ast.fix_missing_locations(a)
                    return [Path([Ev("stmt", a)], "fall")]
                return self._inline(val, fn, on_value)
        if isinstance(st, (ast.Assign, ast.AugAssign, ast.AnnAssign, ast.Expr, ast.Delete, ast.Pass, ast.Assert,
                           ast.Import, ast.ImportFrom, ast.Global, ast.Nonlocal)):
            ev = Ev("stmt", st)
            return [Path([ev], "fall")] + self._raising(st, ev)
        if isinstance(st, ast.Return):
            ev = Ev("stmt", st)
            return [Path([ev], "return")] + self._raising(st, ev)
        if isinstance(st, ast.Raise):
            name = None
            if st.exc is not None:
                e = st.exc.func if isinstance(st.exc, ast.Call) else st.exc
                name = ast.unparse(e)
            return [Path([Ev("stmt", st)], "raise", frozenset([name or "*"]))]
        if isinstance(st, ast.Break):
            return [Path([Ev("jump", st)], "break")]
        if isinstance(st, ast.Continue):
            return [Path([Ev("jump", st)], "continue")]
        if isinstance(st, ast.If):
            return self._if(st)
        if isinstance(st, ast.While):
            return self._while(st)
        if isinstance(st, ast.For):
            ext = _is_extend_loop(st) if self.summarize_pad else None
            if ext is not None:
                ev = Ev("stmt", ext)
                return [Path([ev], "fall")] + self._raising(st, ev)
            return self._for(st)
        if isinstance(st, ast.Try):
            return self._try(st)
        if isinstance(st, ast.With):
            evs = [Ev("with", it.context_expr) for it in st.items]
            return [Path(list(evs), "fall") + p for p in self.block(st.body)]
        if isinstance(st, ast.Match):
            return self._match(st)
        if isinstance(st, (ast.FunctionDef, ast.ClassDef)):
            return [Path([Ev("def", st)], "fall")]
        raise AnalysisError("unsupported compound statement %s at line %s" % (type(st).__name__, st.lineno))

    def _cond(self, test, pol):
        ev = Ev("cond", test, pol)
        return ev

    def _test_paths(self, test):
        """[(prefix Path, cond Ev factory)] : a test that is `self.h(..)` / `not self.h(..)` is evaluated through the helper's paths"""
        neg = False
        t = test
        if isinstance(t, ast.UnaryOp) and isinstance(t.op, ast.Not):
            neg, t = True, t.operand
        fn = self._helper(t)
        if fn is None:
            return None
        res = []

        def on_value(expr):
            e = ast.copy_location(ast.UnaryOp(op=ast.Not(), operand=expr), test) if neg else expr
            ast.fix_missing_locations(e)
            return [Path([Ev("condval", e)], "fall")]
        for p in self._inline(t, fn, on_value):
            res.append(p)
        return res

    def _desugar_boolop(self, st):
        """`if A and B` / `if A or B` with a helper call among the operands -> nested ifs (same short-circuit order)"""
        t = st.test
        if not (self.inline and isinstance(t, ast.BoolOp)):
            return None

        def has_helper(x):
            if isinstance(x, ast.UnaryOp) and isinstance(x.op, ast.Not):
                x = x.operand
            return self._helper(x) is not None
        if not any(has_helper(v) for v in t.values):
            return None
        first, rest = t.values[0], t.values[1:]
        rest_test = rest[0] if len(rest) == 1 else ast.copy_location(ast.BoolOp(op=t.op, values=rest), t)
        if isinstance(t.op, ast.And):
            inner = ast.copy_location(ast.If(test=rest_test, body=st.body, orelse=st.orelse), st)
            outer = ast.copy_location(ast.If(test=first, body=[inner], orelse=st.orelse), st)
        else:
            inner = ast.copy_location(ast.If(test=rest_test, body=st.body, orelse=st.orelse), st)
            outer = ast.copy_location(ast.If(test=first, body=st.body, orelse=[inner]), st)
        ast.fix_missing_locations(outer)
        return outer

    def _min_assign(self, st):
        """`if a < x: [log]; x = a`  (x a local name, no else)  ->  `x = min(x, a)`   (and the max twin);
        logging calls in the body are dropped - they have no effect the rules look at"""
        test, neg = st.test, False
        if isinstance(test, ast.UnaryOp) and isinstance(test.op, ast.Not):
            test, neg = test.operand, True
        if st.orelse or not isinstance(test, ast.Compare) or len(test.ops) != 1:
            return None
        body = [b for b in st.body if not (isinstance(b, ast.Expr) and isinstance(b.value, ast.Call) and isinstance(b.value.func, ast.Attribute)
                                          and isinstance(b.value.func.value, ast.Name) and b.value.func.value.id in ("logger", "logging"))]
        if len(body) != 1 or not isinstance(body[0], ast.Assign) or len(body[0].targets) != 1 or not isinstance(body[0].targets[0], ast.Name):
            return None
        tgt, val = body[0].targets[0], body[0].value
        if isinstance(val, ast.Constant) or any(isinstance(x, (ast.Await, ast.Yield)) for x in ast.walk(val)) or any(
                isinstance(x, ast.Call) and not (isinstance(x.func, ast.Name) and x.func.id in ("len", "int", "min", "max", "abs")) for x in ast.walk(val)):
            return None
        l, r, op = test.left, test.comparators[0], test.ops[0]
        if neg:
            op = {ast.Lt: ast.GtE, ast.LtE: ast.Gt, ast.Gt: ast.LtE, ast.GtE: ast.Lt}.get(type(op), type(None))()
        dt, dv = ast.dump(ast.Name(id=tgt.id, ctx=ast.Load())), ast.dump(val)
        dl, dr = ast.dump(l), ast.dump(r)
        fn = None
        if (dl, dr) == (dv, dt):      # val OP tgt
            fn = "min" if isinstance(op, (ast.Lt, ast.LtE)) else "max" if isinstance(op, (ast.Gt, ast.GtE)) else None
        elif (dl, dr) == (dt, dv):    # tgt OP val
            fn = "min" if isinstance(op, (ast.Gt, ast.GtE)) else "max" if isinstance(op, (ast.Lt, ast.LtE)) else None
        if fn is None:
            return None
        new = ast.Assign(targets=[ast.Name(id=tgt.id, ctx=ast.Store())],
                         value=ast.Call(func=ast.Name(id=fn, ctx=ast.Load()), args=[ast.Name(id=tgt.id, ctx=ast.Load()), val], keywords=[]))
        ast.copy_location(new, body[0])
        ast.fix_missing_locations(new)
        return new

    def _if(self, st):
        m = self._min_assign(st)
        if m is not None:
            return self.stmt(m)
        d = self._desugar_boolop(st)
        if d is not None:
            return self._if(d)
        tp = self._test_paths(st.test) if self.inline else None
        if tp is not None:
            out = []
            for p in tp:
                if p.term != "fall" or not p.events or p.events[-1].kind != "condval":
                    out.append(p)
                    continue
                expr = p.events[-1].node
                pre = Path(p.events[:-1], "fall")
                ctv = _const_truth(expr)
                if ctv is not False:
                    for b in self.block(st.body):
                        out.append(pre + Path([Ev("cond", expr, True)], "fall") + b)
                if ctv is not True:
                    for b in self.block(st.orelse):
                        out.append(pre + Path([Ev("cond", expr, False)], "fall") + b)
            return out
        out = []
        ct = _const_truth(st.test)
        rais = self._raising(st.test, Ev("cond", st.test, None))
        out.extend(rais)
        if ct is not False:
            for p in self.block(st.body):
                out.append(Path([self._cond(st.test, True)], "fall") + p)
        if ct is not True:
            for p in self.block(st.orelse):
                out.append(Path([self._cond(st.test, False)], "fall") + p)
        return out

    def _loop(self, st, enter_ev, exit_ev, can_exit_by_test):
        """generic bounded unrolling; enter_ev()/exit_ev() build fresh events"""
        body = self.block(st.body)
        orelse = self.block(st.orelse) if st.orelse else [Path([], "fall")]
        results = []
        prefixes = [Path([], "fall")]
        for it in range(self.unroll + 1):
            # leave by test now
            if can_exit_by_test:
                for pre in prefixes:
                    for o in orelse:
                        results.append(pre + Path([exit_ev()], "fall") + o)
            if it == self.unroll:
                if not can_exit_by_test:
                    for pre in prefixes:
                        results.append(pre + Path([Ev("loopcut", st)], "cut"))
                break
            nxt = []
            for pre in prefixes:
                for b in body:
                    p = pre + Path([enter_ev()], "fall") + b
                    if b.term in ("fall", "continue"):
                        p.term = "fall"
                        nxt.append(p)
                    elif b.term == "break":
                        p.term = "fall"
                        results.append(p)
                    else:
                        results.append(p)
            prefixes = nxt
            if len(results) + len(prefixes) > MAX_PATHS:
                raise AnalysisError("path cap hit in loop at line %s" % st.lineno)
            if not prefixes:
                break
        return results

    def _while(self, st):
        if self.summarize_pad and _is_pad_loop(st):
            return [Path([Ev("pad", st, None, _is_pad_loop(st))], "fall")]
        ct = _const_truth(st.test)
        rais = self._raising(st.test, Ev("cond", st.test, None))
        return rais + self._loop(st, lambda: Ev("cond", st.test, True, "loop"),
                                 lambda: Ev("cond", st.test, False, "loop"),
                                 can_exit_by_test=(ct is not True))

    def _const_iter(self, st):
        """elements of a loop over a small constant sequence (literal, class/module constant, enumerate of one) or None"""
        it = st.iter
        enum = False
        if isinstance(it, ast.Call) and isinstance(it.func, ast.Name) and it.func.id == "enumerate" and len(it.args) == 1 and not it.keywords:
            it, enum = it.args[0], True
        vals = None
        if isinstance(it, (ast.Tuple, ast.List)) and all(isinstance(e, ast.Constant) for e in it.elts):
            vals = [e.value for e in it.elts]
        elif self.prog is not None and self.cls is not None and isinstance(it, (ast.Attribute, ast.Name)):
            from .model import NOCONST
            v = self.prog.const_eval(it, self.cls.mod, self.cls)
            if v is not NOCONST and isinstance(v, (list, tuple)) and all(_table_item(x) for x in v):
                vals = list(v)
        # zip(<display of constants>, <display of constants>, ...): a display of tuples
        if vals is None and isinstance(it, ast.Call) and isinstance(it.func, ast.Name) and it.func.id == "zip" and not it.keywords and len(it.args) >= 2 \
                and all(isinstance(a, (ast.Tuple, ast.List)) and a.elts and all(isinstance(e, ast.Constant) for e in a.elts) for a in it.args) \
                and not enum and not st.orelse and not any(isinstance(n, (ast.Break, ast.Continue)) for n in ast.walk(st)):
            m = min(len(a.elts) for a in it.args)
            if m <= 8:
                elts = [ast.Tuple(elts=[a.elts[i] for a in it.args], ctx=ast.Load()) for i in range(m)]
                for e in elts:
                    ast.copy_location(e, it)
                    ast.fix_missing_locations(e)
                return ("exprs", elts), False
        if vals is None and isinstance(it, (ast.Tuple, ast.List)) and not enum and not st.orelse and 0 < len(it.elts) <= 8 \
                and not any(isinstance(e, ast.Starred) for e in it.elts) and not any(isinstance(n, (ast.Break, ast.Continue)) for n in ast.walk(st)):
            # a display of small tuples / expressions written in the loop header
            reads = {x.id for x in ast.walk(it) if isinstance(x, ast.Name)}
            written = {x.id for b in st.body for x in ast.walk(b) if isinstance(x, ast.Name) and isinstance(x.ctx, (ast.Store, ast.Del))}
            written |= {x.id for x in ast.walk(st.target) if isinstance(x, ast.Name)}
            pure = not any(isinstance(x, (ast.Attribute, ast.Subscript, ast.Call)) for x in ast.walk(it))
            if not (reads & written) and pure:
                return ("exprs", list(it.elts)), False
        if vals is None and isinstance(it, ast.Name) and getattr(self, "fnode", None) is not None and not enum and not st.orelse \
                and self.prog is not None and self.cls is not None:
            # a local bound once to a constant table expression (e.g. `head, rest = TABLE[0], TABLE[1:]`)
            from .model import NOCONST
            srcs = []
            for a in ast.walk(self.fnode):
                if isinstance(a, ast.Assign):
                    for t in a.targets:
                        if isinstance(t, ast.Name) and t.id == it.id:
                            srcs.append(a.value)
                        elif isinstance(t, (ast.Tuple, ast.List)) and isinstance(a.value, (ast.Tuple, ast.List)) and len(t.elts) == len(a.value.elts):
                            for te, ve in zip(t.elts, a.value.elts):
                                if isinstance(te, ast.Name) and te.id == it.id:
                                    srcs.append(ve)
                        elif isinstance(t, (ast.Tuple, ast.List)) and sum(1 for e in t.elts if isinstance(e, ast.Starred)) == 1:
                            # head, *rest = TABLE
                            k = [i for i, e in enumerate(t.elts) if isinstance(e, ast.Starred)][0]
                            if isinstance(t.elts[k].value, ast.Name) and t.elts[k].value.id == it.id:
                                after = len(t.elts) - k - 1
                                sl = ast.Subscript(value=a.value, slice=ast.Slice(lower=ast.Constant(value=k), upper=(ast.Constant(value=-after) if after else None), step=None), ctx=ast.Load())
                                ast.copy_location(sl, a.value)
                                ast.fix_missing_locations(sl)
                                srcs.append(sl)
                            elif any(isinstance(x, ast.Name) and x.id == it.id for e in t.elts for x in ast.walk(e)):
                                srcs.append(None)
                elif isinstance(a, (ast.AugAssign, ast.For, ast.NamedExpr)) and any(isinstance(x, ast.Name) and x.id == it.id for x in ast.walk(a.target)):
                    srcs.append(None)
            if len(srcs) == 1 and srcs[0] is not None:
                v = self.prog.const_eval(srcs[0], self.cls.mod, self.cls)
                if v is not NOCONST and isinstance(v, (list, tuple)) and 0 < len(v) <= 16 and not any(isinstance(n, (ast.Break, ast.Continue)) for n in ast.walk(st)) \
                        and all(_table_item(x) for x in v):
                    vals = list(v)
                    return vals, False
        if vals is None and isinstance(it, ast.Name) and getattr(self, "fnode", None) is not None and not enum and not st.orelse:
            # a local bound once to a small display of arbitrary expressions (e.g. pairs of limit and log text): unroll over the element
            # expressions, provided nothing they read is assigned inside the loop
            asg = [n for n in ast.walk(self.fnode) if isinstance(n, ast.Assign) and any(isinstance(t, ast.Name) and t.id == it.id for t in n.targets)]
            other = [n for n in ast.walk(self.fnode) if isinstance(n, (ast.AugAssign, ast.For, ast.NamedExpr, ast.comprehension)) and
                     any(isinstance(x, ast.Name) and x.id == it.id and isinstance(x.ctx, ast.Store) for x in ast.walk(n.target))]
            if len(asg) == 1 and not other and isinstance(asg[0].value, (ast.Tuple, ast.List)) and 0 < len(asg[0].value.elts) <= 8 \
                    and not any(isinstance(e, ast.Starred) for e in asg[0].value.elts) and asg[0].lineno < st.lineno:
                reads = {x.id for x in ast.walk(asg[0].value) if isinstance(x, ast.Name)}
                written = set()
                for b in st.body:
                    for x in ast.walk(b):
                        if isinstance(x, ast.Name) and isinstance(x.ctx, (ast.Store, ast.Del)):
                            written.add(x.id)
                for x in ast.walk(st.target):
                    if isinstance(x, ast.Name):
                        written.add(x.id)
                attr_writes = any(isinstance(x, (ast.Attribute, ast.Subscript)) and isinstance(x.ctx, (ast.Store, ast.Del)) for b in st.body for x in ast.walk(b))
                has_calls = any(isinstance(x, ast.Call) and not (isinstance(x.func, ast.Attribute) and isinstance(x.func.value, ast.Name) and x.func.value.id in ("logger", "logging"))
                                for b in st.body for x in ast.walk(b))
                has_attr_reads = any(isinstance(x, (ast.Attribute, ast.Subscript)) for x in ast.walk(asg[0].value))
                if not (reads & written) and not (has_attr_reads and (attr_writes or has_calls)) \
                        and not any(isinstance(n, (ast.Break, ast.Continue)) for n in ast.walk(st)):
                    return ("exprs", list(asg[0].value.elts)), False
        if vals is None or not (0 < len(vals) <= 16) or st.orelse:
            return None
        if any(isinstance(n, (ast.Break,)) for n in ast.walk(st)):
            return None
        if enum:
            if not (isinstance(st.target, ast.Tuple) and len(st.target.elts) == 2):
                return None
            return [(i, v) for i, v in enumerate(vals)], True
        return vals, False

    def _for(self, st):
        if self.summarize_pad and _is_for_pad_loop(st):
            return [Path([Ev("pad", st, None, _is_for_pad_loop(st))], "fall")]
        ci = self._const_iter(st)
        if ci is not None:
            vals, enum = ci
            exprs = isinstance(vals, tuple) and vals and vals[0] == "exprs"
            if exprs:
                vals = vals[1]
            stmts = []
            for v in vals:
                if exprs:
                    import copy
                    val = copy.deepcopy(v)
                elif enum:
                    val = ast.Tuple(elts=[ast.Constant(value=v[0]), ast.Constant(value=v[1])], ctx=ast.Load())
                else:
                    val = ast.Constant(value=v)
                asg = ast.copy_location(ast.Assign(targets=[st.target], value=val), st)
                ast.fix_missing_locations(asg)
                stmts.append(asg)
                stmts.extend(st.body)
            paths = self.block(stmts)
            for p in paths:
                if p.term == "continue":
                    p.term = "fall"   # (only reachable for the last element; earlier `continue`s are not supported)
            if not any(isinstance(n, ast.Continue) for n in ast.walk(st)):
                return paths
        rais = self._raising(st.iter, Ev("for", st, "iter"))
        return rais + self._loop(st, lambda: Ev("for", st, "iter"), lambda: Ev("for", st, "exhaust"), True)

    def _match(self, st):
        out = []
        neg = []
        for case in st.cases:
            pos = Ev("match", st, True, case)
            wildcard = isinstance(case.pattern, ast.MatchAs) and case.pattern.pattern is None and case.guard is None
            for p in self.block(case.body):
                out.append(Path(list(neg) + [pos], "fall") + p)
            if wildcard:
                return out
            neg = neg + [Ev("match", st, False, case)]
        out.append(Path(list(neg), "fall"))
        return out

    def _handler_names(self, h):
        if h.type is None:
            return [None]
        if isinstance(h.type, ast.Tuple):
            return [ast.unparse(e) for e in h.type.elts]
        return [ast.unparse(h.type)]

    def _try(self, st):
        body = self.block(st.body)
        out = []
        for p in body:
            if p.term in ("raise", "exc"):
                types = p.exc_types or frozenset(["*"])
                remaining = set(types)
                for h in st.handlers:
                    hn = self._handler_names(h)
                    caught = set()
                    for t in list(remaining):
                        if t == "*":
                            caught.add(t)
                        elif any(n in CATCH_ALL or n == t or n.split(".")[-1] == t.split(".")[-1] for n in hn):
                            caught.add(t)
                    if not caught:
                        continue
                    for hp in self.block(h.body):
                        out.append(Path(p.events + [Ev("except", h)], "fall") + hp)
                    if any(n in CATCH_ALL for n in hn):
                        remaining = set()
                    else:
                        remaining -= (caught - {"*"})
                    if not remaining:
                        break
                if remaining:
                    out.append(Path(list(p.events), p.term, frozenset(remaining)))
            elif p.term == "fall" and st.orelse:
                for o in self.block(st.orelse):
                    out.append(p + o)
            else:
                out.append(p)
        if st.finalbody:
            fin = self.block(st.finalbody)
            res = []
            for p in out:
                for f in fin:
                    q = Path(p.events + [Ev("finally", st)] + f.events, p.term, p.exc_types)
                    if f.term != "fall":
                        q.term, q.exc_types = f.term, f.exc_types
                    res.append(q)
            out = res
        return out


class Rec:
    """One replayed event: its effects and (for conditions) the symbolic test."""
    __slots__ = ("ev", "effects", "cond", "pol", "env")

    def __init__(self, ev, effects, cond=None, pol=None, env=None):
        self.ev, self.effects, self.cond, self.pol, self.env = ev, effects, cond, pol, env

    @property
    def line(self):
        return self.ev.line

    def calls(self):
        return [e for e in self.effects if e.kind == "call"]


class Run:
    """Result of replaying a path."""

    def __init__(self, path, recs, feasible, ev):
        self.path, self.recs, self.feasible, self.evalr = path, recs, feasible, ev
        self.term = path.term

    def effects(self):
        for i, r in enumerate(self.recs):
            for e in r.effects:
                yield i, e

    def guards(self, upto=None):
        """[(sym, polarity)] of the conditions passed before record index `upto`."""
        out = []
        for r in self.recs[:upto]:
            if r.cond is not None and r.pol is not None:
                out.append((r.cond, r.pol))
        return out


def pattern_sym(evalr, subject, case):
    pat = case.pattern
    def one(p):
        if isinstance(p, ast.MatchValue):
            return mk_cmp("==", subject, evalr.expr(p.value))
        if isinstance(p, ast.MatchSingleton):
            return mk_cmp("==", subject, ("c", p.value))
        if isinstance(p, ast.MatchOr):
            return mk_bool("or", [one(x) for x in p.patterns])
        if isinstance(p, ast.MatchAs) and p.pattern is None:
            return ("c", True)
        raise AnalysisError("unsupported match pattern at line %s" % getattr(p, "lineno", "?"))
    s = one(pat)
    if case.guard is not None:
        s = mk_bool("and", [s, evalr.expr(case.guard)])
    return s


def replay(prog, func, path, env=None, keep_env=False, evalr=None, prune=True):
    """Replay `path` of `func`; returns Run (feasible=False if a condition is constant-contradicted)."""
    ev = evalr.clone() if evalr is not None else SymEval(prog, func, env)
    loopst = {}     # id(for node) -> (node, start Sym, iterations so far) for `for i in range(a, b)` with a symbolic start
    recs = []
    feasible = True
    for e in path.events:
        snap = dict(ev.env) if keep_env else None
        raised = isinstance(e.extra, tuple) and e.extra and e.extra[0] == "raised"
        if e.kind == "stmt":
            if raised:
                # evaluate sub-expressions (calls) but do not commit the store
                sub = ev.clone()
                effs = [x for x in sub.step(e.node) if x.kind == "call"]
                recs.append(Rec(e, effs, env=snap))
            else:
                recs.append(Rec(e, ev.step(e.node), env=snap))
        elif e.kind == "cond":
            s, effs = ev.cond(e.node)
            if raised:
                recs.append(Rec(e, effs, env=snap))
                continue
            if prune and is_const(s) and not isinstance(s[1], EnumVal) and bool(s[1]) != e.pol:
                feasible = False
            recs.append(Rec(e, effs, s, e.pol, env=snap))
        elif e.kind == "match":
            ev.effects = []
            subj = ev.expr(e.node.subject)
            effs, ev.effects = ev.effects, []
            s = pattern_sym(ev, subj, e.extra)
            if prune and is_const(s) and bool(s[1]) != e.pol:
                feasible = False
            recs.append(Rec(e, effs, s, e.pol, env=snap))
        elif e.kind == "for":
            if e.pol == "iter":
                # loops nested in this one start afresh
                for k_ in [k_ for k_, (nd_, _, _) in loopst.items() if nd_ is not e.node and any(x is nd_ for x in ast.walk(e.node))]:
                    del loopst[k_]
                st_ = loopst.get(id(e.node))
                if st_ is not None:
                    # `for i in range(a, b)`: the iterable was evaluated once, on entry; the k-th iteration binds a + k
                    _, start_, cnt_ = st_
                    loopst[id(e.node)] = (e.node, start_, cnt_ + 1)
                    ev._bind_target(e.node.target, mk_bin("+", start_, ("c", cnt_ + 1)))
                    recs.append(Rec(e, [], env=snap))
                else:
                    s, effs = ev.cond(e.node.iter)
                    if not raised:
                        if isinstance(e.node.target, ast.Name) and s[0] == "call" and s[1] == ("glob", "range") and len(s[2]) == 2 and not s[3] \
                                and not is_const(s[2][0]):
                            loopst[id(e.node)] = (e.node, s[2][0], 0)
                            ev._bind_target(e.node.target, s[2][0])
                        else:
                            ev.uid += 1
                            ev._bind_target(e.node.target, ("iter", s, ev.uid))
                    recs.append(Rec(e, effs, env=snap))
            else:
                loopst.pop(id(e.node), None)
                recs.append(Rec(e, [], env=snap))
        elif e.kind == "with":
            s, effs = ev.cond(e.node)
            recs.append(Rec(e, effs, env=snap))
        elif e.kind == "pad":
            name, nnode, cnode = e.extra
            n_s, _ = ev.cond(nnode)
            c_s, _ = ev.cond(cnode)
            cur = ev.env.get(name, ("glob", name))
            if is_heap_path(cur):
                recs.append(Rec(e, [Eff("call", None, ("call", ("attr", cur, "append"), (c_s,), ()), e.node)], env=snap))
            else:
                ev.env[name] = ("pad", cur, n_s, c_s)
                recs.append(Rec(e, [], env=snap))
        elif e.kind == "except":
            if e.node.name:
                ev.env[e.node.name] = ev.fresh(e.node.name)
            recs.append(Rec(e, [], env=snap))
        else:  # jump, loopcut, finally, def
            recs.append(Rec(e, [], env=snap))
    run = Run(path, recs, feasible, ev)
    if feasible:
        _resolve_ife(run)
    return run


def _stable(s):
    """a Sym that cannot change along a path: built from parameters, constants and pure constructors only"""
    from .sym import walk
    for x in walk(s):
        if x[0] in ("attr", "sub") and x[1] == ("self",):
            return False
        if x[0] in ("sub", "attr") and x[1][0] in ("attr", "sub") and _rooted_self(x):
            return False
        if x[0] == "call" and x[1][0] == "attr" and x[1][1] == ("self",):
            return False
    return True


def _rooted_self(x):
    while x[0] in ("attr", "sub"):
        x = x[1]
    return x == ("self",)


def _resolve_ife(run):
    """(a if c else b) is replaced by a / b where the path's own (stable) guards decide c: a value chosen by a
    conditional expression and a later branch on the same condition are the same decision"""
    from .sym import walk
    from . import guards as G
    has = False
    for r in run.recs:
        for e in r.effects:
            for v in (e.target, e.value):
                if isinstance(v, tuple) and any(x[0] == "ife" for x in walk(v)):
                    has = True
        if r.cond is not None and any(x[0] == "ife" for x in walk(r.cond)):
            has = True
    if not has:
        return
    facts = [(g, p) for g, p in run.guards() if _stable(g)]
    # a local that is assigned once and tested bare (`if flag:` ... `a if flag else b`) is one decision, whatever it was computed from
    snap = {}
    assigned = {}
    for r in run.recs:
        nd = r.ev.node
        if r.ev.kind == "stmt" and isinstance(nd, ast.Assign):
            for t in nd.targets:
                if isinstance(t, ast.Name):
                    assigned[t.id] = assigned.get(t.id, 0) + 1
        if r.cond is not None and r.pol is not None:
            tn, pol = nd, r.pol
            if isinstance(tn, ast.UnaryOp) and isinstance(tn.op, ast.Not):
                tn = tn.operand
            if isinstance(tn, ast.Name) and assigned.get(tn.id) == 1:
                c = r.cond
                while c[0] == "not":
                    c, pol = c[1], not pol
                snap[c] = pol
    if not facts and not snap:
        return
    F = G.conj(facts) if facts else ("c", True)

    def fn(x):
        if x[0] == "ife" and snap:
            c, flip = x[1], False
            while c[0] == "not":
                c, flip = c[1], not flip
            if c in snap:
                return x[2] if (snap[c] != flip) else x[3]
        if x[0] == "ife" and _stable(x[1]) and facts:
            try:
                if G.implies(F, x[1])[0]:
                    return x[2]
                if G.implies(F, mk_not(x[1]))[0]:
                    return x[3]
            except AnalysisError:
                return None
        return None
    for r in run.recs:
        for e in r.effects:
            if isinstance(e.target, tuple):
                e.target = G.renorm(G.subst(e.target, fn))
            if isinstance(e.value, tuple):
                e.value = G.renorm(G.subst(e.value, fn))
        if r.cond is not None and any(x[0] == "ife" for x in walk(r.cond)):
            r.cond = G.renorm(G.subst(r.cond, fn))
    for k in list(run.evalr.env):
        v = run.evalr.env[k]
        if isinstance(v, tuple) and any(x[0] == "ife" for x in walk(v)):
            run.evalr.env[k] = G.renorm(G.subst(v, fn))


class _DispatchTable(ast.NodeTransformer):
    """Desugars the dispatch-table idiom inside one function body:

        H = {K1: self.m1, K2: self.m2, ...}     # dict display whose values are bound methods of self
        h = H.get(E)            (or  h = H[E])
        if h is None: ...                        ->  if E not in (K1, K2, ...): ...
        h(a, b)                                  ->  if E == K1: self.m1(a, b) / elif E == K2: self.m2(a, b) / ...

    so that the path enumeration (and the inlining of non-anchor helpers) sees the same calls as in the if/elif spelling.
    Applied only when H and h are assigned exactly once in the function and E reads nothing that is assigned after the lookup."""

    def __init__(self, fnode):
        self.tables, self.lookups = {}, {}
        assigned = {}
        for n in ast.walk(fnode):
            if isinstance(n, (ast.Assign, ast.AugAssign, ast.AnnAssign, ast.For, ast.NamedExpr, ast.comprehension, ast.withitem)):
                tg = n.targets if isinstance(n, ast.Assign) else [getattr(n, "target", None) or getattr(n, "optional_vars", None)]
                for t in tg:
                    for x in ast.walk(t) if t is not None else ():
                        if isinstance(x, ast.Name):
                            assigned.setdefault(x.id, []).append(n)
        for n in ast.walk(fnode):
            if isinstance(n, ast.Assign) and len(n.targets) == 1 and isinstance(n.targets[0], ast.Name) and isinstance(n.value, ast.Dict) \
                    and n.value.keys and all(k is not None for k in n.value.keys) and len(assigned.get(n.targets[0].id, [])) == 1 \
                    and all(isinstance(v, ast.Attribute) and isinstance(v.value, ast.Name) and v.value.id == "self" for v in n.value.values):
                self.tables[n.targets[0].id] = n.value
        for n in ast.walk(fnode):
            if isinstance(n, ast.Assign) and len(n.targets) == 1 and isinstance(n.targets[0], ast.Name) and len(assigned.get(n.targets[0].id, [])) == 1:
                v, tab, key, dflt = n.value, None, None, False
                if isinstance(v, ast.Call) and isinstance(v.func, ast.Attribute) and v.func.attr == "get" and isinstance(v.func.value, ast.Name) \
                        and v.func.value.id in self.tables and len(v.args) == 1 and not v.keywords:
                    tab, key, dflt = v.func.value.id, v.args[0], True
                elif isinstance(v, ast.Subscript) and isinstance(v.value, ast.Name) and v.value.id in self.tables:
                    tab, key = v.value.id, v.slice
                if tab is None:
                    continue
                reads = {x.id for x in ast.walk(key) if isinstance(x, ast.Name)}
                if any(a.lineno > n.lineno for r in reads for a in assigned.get(r, []) if hasattr(a, "lineno")):
                    continue
                self.lookups[n.targets[0].id] = (self.tables[tab], key, dflt)
        self.changed = False

    def _keys_tuple(self, tab):
        return ast.Tuple(elts=list(tab.keys), ctx=ast.Load())

    def _none_test(self, test):
        """(name, is_none?) for `h is None`, `h is not None`, `h == None`, `not h`, `h`"""
        if isinstance(test, ast.Compare) and len(test.ops) == 1 and isinstance(test.left, ast.Name) and test.left.id in self.lookups \
                and isinstance(test.comparators[0], ast.Constant) and test.comparators[0].value is None:
            if isinstance(test.ops[0], (ast.Is, ast.Eq)):
                return test.left.id, True
            if isinstance(test.ops[0], (ast.IsNot, ast.NotEq)):
                return test.left.id, False
        if isinstance(test, ast.UnaryOp) and isinstance(test.op, ast.Not) and isinstance(test.operand, ast.Name) and test.operand.id in self.lookups:
            return test.operand.id, True
        if isinstance(test, ast.Name) and test.id in self.lookups:
            return test.id, False
        return None

    def visit_If(self, node):
        self.generic_visit(node)
        nt = self._none_test(node.test)
        if nt is not None:
            tab, key, dflt = self.lookups[nt[0]]
            if dflt:
                op = ast.NotIn() if nt[1] else ast.In()
                node.test = ast.copy_location(ast.Compare(left=key, ops=[op], comparators=[self._keys_tuple(tab)]), node.test)
                ast.fix_missing_locations(node.test)
                self.changed = True
        return node

    def _chain(self, call, wrap, at):
        tab, key, dflt = self.lookups[call.func.id]
        chain = None
        for k, v in reversed(list(zip(tab.keys, tab.values))):
            c = ast.Call(func=v, args=call.args, keywords=call.keywords)
            test = ast.Compare(left=key, ops=[ast.Eq()], comparators=[k])
            chain = ast.If(test=test, body=[wrap(c)], orelse=[chain] if chain is not None else
                           [ast.Raise(exc=ast.Call(func=ast.Name(id="TypeError", ctx=ast.Load()), args=[], keywords=[]), cause=None)])
        ast.copy_location(chain, at)
        for x in ast.walk(chain):
            if not hasattr(x, "lineno"):
                ast.copy_location(x, at)
        ast.fix_missing_locations(chain)
        self.changed = True
        return chain

    def visit_Expr(self, node):
        v = node.value
        if isinstance(v, ast.Call) and isinstance(v.func, ast.Name) and v.func.id in self.lookups:
            return self._chain(v, lambda c: ast.Expr(value=c), node)
        return node

    def visit_Return(self, node):
        v = node.value
        if isinstance(v, ast.Call) and isinstance(v.func, ast.Name) and v.func.id in self.lookups:
            return self._chain(v, lambda c: ast.Return(value=c), node)
        return node

    def visit_FunctionDef(self, node):
        return node     # nested functions are not touched

    visit_AsyncFunctionDef = visit_Lambda = visit_FunctionDef


_DESUGARED = {}


def desugared_body(func):
    """the function's statement list with the dispatch-table idiom rewritten (cached; the original AST is not modified)"""
    key = id(func.node)
    if key not in _DESUGARED:
        body = func.node.body
        if any(isinstance(n, ast.Dict) for n in ast.walk(func.node)):
            import copy
            t = _DispatchTable(func.node)
            if t.lookups:
                cp = copy.deepcopy(func.node)
                t2 = _DispatchTable(cp)
                new = [t2.visit(st) for st in cp.body]
                if t2.changed:
                    body = new
        _DESUGARED[key] = (func.node, body)
    return _DESUGARED[key][1]


def runs_of(prog, func, unroll=1, may_raise=None, keep_env=False, body=None, env=None, evalr=None,
            summarize_pad=True, inline=True):
    """All feasible replayed paths of a function (or of a statement list `body` inside it)."""
    en = Enumerator(unroll=unroll, may_raise=may_raise, summarize_pad=summarize_pad, prog=prog, cls=func.cls if func is not None else None,
                    inline=inline)
    if func is not None:
        en.fnode = ast.Module(body=desugared_body(func), type_ignores=[])
    paths = en.block(body if body is not None else desugared_body(func))
    out = []
    for p in paths:
        r = replay(prog, func, p, env=env, keep_env=keep_env, evalr=evalr)
        if r.feasible:
            out.append(r)
    return out
