"""Syntax-directed path enumeration over the statement kinds the package uses,
and a runner that replays one path through the def-use evaluator (sym.py).

Loops are unrolled 0..k times (k configurable), `while True` paths that do not
leave after k iterations are cut (term 'cut').  Exceptional edges are optional
and driven by a rule-supplied predicate.  Any other compound statement is an
AnalysisError, never a silent skip.
"""
import ast
from .model import AnalysisError
from .sym import SymEval, Eff, mk_cmp, mk_not, mk_bool, is_const, is_heap_path, cat, C
from .model import EnumVal

MAX_PATHS = 60000
CATCH_ALL = (None, "Exception", "BaseException")


class Ev:
    __slots__ = ("kind", "node", "pol", "extra")

    def __init__(self, kind, node, pol=None, extra=None):
        self.kind, self.node, self.pol, self.extra = kind, node, pol, extra

    @property
    def line(self):
        return getattr(self.node, "lineno", 0)

    def __repr__(self):
        return "Ev(%s@%s %s)" % (self.kind, self.line, self.pol if self.pol is not None else "")


class Path:
    __slots__ = ("events", "term", "exc_types")

    def __init__(self, events, term="fall", exc_types=None):
        self.events, self.term, self.exc_types = events, term, exc_types

    def __add__(self, other):
        return Path(self.events + other.events, other.term, other.exc_types)


def _is_pad_loop(st):
    """while len(X) < N: X.append(C)   (the package's padding idiom)"""
    if not isinstance(st, ast.While) or st.orelse or len(st.body) != 1:
        return None
    t = st.test
    if not (isinstance(t, ast.Compare) and len(t.ops) == 1 and isinstance(t.ops[0], ast.Lt)):
        return None
    l = t.left
    if not (isinstance(l, ast.Call) and isinstance(l.func, ast.Name) and l.func.id == "len" and len(l.args) == 1
            and isinstance(l.args[0], ast.Name)):
        return None
    name = l.args[0].id
    b = st.body[0]
    if not (isinstance(b, ast.Expr) and isinstance(b.value, ast.Call) and isinstance(b.value.func, ast.Attribute)
            and b.value.func.attr == "append" and isinstance(b.value.func.value, ast.Name)
            and b.value.func.value.id == name and len(b.value.args) == 1):
        return None
    return name, t.comparators[0], b.value.args[0]


def _is_extend_loop(st):
    """for x in Y: L.append(x)   ==   L.extend(Y)"""
    if not isinstance(st, ast.For) or st.orelse or len(st.body) != 1 or not isinstance(st.target, ast.Name):
        return None
    b = st.body[0]
    if isinstance(b, ast.Expr) and isinstance(b.value, ast.Call) and isinstance(b.value.func, ast.Attribute) \
            and b.value.func.attr == "append" and len(b.value.args) == 1 and isinstance(b.value.args[0], ast.Name) \
            and b.value.args[0].id == st.target.id and not b.value.keywords:
        call = ast.Call(func=ast.Attribute(value=b.value.func.value, attr="extend", ctx=ast.Load()), args=[st.iter], keywords=[])
        new = ast.Expr(value=call)
        ast.copy_location(new, st)
        ast.copy_location(call, st)
        ast.fix_missing_locations(new)
        return new
    return None


def _const_truth(test):
    if isinstance(test, ast.Constant):
        return bool(test.value)
    return None


class Enumerator:
    def __init__(self, unroll=1, may_raise=None, summarize_pad=True):
        self.unroll = unroll
        self.may_raise = may_raise  # node -> set of exception type names ('*' = unknown) or empty
        self.summarize_pad = summarize_pad
        self.count = 0

    # ---- public
    def function(self, fnode):
        return self.block(fnode.body)

    def block(self, stmts):
        paths = [Path([], "fall")]
        for st in stmts:
            live = [p for p in paths if p.term == "fall"]
            if not live:
                break
            done = [p for p in paths if p.term != "fall"]
            sub = self.stmt(st)
            new = []
            for p in live:
                for q in sub:
                    new.append(p + q)
            paths = done + new
            self.count = len(paths)
            if len(paths) > MAX_PATHS:
                raise AnalysisError("path cap hit (%d) at line %s" % (len(paths), getattr(st, "lineno", "?")))
        return paths

    # ---- helpers
    def _raising(self, node, ev):
        """paths for an event that may raise mid-way"""
        if self.may_raise is None:
            return []
        types = self.may_raise(node)
        if not types:
            return []
        e2 = Ev(ev.kind, ev.node, ev.pol, ("raised", ev.extra))
        return [Path([e2], "exc", frozenset(types))]

    def stmt(self, st):
        if isinstance(st, (ast.Assign, ast.AugAssign, ast.AnnAssign, ast.Expr, ast.Delete, ast.Pass, ast.Assert,
                           ast.Import, ast.ImportFrom, ast.Global, ast.Nonlocal)):
            ev = Ev("stmt", st)
            return [Path([ev], "fall")] + self._raising(st, ev)
        if isinstance(st, ast.Return):
            ev = Ev("stmt", st)
            return [Path([ev], "return")] + self._raising(st, ev)
        if isinstance(st, ast.Raise):
            name = None
            if st.exc is not None:
                e = st.exc.func if isinstance(st.exc, ast.Call) else st.exc
                name = ast.unparse(e)
            return [Path([Ev("stmt", st)], "raise", frozenset([name or "*"]))]
        if isinstance(st, ast.Break):
            return [Path([Ev("jump", st)], "break")]
        if isinstance(st, ast.Continue):
            return [Path([Ev("jump", st)], "continue")]
        if isinstance(st, ast.If):
            return self._if(st)
        if isinstance(st, ast.While):
            return self._while(st)
        if isinstance(st, ast.For):
            ext = _is_extend_loop(st) if self.summarize_pad else None
            if ext is not None:
                ev = Ev("stmt", ext)
                return [Path([ev], "fall")] + self._raising(st, ev)
            return self._for(st)
        if isinstance(st, ast.Try):
            return self._try(st)
        if isinstance(st, ast.With):
            evs = [Ev("with", it.context_expr) for it in st.items]
            return [Path(list(evs), "fall") + p for p in self.block(st.body)]
        if isinstance(st, ast.Match):
            return self._match(st)
        if isinstance(st, (ast.FunctionDef, ast.ClassDef)):
            return [Path([Ev("def", st)], "fall")]
        raise AnalysisError("unsupported compound statement %s at line %s" % (type(st).__name__, st.lineno))

    def _cond(self, test, pol):
        ev = Ev("cond", test, pol)
        return ev

    def _if(self, st):
        out = []
        ct = _const_truth(st.test)
        rais = self._raising(st.test, Ev("cond", st.test, None))
        out.extend(rais)
        if ct is not False:
            for p in self.block(st.body):
                out.append(Path([self._cond(st.test, True)], "fall") + p)
        if ct is not True:
            for p in self.block(st.orelse):
                out.append(Path([self._cond(st.test, False)], "fall") + p)
        return out

    def _loop(self, st, enter_ev, exit_ev, can_exit_by_test):
        """generic bounded unrolling; enter_ev()/exit_ev() build fresh events"""
        body = self.block(st.body)
        orelse = self.block(st.orelse) if st.orelse else [Path([], "fall")]
        results = []
        prefixes = [Path([], "fall")]
        for it in range(self.unroll + 1):
            # leave by test now
            if can_exit_by_test:
                for pre in prefixes:
                    for o in orelse:
                        results.append(pre + Path([exit_ev()], "fall") + o)
            if it == self.unroll:
                if not can_exit_by_test:
                    for pre in prefixes:
                        results.append(pre + Path([Ev("loopcut", st)], "cut"))
                break
            nxt = []
            for pre in prefixes:
                for b in body:
                    p = pre + Path([enter_ev()], "fall") + b
                    if b.term in ("fall", "continue"):
                        p.term = "fall"
                        nxt.append(p)
                    elif b.term == "break":
                        p.term = "fall"
                        results.append(p)
                    else:
                        results.append(p)
            prefixes = nxt
            if len(results) + len(prefixes) > MAX_PATHS:
                raise AnalysisError("path cap hit in loop at line %s" % st.lineno)
            if not prefixes:
                break
        return results

    def _while(self, st):
        if self.summarize_pad and _is_pad_loop(st):
            return [Path([Ev("pad", st, None, _is_pad_loop(st))], "fall")]
        ct = _const_truth(st.test)
        rais = self._raising(st.test, Ev("cond", st.test, None))
        return rais + self._loop(st, lambda: Ev("cond", st.test, True, "loop"),
                                 lambda: Ev("cond", st.test, False, "loop"),
                                 can_exit_by_test=(ct is not True))

    def _for(self, st):
        rais = self._raising(st.iter, Ev("for", st, "iter"))
        return rais + self._loop(st, lambda: Ev("for", st, "iter"), lambda: Ev("for", st, "exhaust"), True)

    def _match(self, st):
        out = []
        neg = []
        for case in st.cases:
            pos = Ev("match", st, True, case)
            wildcard = isinstance(case.pattern, ast.MatchAs) and case.pattern.pattern is None and case.guard is None
            for p in self.block(case.body):
                out.append(Path(list(neg) + [pos], "fall") + p)
            if wildcard:
                return out
            neg = neg + [Ev("match", st, False, case)]
        out.append(Path(list(neg), "fall"))
        return out

    def _handler_names(self, h):
        if h.type is None:
            return [None]
        if isinstance(h.type, ast.Tuple):
            return [ast.unparse(e) for e in h.type.elts]
        return [ast.unparse(h.type)]

    def _try(self, st):
        body = self.block(st.body)
        out = []
        for p in body:
            if p.term in ("raise", "exc"):
                types = p.exc_types or frozenset(["*"])
                remaining = set(types)
                for h in st.handlers:
                    hn = self._handler_names(h)
                    caught = set()
                    for t in list(remaining):
                        if t == "*":
                            caught.add(t)
                        elif any(n in CATCH_ALL or n == t or n.split(".")[-1] == t.split(".")[-1] for n in hn):
                            caught.add(t)
                    if not caught:
                        continue
                    for hp in self.block(h.body):
                        out.append(Path(p.events + [Ev("except", h)], "fall") + hp)
                    if any(n in CATCH_ALL for n in hn):
                        remaining = set()
                    else:
                        remaining -= (caught - {"*"})
                    if not remaining:
                        break
                if remaining:
                    out.append(Path(list(p.events), p.term, frozenset(remaining)))
            elif p.term == "fall" and st.orelse:
                for o in self.block(st.orelse):
                    out.append(p + o)
            else:
                out.append(p)
        if st.finalbody:
            fin = self.block(st.finalbody)
            res = []
            for p in out:
                for f in fin:
                    q = Path(p.events + [Ev("finally", st)] + f.events, p.term, p.exc_types)
                    if f.term != "fall":
                        q.term, q.exc_types = f.term, f.exc_types
                    res.append(q)
            out = res
        return out


class Rec:
    """One replayed event: its effects and (for conditions) the symbolic test."""
    __slots__ = ("ev", "effects", "cond", "pol", "env")

    def __init__(self, ev, effects, cond=None, pol=None, env=None):
        self.ev, self.effects, self.cond, self.pol, self.env = ev, effects, cond, pol, env

    @property
    def line(self):
        return self.ev.line

    def calls(self):
        return [e for e in self.effects if e.kind == "call"]


class Run:
    """Result of replaying a path."""

    def __init__(self, path, recs, feasible, ev):
        self.path, self.recs, self.feasible, self.evalr = path, recs, feasible, ev
        self.term = path.term

    def effects(self):
        for i, r in enumerate(self.recs):
            for e in r.effects:
                yield i, e

    def guards(self, upto=None):
        """[(sym, polarity)] of the conditions passed before record index `upto`."""
        out = []
        for r in self.recs[:upto]:
            if r.cond is not None and r.pol is not None:
                out.append((r.cond, r.pol))
        return out


def pattern_sym(evalr, subject, case):
    pat = case.pattern
    def one(p):
        if isinstance(p, ast.MatchValue):
            return mk_cmp("==", subject, evalr.expr(p.value))
        if isinstance(p, ast.MatchSingleton):
            return mk_cmp("==", subject, ("c", p.value))
        if isinstance(p, ast.MatchOr):
            return mk_bool("or", [one(x) for x in p.patterns])
        if isinstance(p, ast.MatchAs) and p.pattern is None:
            return ("c", True)
        raise AnalysisError("unsupported match pattern at line %s" % getattr(p, "lineno", "?"))
    s = one(pat)
    if case.guard is not None:
        s = mk_bool("and", [s, evalr.expr(case.guard)])
    return s


def replay(prog, func, path, env=None, keep_env=False, evalr=None, prune=True):
    """Replay `path` of `func`; returns Run (feasible=False if a condition is constant-contradicted)."""
    ev = evalr.clone() if evalr is not None else SymEval(prog, func, env)
    recs = []
    feasible = True
    for e in path.events:
        snap = dict(ev.env) if keep_env else None
        raised = isinstance(e.extra, tuple) and e.extra and e.extra[0] == "raised"
        if e.kind == "stmt":
            if raised:
                # evaluate sub-expressions (calls) but do not commit the store
                sub = ev.clone()
                effs = [x for x in sub.step(e.node) if x.kind == "call"]
                recs.append(Rec(e, effs, env=snap))
            else:
                recs.append(Rec(e, ev.step(e.node), env=snap))
        elif e.kind == "cond":
            s, effs = ev.cond(e.node)
            if raised:
                recs.append(Rec(e, effs, env=snap))
                continue
            if prune and is_const(s) and not isinstance(s[1], EnumVal) and bool(s[1]) != e.pol:
                feasible = False
            recs.append(Rec(e, effs, s, e.pol, env=snap))
        elif e.kind == "match":
            ev.effects = []
            subj = ev.expr(e.node.subject)
            effs, ev.effects = ev.effects, []
            s = pattern_sym(ev, subj, e.extra)
            if prune and is_const(s) and bool(s[1]) != e.pol:
                feasible = False
            recs.append(Rec(e, effs, s, e.pol, env=snap))
        elif e.kind == "for":
            if e.pol == "iter":
                s, effs = ev.cond(e.node.iter)
                if not raised:
                    ev.uid += 1
                    ev._bind_target(e.node.target, ("iter", s, ev.uid))
                recs.append(Rec(e, effs, env=snap))
            else:
                recs.append(Rec(e, [], env=snap))
        elif e.kind == "with":
            s, effs = ev.cond(e.node)
            recs.append(Rec(e, effs, env=snap))
        elif e.kind == "pad":
            name, nnode, cnode = e.extra
            n_s, _ = ev.cond(nnode)
            c_s, _ = ev.cond(cnode)
            cur = ev.env.get(name, ("glob", name))
            if is_heap_path(cur):
                recs.append(Rec(e, [Eff("call", None, ("call", ("attr", cur, "append"), (c_s,), ()), e.node)], env=snap))
            else:
                ev.env[name] = ("pad", cur, n_s, c_s)
                recs.append(Rec(e, [], env=snap))
        elif e.kind == "except":
            if e.node.name:
                ev.env[e.node.name] = ev.fresh(e.node.name)
            recs.append(Rec(e, [], env=snap))
        else:  # jump, loopcut, finally, def
            recs.append(Rec(e, [], env=snap))
    return Run(path, recs, feasible, ev)


def runs_of(prog, func, unroll=1, may_raise=None, keep_env=False, body=None, env=None, evalr=None,
            summarize_pad=True):
    """All feasible replayed paths of a function (or of a statement list `body` inside it)."""
    en = Enumerator(unroll=unroll, may_raise=may_raise, summarize_pad=summarize_pad)
    paths = en.block(body if body is not None else func.node.body)
    out = []
    for p in paths:
        r = replay(prog, func, p, env=env, keep_env=keep_env, evalr=evalr)
        if r.feasible:
            out.append(r)
    return out
