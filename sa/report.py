"""Findings, three-valued verdicts, known findings, evidence, replay, exit codes."""
import json
import os
import sys
import time

VERIF = os.path.dirname(os.path.dirname(os.path.abspath(__file__)))


class Finding:
    def __init__(self, rule, where, instance, msg, file=None, line=None, witness=None):
        self.rule, self.where, self.instance, self.msg = rule, where, instance, msg
        self.file, self.line, self.witness = file, line, witness

    @property
    def key(self):
        return "%s | %s | %s" % (self.rule, self.where, self.instance)

    def as_dict(self):
        return {"key": self.key, "rule": self.rule, "where": self.where, "instance": self.instance,
                "message": self.msg, "file": self.file, "line": self.line, "witness": self.witness}


class Ctx:
    """Per-run context handed to the property modules."""

    def __init__(self, pid, root, tier, seed, level="other"):
        self.pid, self.root, self.tier, self.seed, self.level = pid, root, tier, seed, level
        self.findings = []
        self.unknowns = []
        self.held = {}        # rule -> [instance descriptions]
        self.samples = []
        self.assumptions = []
        self.floors = {}      # rule -> minimum instance count
        self.notes = []
        self.extra_cov = {}
        self.t0 = time.time()
        self._prog = None
        self._cg = None
        self.replay_key = None
        self.rules_desc = {}

    # lazily built engine objects
    @property
    def prog(self):
        if self._prog is None:
            from .model import Program
            self._prog = Program(self.root)
        return self._prog

    @property
    def cg(self):
        if self._cg is None:
            from .callgraph import CallGraph
            self._cg = CallGraph(self.prog)
        return self._cg

    # ---- verdict recording
    def rule(self, rule, desc, floor=0):
        self.rules_desc[rule] = desc
        self.held.setdefault(rule, [])
        if floor:
            self.floors[rule] = floor

    def holds(self, rule, instance, detail=None):
        lst = self.held.setdefault(rule, [])
        txt = instance if detail is None else "%s: %s" % (instance, detail)
        if not any(x == txt or x.startswith(instance + ": ") or x == instance for x in lst):
            lst.append(txt)

    def violated(self, rule, func, instance, msg, node=None, witness=None):
        # a value the known-bits domain could not interpret (bits printed as `=T`) is not a finding: the rule is undecided there
        import re
        if "NOT-INTERPRETABLE" in (msg or ""):
            self.unknown(rule, "%s: not interpretable in the known-bits domain (%s)" % (instance, (msg or "")[:160]))
            return
        where = func.qual if hasattr(func, "qual") else str(func)
        file = func.file if hasattr(func, "file") else None
        line = getattr(node, "lineno", None) if node is not None else (
            getattr(func.node, "lineno", None) if hasattr(func, "node") else None)
        f = Finding(rule, where, instance, msg, file, line, witness)
        if any(x.key == f.key for x in self.findings):
            return
        self.findings.append(f)

    def unknown(self, rule, msg):
        self.unknowns.append("%s: %s" % (rule, msg))

    def assume(self, text):
        if text not in self.assumptions:
            self.assumptions.append(text)

    def sample(self, obj):
        if len(self.samples) < 12:
            self.samples.append(obj)

    # ---- finish
    def finish(self, explanation, trusted_base=None, checker_cmd=None):
        for rule, n in self.floors.items():
            have = len(self.held.get(rule, [])) + sum(1 for f in self.findings if f.rule == rule)
            if have < n:
                self.unknown(rule, "instance floor not met: %d < %d (rule would pass vacuously)" % (have, n))
        known = load_known()
        open_keys = {(k["property"], k["key"]): k for k in known.get("open", [])}
        new, listed = [], []
        for f in self.findings:
            if self.replay_key and f.key != self.replay_key:
                continue
            k = open_keys.get((self.pid, f.key))
            (listed if k else new).append((f, k))
        n_inst = sum(len(v) for v in self.held.values()) + len(self.findings)
        distinct = len({x for v in self.held.values() for x in v}) + len({f.key for f in self.findings})
        cov = {
            "explanation": explanation,
            "evaluations": max(n_inst, 1),
            "distinct_nontrivial": distinct,
            "rule": "one evaluation = one rule instance (rule x function x construct) decided on the parsed source; "
                    "distinct = distinct instance keys; an instance is non-trivial when the rule found its anchor "
                    "construct and evaluated it (anchors that vanish are analysis errors, not instances)",
            "samples": self.samples or [{"rule": r, "instance": v[0]} for r, v in self.held.items() if v][:8] or ["none"],
            "rules": {r: {"description": self.rules_desc.get(r, ""), "instances_holding": len(v),
                          "violations": sum(1 for f in self.findings if f.rule == r),
                          "floor": self.floors.get(r, 0), "instances": v[:40]} for r, v in sorted(self.held.items())},
            "files_analysed": list(self._prog.files) if self._prog else [],
            "functions_analysed": len(self._prog.funcs) if self._prog else 0,
            "unknown": self.unknowns,
            "findings": [f.as_dict() for f in self.findings],
            "known_findings_listed": [f.key for f, _ in listed],
            "exhaustive": False,
        }
        if self._cg is not None:
            cov["call_sites"] = sum(len(v) for v in self._cg.sites.values())
            cov["call_sites_unresolved"] = ["%s:%s" % (s.caller.qual, s.node.lineno) for s in self._cg.unresolved]
        cov.update(self.extra_cov)
        if self.level == "proof":
            cov["obligations"] = max(n_inst, 1)
            cov["discharged"] = sum(len(v) for v in self.held.values())
            cov["checker_cmd"] = checker_cmd or "python3 check.py %s" % self.pid
            cov["trusted_base"] = trusted_base or []
        elif trusted_base:
            cov["trusted_base"] = trusted_base
        ev = {
            "property_id": self.pid, "tier": self.tier, "seed": self.seed, "level": self.level,
            "coverage": cov, "assumptions": self.assumptions, "wall_s": round(time.time() - self.t0, 3),
            "violations": len(new),
        }
        # exit code
        code = 0
        lines = []
        for f, k in listed:
            lines.append("KNOWN-FINDING: property=%s %s [%s]" % (self.pid, k.get("what", f.msg), f.key))
        if new:
            code = 1
            os.makedirs(os.path.join(VERIF, "evidence", "replay"), exist_ok=True)
            for i, (f, _) in enumerate(new):
                rp = os.path.join(VERIF, "evidence", "replay", "%s-%d.json" % (self.pid, i))
                with open(rp, "w") as fh:
                    json.dump({"property": self.pid, "root": self.root, **f.as_dict()}, fh, indent=1, default=str)
                lines.append("%s:%s: [%s] %s -- %s: %s" % (f.file, f.line, f.rule, f.where, f.instance, f.msg))
                if f.witness:
                    lines.append("    witness: %s" % (json.dumps(f.witness, default=str)[:600]))
                lines.append("VIOLATION property=%s replay=%s" % (self.pid, rp))
        elif self.unknowns:
            code = 2
            for u in self.unknowns:
                lines.append("ANALYSIS-ERROR property=%s %s" % (self.pid, u))
        ev["coverage"]["verdict"] = {0: "HOLDS", 1: "VIOLATED", 2: "UNKNOWN"}[code]
        if self.root == "/repo" and not self.replay_key:
            os.makedirs(os.path.join(VERIF, "evidence"), exist_ok=True)
            with open(os.path.join(VERIF, "evidence", "%s.json" % self.pid), "w") as fh:
                json.dump(ev, fh, indent=1, default=str)
        summary = "%s %s tier=%s: %d rule instances hold, %d violation(s) (%d listed as known), %d unknown; %.2fs" % (
            self.pid, ev["coverage"]["verdict"], self.tier, sum(len(v) for v in self.held.values()),
            len(self.findings), len(listed), len(self.unknowns), time.time() - self.t0)
        for r, v in sorted(self.held.items()):
            lines.append("  %-22s %3d instance(s) hold%s" % (r, len(v), "" if r not in self.floors else " (floor %d)" % self.floors[r]))
        lines.append(summary)
        print("\n".join(lines))
        sys.stdout.flush()
        return code


def load_known():
    p = os.path.join(VERIF, "known_findings.json")
    if not os.path.exists(p):
        return {"open": [], "fixed": []}
    with open(p) as fh:
        return json.load(fh)
