"""Canonical symbolic expressions ("Sym") and a per-path def-use evaluator.

A Sym is a nested tuple.  Locals are substituted by their reaching definition
along one path, constants are resolved through the program model, comparison
spellings are normalised, so rules compare *what is computed*, not how it is
spelt.  Nothing is executed; heap reads stay access paths.
"""
import ast
from .model import NOCONST, EnumVal, Cls, attr_chain, fold_binop, _NotConst, AnalysisError

SELF = ("self",)
TABLE_FIELDS = {"_rcv_buffer", "_snd_buffer", "_multi_pg_snd_buffer"}

BINOPS = {ast.Add: "+", ast.Sub: "-", ast.Mult: "*", ast.Div: "/", ast.FloorDiv: "//", ast.Mod: "%",
          ast.Pow: "**", ast.LShift: "<<", ast.RShift: ">>", ast.BitOr: "|", ast.BitAnd: "&",
          ast.BitXor: "^", ast.MatMult: "@"}
BINOP_NODES = {v: k for k, v in BINOPS.items()}
COMMUT = {"|", "&", "^"}


def C(v):
    if isinstance(v, list):
        return ("list", tuple(C(x) for x in v))
    if isinstance(v, tuple):
        return ("tuple", tuple(C(x) for x in v))
    if isinstance(v, dict):
        return ("dict", tuple((C(k), C(x)) for k, x in v.items()))
    return ("c", v)


def is_const(s):
    return isinstance(s, tuple) and s and s[0] == "c"


def cval(s, default=None):
    return s[1] if is_const(s) else default


def skey(s):
    return repr(s)


def mk_not(x):
    if x[0] == "not":
        return x[1]
    if is_const(x) and not isinstance(x[1], EnumVal):
        return ("c", not x[1])
    return ("not", x)


def mk_cmp(op, l, r):
    """Normal forms: '==' (sorted operands), '<' , 'in'; everything else via not/swap."""
    if op in ("==", "is"):
        if is_const(l) and is_const(r):
            return ("c", l[1] == r[1])
        # x == True -> x ; x == False -> not x  (boolean contexts only)
        for a, b in ((l, r), (r, l)):
            if is_const(b) and b[1] is True and _boolish(a):
                return a
            if is_const(b) and b[1] is False and _boolish(a):
                return mk_not(a)
        # (A if c else B) == K  with a constant arm:  distribute the comparison over the conditional expression
        for a, b in ((l, r), (r, l)):
            if a[0] == "ife" and is_const(b) and (is_const(a[2]) or is_const(a[3])):
                return mk_bool("or", [mk_bool("and", [a[1], mk_cmp("==", a[2], b)]), mk_bool("and", [mk_not(a[1]), mk_cmp("==", a[3], b)])])
        # the result of an arithmetic / bitwise operation, a comparison, a display or a bound method of self is never None
        for a, b in ((l, r), (r, l)):
            if is_const(b) and b[1] is None and (a[0] in ("bin", "cmp", "list", "tuple", "dict", "cat") or
                                                 (a[0] == "not")):
                return ("c", False)
        a, b = sorted((l, r), key=skey)
        return ("cmp", "==", a, b)
    if op in ("!=", "is not"):
        return mk_not(mk_cmp("==", l, r))
    if op == "<":
        if is_const(l) and is_const(r) and _num(l) and _num(r):
            return ("c", l[1] < r[1])
        return ("cmp", "<", l, r)
    if op == ">":
        return mk_cmp("<", r, l)
    if op == ">=":
        return mk_not(mk_cmp("<", l, r))
    if op == "<=":
        return mk_not(mk_cmp("<", r, l))
    if op == "in":
        if r[0] == "dict" and is_const(l) and all(is_const(k) for k, _ in r[1]):
            return ("c", any(k == l for k, _ in r[1]))
        if r[0] in ("list", "tuple") and is_const(l) and all(is_const(x) for x in r[1]):
            return ("c", l in r[1])
        if r[0] in ("list", "tuple", "set") and 0 < len(r[1]) <= 6 and all(x[0] != "star" for x in r[1]):
            # x in (c1, c2, ...)  ==  x == c1 or x == c2 or ...
            return mk_bool("or", [mk_cmp("==", l, x) for x in r[1]])
        return ("cmp", "in", l, r)
    if op == "not in":
        return mk_not(mk_cmp("in", l, r))
    raise AnalysisError("unsupported comparison %s" % op)


def _num(s):
    return isinstance(s[1], (int, float)) and not isinstance(s[1], bool)


def _boolish(s):
    # comparison results, bool ops, attribute flags, calls: accept everything except plain ints
    return not (is_const(s) and not isinstance(s[1], bool))


CMPOPS = {ast.Eq: "==", ast.NotEq: "!=", ast.Lt: "<", ast.LtE: "<=", ast.Gt: ">", ast.GtE: ">=",
          ast.Is: "is", ast.IsNot: "is not", ast.In: "in", ast.NotIn: "not in"}


def mk_bin(op, l, r):
    # identities
    if is_const(r) and isinstance(r[1], int) and not isinstance(r[1], bool) and l[0] not in ("list", "cat", "pad", "rep"):
        if (r[1] == 0 and op in ("+", "-", "|", "^", "<<", ">>")) or (r[1] == 1 and op in ("*", "//")):
            return l
    if is_const(l) and isinstance(l[1], int) and not isinstance(l[1], bool) and r[0] not in ("list", "cat", "pad", "rep"):
        if (l[1] == 0 and op in ("+", "|", "^")) or (l[1] == 1 and op == "*"):
            return r
    if is_const(l) and is_const(r):
        try:
            return C(fold_binop(BINOP_NODES[op](), l[1], r[1]))
        except _NotConst:
            pass
    # list algebra used by frame builders
    if op == "+" and l[0] == "list" and r[0] == "list":
        return ("list", l[1] + r[1])
    if op == "+" and (_listish(l) and _listish(r)) and (l[0] in ("list", "cat", "pad", "rep") or r[0] in ("list", "cat", "pad", "rep")):
        # X + [c] * (K - len(X))  ==  X padded with c to K
        if r[0] == "rep" and r[1][0] == "list" and len(r[1][1]) == 1:
            n = r[2]
            if n[0] == "bin" and n[1] == "-" and n[3] == ("call", ("glob", "len"), (l,), ()):
                return ("pad", l, n[2], r[1][1][0])
        return cat(l, r)
    if op == "*" and l[0] == "list" and is_const(r) and isinstance(r[1], int) and 0 <= r[1] <= 4096:
        return ("list", l[1] * r[1])
    if op == "*" and r[0] == "list" and is_const(l) and isinstance(l[1], int) and 0 <= l[1] <= 4096:
        return ("list", r[1] * l[1])
    if op == "*" and l[0] == "list":
        return ("rep", l, r)
    if op == "*" and r[0] == "list":
        return ("rep", r, l)
    if op == "*" and l[0] not in ("list", "rep") and r[0] not in ("list", "rep") and not (is_const(l) and isinstance(l[1], str)) \
            and not (is_const(r) and isinstance(r[1], str)):
        l, r = sorted((l, r), key=skey)
    if op in COMMUT:
        # associative + commutative: flatten, fold constants, sort, rebuild left-nested
        ops = []
        for x in (l, r):
            ops.extend(_flat(op, x))
        consts = [x for x in ops if is_const(x) and isinstance(x[1], int) and not isinstance(x[1], bool)]
        rest = [x for x in ops if x not in consts]
        if len(consts) > 1:
            acc = consts[0][1]
            for c in consts[1:]:
                acc = {"|": acc | c[1], "&": acc & c[1], "^": acc ^ c[1]}[op]
            consts = [("c", acc)]
        ops = sorted(consts + rest, key=skey)
        out = ops[0]
        for x in ops[1:]:
            out = ("bin", op, out, x)
        return out
    return ("bin", op, l, r)


def _listish(x):
    return x[0] in ("list", "cat", "pad", "rep") or (x[0] == "sub" and x[2][0] == "slice") or \
        (x[0] == "call" and x[1] in (("glob", "list"), ("glob", "bytearray"), ("glob", "bytes")))


def _flat(op, x):
    if x[0] == "bin" and x[1] == op:
        return _flat(op, x[2]) + _flat(op, x[3])
    return [x]


def mk_bool(op, items):
    flat = []
    for it in items:
        if it[0] == "bool" and it[1] == op:
            flat.extend(it[2])
        else:
            flat.append(it)
    out = []
    for it in flat:
        if is_const(it) and not isinstance(it[1], EnumVal):
            if op == "and":
                if not it[1]:
                    return ("c", False)
                continue
            else:
                if it[1]:
                    return ("c", True)
                continue
        out.append(it)
    if not out:
        return ("c", op == "and")
    if len(out) == 1:
        return out[0]
    return ("bool", op, tuple(out))


def is_heap_path(s):
    """attr/sub chain rooted at self or a parameter (no slices / calls)."""
    while True:
        if s == SELF or s[0] == "p":
            return True
        if s[0] == "attr":
            s = s[1]
        elif s[0] == "sub":
            if s[2][0] == "slice":
                return False
            s = s[1]
        else:
            return False


def root_field(s):
    """self.<field>[..]... -> field name or None."""
    cur = s
    while cur[0] in ("attr", "sub"):
        if cur[0] == "attr" and cur[1] == SELF:
            return cur[2]
        cur = cur[1]
    return None


def walk(s):
    """All sub-Syms (pre-order)."""
    yield s
    if not isinstance(s, tuple):
        return
    for x in s[1:]:
        if isinstance(x, tuple):
            if x and isinstance(x[0], str):
                yield from walk(x)
            else:
                for y in x:
                    if isinstance(y, tuple):
                        if y and isinstance(y[0], str):
                            yield from walk(y)
                        else:
                            for z in y:
                                if isinstance(z, tuple) and z and isinstance(z[0], str):
                                    yield from walk(z)


def contains(s, sub):
    return any(x == sub for x in walk(s))


def pretty(s, depth=0):
    """Readable rendering for reports."""
    if not isinstance(s, tuple) or not s:
        return repr(s)
    k = s[0]
    if k == "c":
        return repr(s[1])
    if k == "p":
        return s[1]
    if k == "self":
        return "self"
    if k == "glob":
        return s[1]
    if k == "var":
        return s[1]
    if k == "attr":
        return "%s.%s" % (pretty(s[1]), s[2])
    if k == "sub":
        return "%s[%s]" % (pretty(s[1]), pretty(s[2]))
    if k == "slice":
        return "%s:%s" % ("" if s[1] is None else pretty(s[1]), "" if s[2] is None else pretty(s[2]))
    if k == "call":
        a = [pretty(x) for x in s[2]] + ["%s=%s" % (n, pretty(v)) for n, v in s[3]]
        return "%s(%s)" % (pretty(s[1]), ", ".join(a))
    if k == "bin":
        return "(%s %s %s)" % (pretty(s[2]), s[1], pretty(s[3]))
    if k == "un":
        return "(%s%s)" % (s[1], pretty(s[2]))
    if k == "cmp":
        return "(%s %s %s)" % (pretty(s[2]), s[1], pretty(s[3]))
    if k == "not":
        return "not %s" % pretty(s[1])
    if k == "bool":
        return "(" + (" %s " % s[1]).join(pretty(x) for x in s[2]) + ")"
    if k == "ife":
        return "(%s if %s else %s)" % (pretty(s[2]), pretty(s[1]), pretty(s[3]))
    if k in ("list", "tuple"):
        items = [pretty(x) for x in s[1]]
        if len(items) > 14:
            items = items[:12] + ["...(%d)" % len(items)]
        return ("[%s]" if k == "list" else "(%s)") % ", ".join(items)
    if k == "dict":
        return "{%s}" % ", ".join("%s: %s" % (pretty(a), pretty(b)) for a, b in s[1])
    if k == "cat":
        return " ++ ".join(pretty(x) for x in s[1])
    if k == "pad":
        return "pad(%s, to=%s, with=%s)" % (pretty(s[1]), pretty(s[2]), pretty(s[3]))
    if k == "rep":
        return "%s*%s" % (pretty(s[1]), pretty(s[2]))
    return "%s(%s)" % (k, ", ".join(pretty(x) if isinstance(x, tuple) else repr(x) for x in s[1:]))


def _as_display(v):
    """a constant mapping (class-level template, MappingProxyType of a literal) as a dict display Sym"""
    if v[0] == "c" and isinstance(v[1], dict) and all(isinstance(k, (str, int)) for k in v[1]):
        def lift(x):
            if isinstance(x, (list, tuple)) and not isinstance(x, str):
                return ("list" if isinstance(x, list) else "tuple", tuple(lift(y) for y in x))
            return ("c", x)
        return ("dict", tuple((("c", k), lift(val)) for k, val in v[1].items()))
    return v


class Eff:
    """One effect of a simple statement / condition evaluation."""
    __slots__ = ("kind", "target", "value", "node", "extra")

    def __init__(self, kind, target=None, value=None, node=None, extra=None):
        self.kind, self.target, self.value, self.node, self.extra = kind, target, value, node, extra

    @property
    def line(self):
        return getattr(self.node, "lineno", 0)

    def __repr__(self):
        return "Eff(%s %s %s @%s)" % (self.kind, pretty(self.target) if self.target else "",
                                      pretty(self.value) if isinstance(self.value, tuple) else self.value, self.line)


class SymEval:
    """Evaluates expressions / statements of one function along one path."""

    def __init__(self, prog, func, env=None, use_heap=True):
        self.prog, self.func = prog, func
        self.cls = func.cls if func is not None else None
        self.mod = func.mod if func is not None else None
        self.env = {}
        self.heap = {}
        self.use_heap = use_heap
        self.uid = 0
        if func is not None:
            for i, p in enumerate(func.all_params):
                if func.is_method and i == 0:
                    self.env[p] = SELF
                else:
                    self.env[p] = ("p", p)
            for p in func.kwonly:
                self.env[p] = ("p", p)
            if func.vararg:
                self.env[func.vararg] = ("p", "*" + func.vararg)
            if func.kwarg:
                self.env[func.kwarg] = ("p", "**" + func.kwarg)
        if env:
            self.env.update(env)
        self.effects = []   # filled by expr() for calls, by step() for stores

    def clone(self):
        o = SymEval.__new__(SymEval)
        o.prog, o.func, o.cls, o.mod = self.prog, self.func, self.cls, self.mod
        o.env, o.heap, o.use_heap, o.uid = dict(self.env), dict(self.heap), self.use_heap, self.uid
        o.effects = []
        return o

    def fresh(self, name):
        self.uid += 1
        return ("var", name, self.uid)

    # ------------------------------------------------------------ expressions
    def expr(self, n):
        m = getattr(self, "e_" + type(n).__name__, None)
        if m is None:
            return ("opaque", type(n).__name__, ast.dump(n)[:80])
        return m(n)

    def e_Constant(self, n):
        return ("c", n.value)

    def e_Name(self, n):
        if n.id in self.env:
            return self.env[n.id]
        if n.id in ("True", "False", "None"):
            return ("c", {"True": True, "False": False, "None": None}[n.id])
        # class-level / module-level constant
        v = self.prog.const_eval(n, self.mod, None) if self.mod else NOCONST
        if v is not NOCONST:
            return C(v)
        if n.id in self.prog.top_classes:
            return ("clsref", n.id)
        return ("glob", n.id)

    def e_Attribute(self, n):
        chain = attr_chain(n)
        if chain is not None and not (chain[0] in self.env and self.env[chain[0]] != SELF):
            v = self.prog.resolve_chain(chain, self.cls)
            if v is not NOCONST and not isinstance(v, Cls):
                return C(v) if not isinstance(v, EnumVal) else ("c", v)
            if isinstance(v, Cls):
                return ("clsref", v.qual)
        base = self.expr(n.value)
        if is_const(base) and isinstance(base[1], EnumVal):
            if n.attr == "value":
                return C(base[1].value)
            if n.attr == "name":
                return C(base[1].name)
        if base[0] == "clsref":
            v = self.prog.resolve_chain(base[1].split(".") + [n.attr], None)
            if v is not NOCONST and not isinstance(v, Cls):
                return C(v) if not isinstance(v, EnumVal) else ("c", v)
            if isinstance(v, Cls):
                return ("clsref", v.qual)
        if n.attr == "is_pdu1_format":
            # ParameterGroupNumber: PDU1 <=> not PDU2 (proved for every PF by C15's O-PGN obligations)
            return mk_not(("attr", base, "is_pdu2_format"))
        s = ("attr", base, n.attr)
        return self._heap_read(s)

    def _heap_read(self, s):
        if not self.use_heap:
            return s
        if s in self.heap:
            return self.heap[s]
        return s

    def e_Subscript(self, n):
        base = self.expr(n.value)
        idx = self.e_index(n.slice)
        return self.subscript(base, idx)

    def subscript(self, base, idx):
        # element / slice of a constant sequence (a class-level layout table, ...)
        if base[0] == "c" and isinstance(base[1], (tuple, list)):
            try:
                if idx[0] != "slice" and is_const(idx) and isinstance(idx[1], int) and not isinstance(idx[1], bool):
                    return ("c", base[1][idx[1]])
                if idx[0] == "slice" and all(x is None or (is_const(x) and isinstance(x[1], int) and not isinstance(x[1], bool)) for x in idx[1:4]):
                    return ("c", base[1][(idx[1][1] if idx[1] else None):(idx[2][1] if idx[2] else None):(idx[3][1] if idx[3] else None)])
            except IndexError:
                pass
        if idx[0] != "slice":
            if base[0] in ("list", "tuple") and is_const(idx) and isinstance(idx[1], int) and not isinstance(idx[1], bool):
                if -len(base[1]) <= idx[1] < len(base[1]):
                    return base[1][idx[1]]
            if base[0] == "dict":
                for k, v in base[1]:
                    if k == idx:
                        return v
        else:
            lo, hi, st = idx[1], idx[2], idx[3]
            if base[0] in ("list", "tuple") and st is None and (lo is None or is_const(lo)) and (hi is None or is_const(hi)):
                return (base[0], base[1][(lo[1] if lo else None):(hi[1] if hi else None)])
        # X[lo:hi][k]  ==  X[lo + k]   (constant, non-negative lo and k; k inside the slice when hi is constant)
        if idx[0] != "slice" and is_const(idx) and isinstance(idx[1], int) and not isinstance(idx[1], bool) and idx[1] >= 0 and \
                base[0] == "sub" and base[2][0] == "slice" and base[2][3] is None:
            lo, hi = base[2][1], base[2][2]
            lov = 0 if lo is None else (lo[1] if is_const(lo) and isinstance(lo[1], int) and lo[1] >= 0 else None)
            if lov is not None and (hi is None or (is_const(hi) and isinstance(hi[1], int) and hi[1] >= 0 and lov + idx[1] < hi[1])):
                return self.subscript(base[1], ("c", lov + idx[1]))
        s = ("sub", base, idx)
        return self._heap_read(s)

    def e_index(self, n):
        if isinstance(n, ast.Slice):
            return ("slice", self.expr(n.lower) if n.lower else None, self.expr(n.upper) if n.upper else None,
                    self.expr(n.step) if n.step else None)
        return self.expr(n)

    def e_BinOp(self, n):
        op = BINOPS.get(type(n.op))
        if op is None:
            return ("opaque", "binop")
        return mk_bin(op, self.expr(n.left), self.expr(n.right))

    def e_UnaryOp(self, n):
        x = self.expr(n.operand)
        if isinstance(n.op, ast.Not):
            return mk_not(x)
        opn = {ast.USub: "-", ast.UAdd: "+", ast.Invert: "~"}[type(n.op)]
        if is_const(x) and isinstance(x[1], (int, float)) and not isinstance(x[1], bool):
            return ("c", {"-": -x[1], "+": +x[1], "~": ~x[1] if isinstance(x[1], int) else None}[opn])
        return ("un", opn, x)

    def e_BoolOp(self, n):
        return mk_bool("and" if isinstance(n.op, ast.And) else "or", [self.expr(v) for v in n.values])

    def e_Compare(self, n):
        parts = []
        left = self.expr(n.left)
        for op, right in zip(n.ops, n.comparators):
            r = self.expr(right)
            parts.append(mk_cmp(CMPOPS[type(op)], left, r))
            left = r
        return parts[0] if len(parts) == 1 else mk_bool("and", parts)

    def e_IfExp(self, n):
        t = self.expr(n.test)
        a, b = self.expr(n.body), self.expr(n.orelse)
        if is_const(t) and not isinstance(t[1], EnumVal):
            return a if t[1] else b
        if is_const(a) and a[1] is True and is_const(b) and b[1] is False and _boolish(t) and t[0] in ("cmp", "not", "bool"):
            return t
        if is_const(a) and a[1] is False and is_const(b) and b[1] is True and _boolish(t) and t[0] in ("cmp", "not", "bool"):
            return mk_not(t)
        # x if x < y else y   and its spellings  ==  min(x, y) ;  the mirror images == max(x, y)
        tt, neg = (t[1], True) if t[0] == "not" else (t, False)
        if tt[0] == "cmp" and tt[1] == "<" and {tt[2], tt[3]} == {a, b} and a != b:
            lo_first = (tt[2] == a)          # condition reads  a < b
            is_min = lo_first != neg         # (a if a < b else b) -> min ; (a if not a < b else b) -> max
            return ("call", ("glob", "min" if is_min else "max"), tuple(sorted((a, b), key=skey)), ())
        return ("ife", t, a, b)

    def e_List(self, n):
        items = []
        parts = []
        for e in n.elts:
            if isinstance(e, ast.Starred):
                v = self.expr(e.value)
                if v[0] == "list":
                    items.extend(v[1])
                else:
                    if items:
                        parts.append(("list", tuple(items)))
                        items = []
                    parts.append(v)
            else:
                items.append(self.expr(e))
        if not parts:
            return ("list", tuple(items))
        if items:
            parts.append(("list", tuple(items)))
        out = parts[0]
        for p in parts[1:]:
            out = cat(out, p)
        return out

    def e_Tuple(self, n):
        return ("tuple", tuple(self.expr(e) for e in n.elts))

    def e_Dict(self, n):
        items = []
        for k, v in zip(n.keys, n.values):
            vs = self.expr(v)
            if k is None:
                vs = _as_display(vs)
                if vs[0] == "dict" and all(kk != ("c", "**") for kk, _ in vs[1]):
                    # {**d, ...} with d a display (or a constant mapping): spliced, later keys win
                    for kk, vv in vs[1]:
                        items = [(a, b) for a, b in items if a != kk]
                        items.append((kk, vv))
                    continue
                items.append((("c", "**"), vs))
                continue
            ks = self.expr(k)
            if is_const(ks):
                items = [(a, b) for a, b in items if a != ks]
            items.append((ks, vs))
        return ("dict", tuple(items))

    def e_Set(self, n):
        return ("set", tuple(self.expr(e) for e in n.elts))

    def e_JoinedStr(self, n):
        parts = []
        for v in n.values:
            if isinstance(v, ast.FormattedValue):
                parts.append(self.expr(v.value))
        return ("fstr", tuple(parts))

    def e_FormattedValue(self, n):
        return self.expr(n.value)

    def e_Lambda(self, n):
        return ("lambda", ast.dump(n)[:60])

    def e_Starred(self, n):
        return ("star", self.expr(n.value))

    def e_ListComp(self, n):
        return self._comp(n)

    e_GeneratorExp = e_SetComp = e_ListComp

    def _comp(self, n):
        # evaluate the element with generator targets bound to fresh iteration vars
        saved = dict(self.env)
        gens = []
        # a comprehension over a constant range with no filter is a list display
        if len(n.generators) == 1 and not n.generators[0].ifs and isinstance(n, (ast.ListComp, ast.GeneratorExp)) and \
                not isinstance(n.generators[0].target, ast.Name):
            # over a constant table with a tuple target: one element per row
            it0 = self.expr(n.generators[0].iter)
            rows = None
            if it0[0] == "c" and isinstance(it0[1], (tuple, list)) and 0 < len(it0[1]) <= 32:
                rows = [("c", row) for row in it0[1]]
            elif it0[0] in ("tuple", "list") and 0 < len(it0[1]) <= 32 and all(r_[0] in ("tuple", "list") and all(is_const(x) for x in r_[1]) for r_ in it0[1]):
                rows = list(it0[1])
            if rows is not None:
                items = []
                for row in rows:
                    self._bind_target(n.generators[0].target, row)
                    items.append(self.expr(n.elt))
                self.env = saved
                return ("list", tuple(items))
        if len(n.generators) == 1 and not n.generators[0].ifs and isinstance(n, ast.ListComp) and isinstance(n.generators[0].target, ast.Name):
            it = self.expr(n.generators[0].iter)
            if it[0] == "call" and it[1] == ("glob", "range") and all(is_const(a) and isinstance(a[1], int) for a in it[2]) and not it[3]:
                rng = range(*[a[1] for a in it[2]])
                if len(rng) <= 128:
                    items = []
                    for v in rng:
                        self.env[n.generators[0].target.id] = ("c", v)
                        items.append(self.expr(n.elt))
                    self.env = saved
                    return ("list", tuple(items))
            if it[0] in ("tuple", "list") and 0 < len(it[1]) <= 32 and all(is_const(x) for x in it[1]):
                # ... and so is one over a display of constants (shift amounts, field positions)
                items = []
                for v in it[1]:
                    self.env[n.generators[0].target.id] = v
                    items.append(self.expr(n.elt))
                self.env = saved
                return ("list", tuple(items))
        for g in n.generators:
            it = self.expr(g.iter)
            self._bind_target(g.target, ("iter", it))
            gens.append((it, tuple(self.expr(c) for c in g.ifs)))
        elt = self.expr(n.elt)
        self.env = saved
        return ("comp", elt, tuple(gens))

    def e_DictComp(self, n):
        return ("opaque", "dictcomp")

    def e_NamedExpr(self, n):
        v = self.expr(n.value)
        self.env[n.target.id] = v
        return v

    def e_Await(self, n):
        return ("opaque", "await")

    def e_Call(self, n):
        if isinstance(n.func, ast.Attribute) and self.use_heap:
            # method receiver: keep the access path (identity of the object), not the value last stored there
            self.use_heap = False
            try:
                base = self.expr(n.func.value)
            finally:
                self.use_heap = True
            if is_heap_path(base) and base[0] in ("attr", "sub") and base != SELF and n.func.attr in (
                    "append", "extend", "insert", "remove", "pop", "clear", "put", "get", "copy", "update"):
                f = ("attr", base, n.func.attr)
            else:
                f = self.expr(n.func)
        else:
            f = self.expr(n.func)
        args = tuple(self.expr(a) for a in n.args)
        kwargs = tuple((k.arg if k.arg else "**", self.expr(k.value)) for k in n.keywords)
        # f(*(a, b, c))  ==  f(a, b, c)   (a tuple / list display spliced in)
        if any(a[0] == "star" for a in args):
            flat_a, oka = [], True
            for a in args:
                if a[0] != "star":
                    flat_a.append(a)
                elif a[1][0] in ("tuple", "list") and not any(x[0] == "star" for x in a[1][1]):
                    flat_a.extend(a[1][1])
                else:
                    oka = False
            if oka:
                args = tuple(flat_a)
        # f(**{'a': x, ...})  ==  f(a=x, ...)   (a dict display / dict(...) with constant string keys)
        if any(k == "**" for k, _ in kwargs):
            flat, okx = [], True
            for k, v in kwargs:
                if k != "**":
                    flat.append((k, v))
                elif v[0] == "dict" and all(is_const(kk) and isinstance(kk[1], str) and kk[1] != "**" for kk, _ in v[1]):
                    flat.extend((kk[1], vv) for kk, vv in v[1])
                else:
                    okx = False
            if okx and len({k for k, _ in flat}) == len(flat):
                kwargs = tuple(flat)
        # dict(a=x, b=y)  ==  {'a': x, 'b': y};   dict(d, c=z) with d a display: merged
        if f == ("glob", "dict") and len(args) == 1:
            args = (_as_display(args[0]),)
        if f == ("glob", "dict") and all(k != "**" for k, _ in kwargs) and (not args or (len(args) == 1 and args[0][0] == "dict")):
            base = list(args[0][1]) if args else []
            keys = {k for k, _ in base}
            for k, v in kwargs:
                if ("c", k) in keys:
                    base = [(kk, vv) for kk, vv in base if kk != ("c", k)]
                base.append((("c", k), v))
            return ("dict", tuple(base))
        # K(b=y, a=x) for a class of the package: keywords moved into the constructor's positional order where they form a prefix
        if f[0] == "clsref" and kwargs and self.prog is not None and all(k != "**" for k, _ in kwargs):
            kc = self.prog.top_classes.get(f[1].split(".")[0])
            init = self.prog.find_method(kc, "__init__") if kc is not None else None
            if init is not None and not init.kwarg and not init.vararg:
                kw = dict(kwargs)
                pos = list(args)
                for pname in init.params[len(pos):]:
                    if pname in kw:
                        pos.append(kw.pop(pname))
                    else:
                        break
                if len(pos) == len(init.params) and not kw:      # only a complete binding is respelt (rules read partial ones by keyword)
                    args, kwargs = tuple(pos), ()
        # pure folds that only read syntax
        if f == ("glob", "len") and len(args) == 1:
            a = args[0]
            if a[0] in ("list", "tuple"):
                self.effects.append(Eff("call", None, ("call", f, args, kwargs), n))
                return ("c", len(a[1]))
        if f == ("glob", "sum") and 1 <= len(args) <= 2 and not kwargs and args[0][0] in ("list", "tuple") and len(args[0][1]) <= 64:
            acc = args[1] if len(args) == 2 else ("c", 0)
            for it_ in args[0][1]:
                acc = mk_bin("+", acc, it_)
            return acc
        if f in (("glob", "list"), ("glob", "tuple")) and len(args) == 1 and not kwargs and args[0][0] == "c" and isinstance(args[0][1], (tuple, list)) \
                and len(args[0][1]) <= 64:
            return ("list" if f[1] == "list" else "tuple", tuple(("c", y) for y in args[0][1]))
        if f == ("glob", "divmod") and len(args) == 2 and not kwargs:
            return ("tuple", (mk_bin("//", args[0], args[1]), mk_bin("%", args[0], args[1])))
        if f == ("glob", "int") and len(args) == 1 and is_const(args[0]) and isinstance(args[0][1], (int, float)):
            return ("c", int(args[0][1]))
        if f == ("glob", "list") and len(args) == 1 and (args[0][0] in ("list", "cat", "pad") or (args[0][0] == "sub" and args[0][2][0] == "slice")):
            return args[0]   # a copy of a fresh list / slice: same value
        if f == ("glob", "tuple") and len(args) == 1 and not kwargs and args[0][0] not in ("list", "tuple", "cat", "pad", "c", "comp"):
            # an immutable snapshot of a container: for every rule the same thing as list(x)
            f = ("glob", "list")
        # x.to_bytes(n, 'little') with constant n: the n little-endian bytes of x
        if f[0] == "attr" and f[2] == "to_bytes":
            kw = dict(kwargs)
            ln = args[0] if args else kw.get("length")
            bo = args[1] if len(args) > 1 else kw.get("byteorder")
            if ln is not None and is_const(ln) and isinstance(ln[1], int) and 0 < ln[1] <= 16 and bo in (("c", "little"), ("c", "big")) \
                    and kw.get("signed", ("c", False)) == ("c", False):
                items = [mk_bin("&", mk_bin(">>", f[1], ("c", 8 * i)) if i else f[1], ("c", 255)) for i in range(ln[1])]
                if bo[1] == "big":
                    items = items[::-1]
                self.effects.append(Eff("call", None, ("call", f, args, kwargs), n))
                return ("list", tuple(items))
        # dict.get on a dict display (kwargs of an inlined constructor)
        if f[0] == "attr" and f[2] == "get" and f[1][0] == "dict" and 1 <= len(args) <= 2 and is_const(args[0]) \
                and all(is_const(k) for k, _ in f[1][1]):
            for k, v in f[1][1]:
                if k == args[0]:
                    return v
            return args[1] if len(args) == 2 else ("c", None)
        # getattr(obj, "name") / setattr(obj, "name", v) with a constant name: plain attribute access
        if f == ("glob", "getattr") and len(args) == 2 and not kwargs and is_const(args[1]) and isinstance(args[1][1], str):
            return self._heap_read(("attr", args[0], args[1][1]))
        if f == ("glob", "setattr") and len(args) == 3 and not kwargs and is_const(args[1]) and isinstance(args[1][1], str):
            tgt = ("attr", args[0], args[1][1])
            self.effects.append(Eff("store", tgt, args[2], n))
            if self.use_heap:
                for hk in [hk for hk in self.heap if hk != tgt and contains(hk, tgt)]:
                    self.heap.pop(hk, None)
                self.heap[tgt] = args[2]
            return ("c", None)
        s = ("call", f, args, kwargs)
        # entry.update(k=v, ...) / entry.update({...}) on a stored dict: the same as the individual subscript stores, in order
        if f[0] == "attr" and f[2] == "update" and is_heap_path(f[1]) and f[1][0] in ("sub", "attr") and f[1] != SELF and \
                root_field(f[1]) in TABLE_FIELDS and len(args) <= 1 and all(k != "**" for k, _ in kwargs) and \
                (not args or (args[0][0] == "dict" and all(is_const(k) for k, _ in args[0][1]))):
            pairs = (list(args[0][1]) if args else []) + [(("c", k), v) for k, v in kwargs]
            for k, v in pairs:
                tgt = ("sub", f[1], k)
                self.effects.append(Eff("store", tgt, v, n))
                if self.use_heap:
                    for hk in [hk for hk in self.heap if hk != tgt and contains(hk, tgt)]:
                        self.heap.pop(hk, None)
                    self.heap[tgt] = v
            return ("c", None)
        # keyed access to a session table spelt with dict methods: same access path as T[k]
        if f[0] == "attr" and f[2] in ("get", "pop") and f[1][0] == "attr" and f[1][1] == SELF and f[1][2] in TABLE_FIELDS \
                and 1 <= len(args) <= 2 and not kwargs:
            path = ("sub", f[1], args[0])
            self.effects.append(Eff("call", None, s, n))
            if f[2] == "pop":
                self.effects.append(Eff("del", path, None, n, "pop"))
                for k in [k for k in self.heap if k == path or contains(k, path)]:
                    self.heap.pop(k, None)
                return ("popped", path)
            return self._heap_read(path)
        self.effects.append(Eff("call", None, s, n))
        # a call of one of the object's own methods may rewrite its fields: forget what the path-local heap knew about them
        if f[0] == "attr" and f[1] == SELF and self.cls is not None and self.heap:
            callee = self.prog.find_method(self.cls, f[2])
            if callee is not None:
                w = field_writes(self.prog, callee)
                for k in [k for k in self.heap if root_field(k) in w]:
                    self.heap.pop(k, None)
        # local dict built in steps: d.update(k=v, ...) / d.update({...})
        if f[0] == "attr" and f[2] == "update" and isinstance(n.func, ast.Attribute) and isinstance(n.func.value, ast.Name) \
                and n.func.value.id in self.env and self.env[n.func.value.id][0] == "dict" and all(k != "**" for k, _ in kwargs) \
                and (not args or (len(args) == 1 and args[0][0] == "dict")):
            cur = list(self.env[n.func.value.id][1])
            for k, v in (list(args[0][1]) if args else []) + [(("c", k), v) for k, v in kwargs]:
                cur = [(kk, vv) for kk, vv in cur if kk != k] + [(k, v)]
            self.env[n.func.value.id] = ("dict", tuple(cur))
            self.effects.pop()
            return ("c", None)
        # local list mutation idioms
        if f[0] == "attr" and isinstance(n.func, ast.Attribute) and isinstance(n.func.value, ast.Name) \
                and n.func.value.id in self.env and (not is_heap_path(self.env[n.func.value.id])
                                                     or self.env[n.func.value.id][0] == "p"):
            self._local_mut(n.func.value.id, f[2], args)
        return s

    def _local_mut(self, name, meth, args):
        cur = self.env[name]
        new = None
        if meth == "append" and len(args) == 1:
            new = cat(cur, ("list", (args[0],)))
        elif meth == "extend" and len(args) == 1:
            # (X.extend([c] * (K - len(X))) is the padding idiom: same normal form as X + [c] * (K - len(X)))
            new = mk_bin("+", cur, args[0]) if (_listish(cur) and args[0][0] == "rep") else cat(cur, args[0])
        elif meth == "insert" and len(args) == 2 and is_const(args[0]) and isinstance(args[0][1], int):
            i = args[0][1]
            if cur[0] == "list" and 0 <= i <= len(cur[1]):
                new = ("list", cur[1][:i] + (args[1],) + cur[1][i:])
            elif cur[0] == "cat" and cur[1][0][0] == "list" and 0 <= i <= len(cur[1][0][1]):
                h = cur[1][0][1]
                new = ("cat", (("list", h[:i] + (args[1],) + h[i:]),) + cur[1][1:])
            elif i == 0:
                new = cat(("list", (args[1],)), cur)
        if new is not None:
            self.env[name] = new

    # -------------------------------------------------------------- statements
    def step(self, st):
        """Process a simple statement; returns its effects in evaluation order."""
        self.effects = []
        m = getattr(self, "s_" + type(st).__name__, None)
        if m is None:
            raise AnalysisError("unsupported statement %s at line %s" % (type(st).__name__, getattr(st, "lineno", "?")))
        m(st)
        out, self.effects = self.effects, []
        return out

    def cond(self, test):
        """Evaluate a branch condition; returns (sym, effects)."""
        self.effects = []
        s = self.expr(test)
        out, self.effects = self.effects, []
        return s, out

    def s_Expr(self, st):
        self.expr(st.value)

    def s_Pass(self, st):
        pass

    s_Import = s_ImportFrom = s_Global = s_Nonlocal = s_Pass

    def s_Assert(self, st):
        s = self.expr(st.test)
        self.effects.append(Eff("assert", None, s, st))

    def s_Assign(self, st):
        v = self.expr(st.value)
        for t in st.targets:
            self._assign(t, v, st)

    def s_AnnAssign(self, st):
        if st.value is not None:
            self._assign(st.target, self.expr(st.value), st)

    def s_AugAssign(self, st):
        op = BINOPS[type(st.op)]
        v = self.expr(st.value)
        t = st.target
        if isinstance(t, ast.Name):
            cur = self.env.get(t.id, ("glob", t.id))
            if op == "+" and cur[0] in ("list", "cat", "pad") and not is_const(v):
                self.env[t.id] = cat(cur, v)     # list += iterable
            else:
                self.env[t.id] = mk_bin(op, cur, v)
            return
        # local list element: data[0] |= x
        if isinstance(t, ast.Subscript) and isinstance(t.value, ast.Name) and t.value.id in self.env \
                and self.env[t.value.id][0] == "list":
            idx = self.e_index(t.slice)
            cur = self.env[t.value.id]
            if is_const(idx) and isinstance(idx[1], int) and -len(cur[1]) <= idx[1] < len(cur[1]):
                items = list(cur[1])
                items[idx[1]] = mk_bin(op, items[idx[1]], v)
                self.env[t.value.id] = ("list", tuple(items))
                return
        tgt = self._target(t)
        old = self._heap_read(tgt)
        self.effects.append(Eff("aug", tgt, v, st, op))
        if self.use_heap:
            self.heap[tgt] = mk_bin(op, old, v)

    def s_Delete(self, st):
        for t in st.targets:
            if isinstance(t, ast.Name):
                self.env.pop(t.id, None)
                continue
            tgt = self._target(t)
            self.effects.append(Eff("del", tgt, None, st))
            for k in [k for k in self.heap if k == tgt or contains(k, tgt)]:
                self.heap.pop(k, None)

    def s_Return(self, st):
        v = self.expr(st.value) if st.value is not None else ("c", None)
        self.effects.append(Eff("ret", None, v, st))

    def s_Raise(self, st):
        v = self.expr(st.exc) if st.exc is not None else ("c", None)
        self.effects.append(Eff("raise", None, v, st))

    def _target(self, t):
        saved = self.use_heap
        self.use_heap = False
        try:
            if isinstance(t, ast.Attribute):
                return ("attr", self.expr(t.value), t.attr)
            if isinstance(t, ast.Subscript):
                return ("sub", self.expr(t.value), self.e_index(t.slice))
        finally:
            self.use_heap = saved
        raise AnalysisError("unsupported assignment target %s" % ast.dump(t)[:60])

    def _assign(self, t, v, st):
        if isinstance(t, ast.Name):
            self.env[t.id] = v
            return
        if isinstance(t, (ast.Tuple, ast.List)):
            self._bind_target(t, v)
            return
        # X[0:0] = L  on a local / parameter list: L is spliced in at the front
        if isinstance(t, ast.Subscript) and isinstance(t.value, ast.Name) and t.value.id in self.env and isinstance(t.slice, ast.Slice) \
                and isinstance(t.slice.lower, ast.Constant) and t.slice.lower.value == 0 and isinstance(t.slice.upper, ast.Constant) \
                and t.slice.upper.value == 0 and t.slice.step is None:
            cur = self.env[t.value.id]
            if (not is_heap_path(cur) or cur[0] == "p") and _listish(v):
                self.env[t.value.id] = cat(v, cur)
                return
        # element of a local, fresh list: data[i] = e
        if isinstance(t, ast.Subscript) and isinstance(t.value, ast.Name) and t.value.id in self.env:
            cur = self.env[t.value.id]
            if not is_heap_path(cur):
                idx = self.e_index(t.slice)
                # data[a:b] = [x, y, ...] on a list display with constant bounds: the slice is replaced by the elements
                if cur[0] == "list" and idx[0] == "slice" and idx[3] is None and v[0] in ("list", "tuple") and \
                        all(b is None or (is_const(b) and isinstance(b[1], int)) for b in (idx[1], idx[2])):
                    items = list(cur[1])
                    lo = idx[1][1] if idx[1] is not None else None
                    hi = idx[2][1] if idx[2] is not None else None
                    items[lo:hi] = list(v[1])
                    self.env[t.value.id] = ("list", tuple(items))
                    return
                if cur[0] == "list" and is_const(idx) and isinstance(idx[1], int) and -len(cur[1]) <= idx[1] < len(cur[1]):
                    items = list(cur[1])
                    items[idx[1]] = v
                    self.env[t.value.id] = ("list", tuple(items))
                    return
                if cur[0] in ("rep", "upd"):
                    self.env[t.value.id] = ("upd", cur, idx, v)
                    return
                if cur[0] == "dict" and is_const(idx):
                    items = [(k, x) for k, x in cur[1] if k != idx] + [(idx, v)]
                    self.env[t.value.id] = ("dict", tuple(items))
                    return
        tgt = self._target(t)
        self.effects.append(Eff("store", tgt, v, st))
        if self.use_heap:
            # a store invalidates what was known below the target
            for k in [k for k in self.heap if k != tgt and contains(k, tgt)]:
                self.heap.pop(k, None)
            self.heap[tgt] = v

    def _bind_target(self, t, v):
        if isinstance(t, ast.Name):
            self.env[t.id] = v
        elif isinstance(t, (ast.Tuple, ast.List)) and v[0] == "ife" and v[2][0] in ("tuple", "list") and v[3][0] in ("tuple", "list") and \
                len(v[2][1]) == len(v[3][1]) == len(t.elts) and not any(isinstance(e, ast.Starred) for e in t.elts):
            # a, b = (x1, y1) if c else (x2, y2): element-wise conditional expressions
            self._bind_target(t, ("tuple", tuple(("ife", v[1], p_, q_) if p_ != q_ else p_ for p_, q_ in zip(v[2][1], v[3][1]))))
        elif isinstance(t, (ast.Tuple, ast.List)) and len(t.elts) == 2 and v[0] == "call" and v[1] == ("glob", "divmod") and len(v[2]) == 2:
            self._bind_target(t.elts[0], mk_bin("//", v[2][0], v[2][1]))
            self._bind_target(t.elts[1], mk_bin("%", v[2][0], v[2][1]))
        elif isinstance(t, (ast.Tuple, ast.List)) and v[0] == "c" and isinstance(v[1], (tuple, list)) and \
                sum(1 for e in t.elts if isinstance(e, ast.Starred)) == 1 and len(v[1]) >= len(t.elts) - 1:
            k = [i for i, e in enumerate(t.elts) if isinstance(e, ast.Starred)][0]
            after = len(t.elts) - k - 1
            seq = list(v[1])
            for i, e in enumerate(t.elts[:k]):
                self._bind_target(e, ("c", seq[i]))
            self._bind_target(t.elts[k].value, ("c", tuple(seq[k:len(seq) - after])))
            for i, e in enumerate(t.elts[k + 1:]):
                self._bind_target(e, ("c", seq[len(seq) - after + i]))
        elif isinstance(t, (ast.Tuple, ast.List)):
            for i, e in enumerate(t.elts):
                if v[0] in ("tuple", "list") and len(v[1]) == len(t.elts):
                    self._bind_target(e, v[1][i])
                else:
                    self._bind_target(e, self.subscript(v, ("c", i)))
        elif isinstance(t, ast.Starred):
            self._bind_target(t.value, ("item", v, "*"))
        else:
            tgt = self._target(t)
            self.effects.append(Eff("store", tgt, v, t))


def cat(a, b):
    pa = a[1] if a[0] == "cat" else (a,)
    pb = b[1] if b[0] == "cat" else (b,)
    parts = list(pa)
    for p in pb:
        if parts and parts[-1][0] == "list" and p[0] == "list":
            parts[-1] = ("list", parts[-1][1] + p[1])
        else:
            parts.append(p)
    if len(parts) == 1:
        return parts[0]
    return ("cat", tuple(parts))


def field_writes(prog, func, _seen=None):
    """root fields of `self` that `func` may write (stores, deletes, in-place mutation), transitively over own methods"""
    cache = prog.__dict__.setdefault("_field_writes", {})
    if func.qual in cache:
        return cache[func.qual]
    seen = _seen if _seen is not None else set()
    if func.qual in seen:
        return set()
    seen.add(func.qual)
    out = set()

    def root(n):
        while isinstance(n, (ast.Subscript, ast.Attribute)):
            if isinstance(n, ast.Attribute) and isinstance(n.value, ast.Name) and n.value.id == "self":
                return n.attr
            n = n.value
        return None
    for n in ast.walk(func.node):
        targets = []
        if isinstance(n, ast.Assign):
            targets = n.targets
        elif isinstance(n, (ast.AugAssign, ast.AnnAssign)):
            targets = [n.target]
        elif isinstance(n, ast.Delete):
            targets = n.targets
        for t in targets:
            for x in ([t] if not isinstance(t, (ast.Tuple, ast.List)) else t.elts):
                r = root(x)
                if r:
                    out.add(r)
        if isinstance(n, ast.Call) and isinstance(n.func, ast.Attribute):
            if n.func.attr in ("append", "extend", "insert", "remove", "pop", "clear", "update", "setdefault", "sort", "reverse"):
                r = root(n.func.value)
                if r:
                    out.add(r)
            if isinstance(n.func.value, ast.Name) and n.func.value.id == "self" and func.cls is not None:
                callee = prog.find_method(func.cls, n.func.attr)
                if callee is not None:
                    out |= field_writes(prog, callee, seen)
    if _seen is None:
        cache[func.qual] = out
    return out
