"""Mutation / refactor corpus: calibration of the checks (thorough tier).

Each variant is one textual edit (the `old` text must occur exactly once in the file as it is on the current tree;
otherwise the variant is skipped and counted).  kind = 'break' : the edit breaks the property for some input/schedule
while the package still imports and the 116 tests pass -> the listed checks must exit 1.
kind = 'keep'  : behaviour-preserving rewrite of the same site -> the listed checks must exit 0 (false-alarm guard).
"""
V = []


def v(props, file, old, new, kind, note):
    V.append({"id": "%s-%03d" % (kind[0].upper(), len(V) + 1), "props": props.split(","), "file": file, "old": old, "new": new,
              "kind": kind, "note": note})


J21, J22, ECU, CA = "j1939_21.py", "j1939_22.py", "electronic_control_unit.py", "controller_application.py"
DM, Q, S, M = "diagnostic_messages.py", "Dm14Query.py", "Dm14Server.py", "memory_access.py"

# ---------------------------------------------------------------- C01 / C03 (J1939-21 segmentation, keys, delivery)
CEIL = "int(message_size / 7) if (message_size % 7 == 0) else int(message_size / 7) + 1"
v("C01", J21, CEIL, "int(message_size / 7) + 1", "break", "one packet too many for lengths divisible by 7")
v("C01", J21, CEIL, "int(message_size / 7)", "break", "last partial packet never announced")
v("C01", J21, CEIL, "(message_size + 6) // 7", "keep", "ceil-div respelled")
v("C01", J21, CEIL, "-(-message_size // 7)", "keep", "ceil-div respelled with negation")
v("C01", J21, CEIL, "message_size // 7 + (message_size % 7 != 0)", "keep", "ceil-div respelled with bool")
v("C01,C03", J21, "data.insert(0, package+1)", "data.insert(0, package)", "break", "0-based sequence numbers (CMDT)")
v("C01,C03", J21, "data.insert(0, buf['next_packet_to_send']+1)", "data.insert(0, buf['next_packet_to_send'])", "break", "0-based sequence numbers (BAM)")
v("C01,C03", J21, "offset = package * 7", "offset = package * 8", "break", "stride differs from packet size")
v("C01,C03", J21, "                                while len(data)<7:\n                                    data.append(255)\n                            data.insert(0, package+1)",
  "                                while len(data)<7:\n                                    data.append(0)\n                            data.insert(0, package+1)", "break", "pad byte 0x00 instead of 0xFF")
v("C01", J21, "((src_address & 0xFF) << 8) | (dest_address & 0xFF)", "((src_address & 0x7F) << 8) | (dest_address & 0xFF)", "break", "hash collision for addresses >= 128")
v("C01", J21, "((src_address & 0xFF) << 8) | (dest_address & 0xFF)", "(dest_address & 0xFF) + ((src_address & 0xFF) << 8)", "keep", "| respelled as + on disjoint fields")
v("C01", J21, "if len(data) <= 8:", "if len(data) <= 9:", "break", "9 bytes in a classic frame")
v("C01", J21, "if (pdu_specific == ParameterGroupNumber.Address.GLOBAL) or ParameterGroupNumber(0, pdu_format, pdu_specific).is_pdu2_format:",
  "if (pdu_specific == ParameterGroupNumber.Address.GLOBAL):", "break", "PDU2 long message sent RTS/CTS to its group extension")
v("C01", J21, "if (pdu_specific == ParameterGroupNumber.Address.GLOBAL) or ParameterGroupNumber(0, pdu_format, pdu_specific).is_pdu2_format:",
  "if ParameterGroupNumber(0, pdu_format, pdu_specific).is_pdu2_format or (pdu_specific == 255):", "keep", "operands swapped, literal for constant")
v("C01", J21, "if len(self._rcv_buffer[buffer_hash]['data']) >= self._rcv_buffer[buffer_hash]['message_size']:",
  "if len(self._rcv_buffer[buffer_hash]['data']) > self._rcv_buffer[buffer_hash]['message_size']:", "break", "exact multiples of 7 never complete")
v("C01", J21, "if len(self._rcv_buffer[buffer_hash]['data']) >= self._rcv_buffer[buffer_hash]['message_size']:",
  "if not len(self._rcv_buffer[buffer_hash]['data']) < self._rcv_buffer[buffer_hash]['message_size']:", "keep", ">= respelled as not <")
v("C01", J21, "            self._rcv_buffer[buffer_hash]['data'] = self._rcv_buffer[buffer_hash]['data'][:self._rcv_buffer[buffer_hash]['message_size']]\n", "", "break", "padding delivered with the payload")
v("C01", J21, "            del self._rcv_buffer[buffer_hash]\n            self.__job_thread_wakeup()\n            return\n\n        # clear to send",
  "            self.__job_thread_wakeup()\n            return\n\n        # clear to send", "break", "session not removed after delivery")
v("C01", J21, "            buffer_hash = self._buffer_hash(dest_address, src_address)\n            if buffer_hash not in self._snd_buffer:\n                self.__send_tp_abort(dest_address, src_address, self.ConnectionAbortReason.RESOURCES, pgn)\n                return\n            if num_packages == 0:",
  "            buffer_hash = self._buffer_hash(src_address, dest_address)\n            if buffer_hash not in self._snd_buffer:\n                self.__send_tp_abort(dest_address, src_address, self.ConnectionAbortReason.RESOURCES, pgn)\n                return\n            if num_packages == 0:", "break", "CTS looked up with swapped roles")
v("C01,C08", J21, "                            self.__send_tp_dt(buf['src_address'], buf['dest_address'], data)\n                            if should_break:",
  "                            self.__send_tp_dt(buf['src_address'], buf['dest_address'], data)\n                            buf['deadline'] = time.time()\n                            if should_break:", "break", "state written after the DT send")
v("C01", J21, "        if buffer_hash in self._snd_buffer:\n                # There is already a sequence active for this pair\n                return False",
  "        if buffer_hash in self._rcv_buffer:\n                # There is already a sequence active for this pair\n                return False", "break", "busy test on the wrong table")
v("C01,C03", J21, "        elif pgn_value == ParameterGroupNumber.PGN.DATATRANSFER:", "        elif pgn_value == 0xEB00:", "keep", "literal for named constant")

# ---------------------------------------------------------------- C02 (FD)
v("C02", J22, "int(message_size / self.DataLength.TP ) + ((message_size % self.DataLength.TP ) != 0)", "int(message_size / self.DataLength.TP ) + 1", "break", "one segment too many for multiples of 60")
v("C02", J22, "int(message_size / self.DataLength.TP ) + ((message_size % self.DataLength.TP ) != 0)", "(message_size + 59) // 60", "keep", "ceil-div respelled")
v("C02", J22, "        if self._rcv_buffer[buffer_hash]['next_packet'] != segment_num:\n            logger.critical('packet error. required: '+ str(self._rcv_buffer[buffer_hash]['next_packet']) + ' received: ' + str(segment_num) )\n            return\n", "", "break", "out-of-order segments appended")
v("C02", J22, "self._rcv_buffer[buffer_hash]['next_packet'] = segment_num + 1", "self._rcv_buffer[buffer_hash]['next_packet'] = segment_num", "break", "expected segment never advances")
v("C02,C06", J22, "                    and (len(self._rcv_buffer[buffer_hash]['data']) >= self._rcv_buffer[buffer_hash]['message_size']):", "                    and True:", "break", "EOM status delivers an incomplete buffer")
v("C02,C10", J22, "                        del self._snd_buffer[bufid]\n                        self.__put_rts_cts_session(buf['session'])\n\n                    elif buf['state'] == self.SendBufferState.EOM_ACK_RECEIVED:",
  "                        del self._snd_buffer[bufid]\n\n                    elif buf['state'] == self.SendBufferState.EOM_ACK_RECEIVED:", "break", "EOM-ack timeout leaks the session number")
v("C02,C10", J22, "                self.__send_tp_abort(dest_address, src_address, session_num, self.ConnectionAbortReason.BUSY, pgn)\n                return",
  "                self.__send_tp_abort(dest_address, src_address, session_num, self.ConnectionAbortReason.BUSY, pgn)\n                self.__put_rts_cts_session(session_num)\n                return", "break", "inbound RTS releases an outbound session number")
v("C02", J22, "((session_num & 0xF) << 16) | ((src_address & 0xFF) << 8) | (dest_address & 0xFF)", "((session_num & 0x7) << 16) | ((src_address & 0xFF) << 8) | (dest_address & 0xFF)", "break", "sessions 8..15 collide with 0..7")
v("C02", J22, "list_of_arr = np.split(arr, [full_tp_size_packages*self.DataLength.TP])", "list_of_arr = np.split(arr, [full_tp_size_packages*self.DataLength.TP + 1])", "break", "split point off by one")
v("C02", J22, "                        'session': session_num,\n                        'message_size': message_size,\n                        'num_segments': num_segments,\n                        'data': data_list,\n                        'state': self.SendBufferState.SENDING_BAM,",
  "                        'session': 0,\n                        'message_size': message_size,\n                        'num_segments': num_segments,\n                        'data': data_list,\n                        'state': self.SendBufferState.SENDING_BAM,", "break", "BAM session labelled with a constant")

# ---------------------------------------------------------------- C03 layouts
v("C03", J21, "data = [self.ConnectionMode.CTS, num_packets, next_packet, 0xFF, 0xFF,", "data = [self.ConnectionMode.CTS, next_packet, num_packets, 0xFF, 0xFF,", "break", "CTS fields swapped")
v("C03", J21, "data = [self.ConnectionMode.EOM_ACK, message_size & 0xFF, (message_size >> 8) & 0xFF,", "data = [self.ConnectionMode.EOM_ACK, (message_size >> 8) & 0xFF, message_size & 0xFF,", "break", "EOM ack size big-endian")
v("C03", J21, "        pgn = ParameterGroupNumber(0, 235, dest_address)", "        pgn = ParameterGroupNumber(0, 236, dest_address)", "break", "DT sent on the CM PGN")
v("C03", J21, "message_size = data[1] | (data[2] << 8)\n            num_packages = data[3]\n            max_num_packages", "message_size = data[2] | (data[1] << 8)\n            num_packages = data[3]\n            max_num_packages", "break", "RTS size parsed big-endian")
v("C03", J21, "message_size = data[1] | (data[2] << 8)\n            num_packages = data[3]\n            max_num_packages", "message_size = (data[2] << 8) + data[1]\n            num_packages = data[3]\n            max_num_packages", "keep", "| respelled as +")
v("C03", J22, "data[5]  = ( (num_segments >> 8) & 0xFF )", "data[5]  = ( (num_segments >> 16) & 0xFF )", "break", "segment count byte wrong")
v("C03,C11", J22, "for _ in range(8):  self._LUT_FD_DLC.append(32)", "for _ in range(8):  self._LUT_FD_DLC.append(36)", "break", "illegal FD length")
v("C03", J22, "data.insert(2, (segment_num >> 8) & 0xFF)", "data.insert(2, (segment_num >> 7) & 0xFF)", "break", "segment number byte shifted")
v("C03", J22, "pgn           = (data[9] & 0xFF)  | ((data[10] & 0xFF) << 8) | ((data[11] & 0xFF) << 16)", "pgn           = (data[9] & 0xFF)  | ((data[10] & 0xFF) << 8) | ((data[11] & 0x0F) << 16)", "break", "PGN high bits masked")
v("C03,C15", "message_id.py", "return (self.priority << 26) | (self.parameter_group_number << 8) | (self.source_address)", "return (self.priority << 25) | (self.parameter_group_number << 8) | (self.source_address)", "break", "priority position")
v("C03", J22, "            data[0]  = ( (TpControlType & 0xF) | ((session_num & 0xF) << 4))".replace("            ", "        "), "        data[0]  = ( (TpControlType & 0xF) + ((session_num & 0xF) << 4))", "keep", "| respelled as +")

# ---------------------------------------------------------------- C04
v("C04", CA, "if self._device_address_announced > 127 and self._device_address_announced < 248:", "if self._device_address_announced > 127 and self._device_address_announced < 254:", "break", "veto range too wide")
v("C04", CA, "self._send_address_claimed(j1939.ParameterGroupNumber.Address.NULL) # send CANNOT CLAIM", "self._send_address_claimed(src_address) # send CANNOT CLAIM", "break", "cannot-claim sent from the contested address")
v("C04,C15", CA, "if self._name.value > contenders_name.value:", "if self._name.value < contenders_name.value:", "break", "arbitration direction inverted")
v("C04,C15", CA, "if self._name.value > contenders_name.value:", "if contenders_name.value < self._name.value:", "keep", "comparison mirrored")
v("C04", CA, "or (self._device_address_state == ControllerApplication.State.WAIT_VETO and src_address == self._device_address_announced)", "", "break", "claims during the veto wait ignored")
v("C04", CA, "                    self._send_address_claimed(self._device_address)\n                else:\n                    # we are in the middle", "                    self._send_address_claimed(self._device_address_announced)\n                else:\n                    # we are in the middle", "break", "winner re-announces the wrong address")
v("C04", CA, "        VETO = 0.250", "        VETO = 0.025", "break", "veto time 25 ms")

# ---------------------------------------------------------------- C05
v("C05", ECU, "if self.stopped or msg.is_error_frame or msg.is_remote_frame or (msg.is_extended_id == False):", "if self.stopped or msg.is_error_frame or (msg.is_extended_id == False):", "break", "remote frames processed")
v("C05", ECU, "if self.stopped or msg.is_error_frame or msg.is_remote_frame or (msg.is_extended_id == False):", "if self.stopped or msg.is_remote_frame or msg.is_error_frame or not msg.is_extended_id:", "keep", "reordered / respelled")
v("C05", ECU, "(callable(dic['dev_adr']) and dic['dev_adr'](dest))", "callable(dic['dev_adr'])", "break", "predicate not consulted")
v("C05", CA, "        if dest_address == j1939.ParameterGroupNumber.Address.GLOBAL:\n            return True\n        return (self.device_address == dest_address)", "        return True", "break", "CA accepts every destination")
v("C05", J21, "                if reject == True:\n                    return", "                if reject == True:\n                    pass", "break", "filter does not reject")
v("C05", J22, "        if pgn.is_pdu1_format and dest_address != ParameterGroupNumber.Address.GLOBAL:", "        if dest_address != ParameterGroupNumber.Address.GLOBAL:", "break", "PDU2 filtered by PS (original defect D13)")
v("C05", J22, "        if pgn.is_pdu1_format and dest_address != ParameterGroupNumber.Address.GLOBAL:", "        if (not pgn.is_pdu2_format) and dest_address != 255:", "keep", "pdu1 respelled as not pdu2")

# ---------------------------------------------------------------- C06 / C07 / C08 / C10
v("C06", J21, "        T3 = 1.250", "        T3 = 12.50", "break", "T3 ten times the SAE value")
v("C06", J21, "self.__send_tp_abort(buf['dest_address'], buf['src_address'], self.ConnectionAbortReason.TIMEOUT, buf['pgn'])", "self.__send_tp_abort(buf['src_address'], buf['dest_address'], self.ConnectionAbortReason.TIMEOUT, buf['pgn'])", "break", "timeout abort sent in the wrong direction")
v("C06", J21, "self.__send_tp_abort(buf['dest_address'], buf['src_address'], self.ConnectionAbortReason.TIMEOUT, buf['pgn'])", "self.__send_tp_abort(buf['dest_address'], buf['src_address'], self.ConnectionAbortReason.BUSY, buf['pgn'])", "break", "wrong abort reason")
v("C06,C10", J21, "                self._snd_buffer[buffer_hash]['deadline'] = time.time()\n                self.__job_thread_wakeup()\n            # TODO: any more abort responses?", "                self._snd_buffer[buffer_hash]['deadline'] = time.time()\n            # TODO: any more abort responses?", "break", "abort handler without wake (original defect D14)")
v("C06,C07,C10", J21, "                        else:\n                            # nothing (more) to send in this window, e.g. a CTS received\n                            # after the last packet: wait for the next CTS / EndOfMsgACK\n                            buf['state'] = self.SendBufferState.WAITING_CTS\n                            buf['deadline'] = time.time() + self.Timeout.T3\n", "", "break", "burst loop exit without re-arm (original defect D8)")
v("C06,C07,C10", J22, "                    elif buf['state'] == self.SendBufferState.WAITING_EOM_ACK:\n                        # TODO: should we inform the application about the eom ack timeout?\n                        del self._snd_buffer[bufid]\n                        self.__put_rts_cts_session(buf['session'])",
  "                    elif buf['state'] == self.SendBufferState.WAITING_EOM_ACK:\n                        pass", "break", "EOM-ack timeout never ends the session")
v("C07,C08", J21, "            buf = self._rcv_buffer.get(bufid)\n            if buf is None:\n                # removed by the receive path since the snapshot was taken\n                continue", "            buf = self._rcv_buffer[bufid]", "break", "unprotected subscript (original defect D11)")
v("C07,C08", J21, "            buf = self._rcv_buffer.get(bufid)\n            if buf is None:\n                # removed by the receive path since the snapshot was taken\n                continue", "            try:\n                buf = self._rcv_buffer[bufid]\n            except KeyError:\n                continue", "keep", "try/except instead of get")
v("C07,C08", J22, "        for bufid in list(self._snd_buffer):", "        for bufid in self._snd_buffer:", "break", "scan iterates the live dict")
v("C07", ECU, "        try:\n            self.ecu.notify(msg.arbitration_id, msg.data, msg.timestamp)\n        except Exception as e:\n            # Exceptions in any callbaks should not affect CAN processing\n            logger.error(str(e))", "        self.ecu.notify(msg.arbitration_id, msg.data, msg.timestamp)", "break", "listener does not contain exceptions")
v("C07,C10", J22, "        self.__bam_session_list = [True] * 4", "        self.__bam_session_list = [True] * 4\n        self.__bam_session_list.pop()", "keep", "not understood -> must not be a violation")
v("C08", J21, "            elif control_byte == self.ConnectionMode.ABORT:\n            # if abort received before transmission established -> cancel transmission\n            buffer_hash = self._buffer_hash(dest_address, src_address)".replace("            elif", "        elif"),
  "        elif control_byte == self.ConnectionMode.ABORT:\n            # if abort received before transmission established -> cancel transmission\n            buffer_hash = self._buffer_hash(dest_address, src_address)\n            if False: del self._snd_buffer[buffer_hash]", "break", "receive path deletes send sessions under the job thread")
v("C10", J22, "            for idx, i in enumerate(self.__rts_cts_session_list):\n            if i == True:\n                self.__rts_cts_session_list[idx] = False\n                return idx".replace("            for", "        for"),
  "        for idx, i in enumerate(self.__rts_cts_session_list):\n            if i == True:\n                self.__rts_cts_session_list[idx] = False\n                return idx + 0", "keep", "idx + 0")

# ---------------------------------------------------------------- C09
v("C09", J21, "'next_packet': min(self._max_cmdt_packets, max_num_packages),", "'next_packet': max_num_packages,", "break", "first border ignores own maximum")
v("C09", J21, "max_num_packages = min(max_num_packages, num_packages)", "max_num_packages = num_packages", "break", "RTS window ignored")
v("C09", J21, "max_num_packages = min(max_num_packages, num_packages)", "max_num_packages = min(num_packages, max_num_packages)", "keep", "min operands swapped")
v("C09", J21, "(sequence_number >= self._rcv_buffer[buffer_hash]['next_packet'])", "(sequence_number > self._rcv_buffer[buffer_hash]['next_packet'])", "break", "CTS never sent at the border")
v("C09", J21, "next_packet_to_be_sent = self._rcv_buffer[buffer_hash]['next_packet'] + 1", "next_packet_to_be_sent = self._rcv_buffer[buffer_hash]['next_packet']", "break", "CTS names the wrong next packet")
v("C09", J21, "['next_packet_to_send'] + num_packages - 1", "['next_packet_to_send'] + num_packages", "break", "one packet more than granted")
v("C09", J21, "if package == buf['next_wait_on_cts']:", "if package+1 == buf['next_wait_on_cts']:", "break", "burst stops one packet early")
v("C09", J21, "if package == buf['next_wait_on_cts']:", "if buf['next_wait_on_cts'] == package:", "keep", "comparison mirrored")
v("C09", J21, "            if num_packages == 0:\n                # SAE J1939/21\n                # receiver requests a pause\n                self._snd_buffer[buffer_hash]['deadline'] = time.time() + self.Timeout.Th\n                self.__job_thread_wakeup()\n                return\n", "", "break", "hold CTS starts sending")
v("C09", J21, "                            buf['deadline'] = time.time() + self._minimum_tp_bam_dt_interval\n                            # recalc", "                            buf['deadline'] = time.time()\n                            # recalc", "break", "BAM packets not spaced")
v("C09", J22, "self._rcv_buffer[buffer_hash]['num_segments'] - self._rcv_buffer[buffer_hash]['next_cts_border'] )", "self._rcv_buffer[buffer_hash]['num_segments'] )", "break", "grant exceeds remaining")
v("C09", J22, "                            elif package == buf['next_wait_on_cts']:", "                            elif package > buf['next_wait_on_cts']:", "break", "window end overrun")
v("C09", J22, "            self._minimum_tp_bam_dt_interval = 0.010", "            self._minimum_tp_bam_dt_interval = 0.001", "break", "default FD BAM interval 1 ms")

# ---------------------------------------------------------------- C11
v("C11", J22, "['fill_level'] <= (self.DataLength.TP - data_length)", "['fill_level'] <= (64 - data_length)", "break", "frame may exceed 64 bytes")
v("C11", J22, "data.append( (cpg['tos'] << 5) | (cpg['tf'] << 2) | ((cpg['cpgn'] >> 16) & 0x3) )", "data.append( (cpg['tos'] << 5) | (cpg['tf'] << 3) | ((cpg['cpgn'] >> 16) & 0x3) )", "break", "trailer format position")
v("C11", J22, "cpgn = pgn.value & 0xFFF00", "cpgn = pgn.value", "break", "PDU1 group carries the destination in its PGN")
v("C11", J22, "if self._multi_pg_snd_buffer[hash]['deadline'] > deadline:", "if self._multi_pg_snd_buffer[hash]['deadline'] < deadline:", "break", "deadline raised instead of lowered")
v("C11", J22, "                data.append(0)\n                padding_cnt += 1", "                data.append(0xAA)\n                padding_cnt += 1", "break", "padding not skippable")
v("C11", J22, "timestamp, data[4:(4+payload_length)].copy())", "timestamp, data[4:(3+payload_length)].copy())", "break", "payload one byte short")
v("C11", J22, "            data = data[(4+payload_length):]", "            data = data[(5+payload_length):]", "break", "decoder advance disagrees with header size")
v("C11", J22, "                del self._multi_pg_snd_buffer[bufid]\n", "", "break", "buffer re-sent on every pass")
v("C11", J22, "                        # the job thread has to recalculate its sleep time for the new deadline\n                        self.__job_thread_wakeup()\n", "", "break", "no wake on buffering (original defect D12)")

# ---------------------------------------------------------------- C12
v("C12", ECU, "        for event in list(self._timer_events):\n            if event['callback'] == callback:", "        for event in self._timer_events:\n            if event['callback'] == callback:", "break", "remove while iterating (original defect D1)")
v("C12", ECU, "        for event in list(self._timer_events):\n            if event['callback'] == callback:", "        for event in self._timer_events[:]:\n            if event['callback'] == callback:", "keep", "slice copy instead of list()")
v("C12", ECU, "                        while event['deadline'] <= now:", "                        while event['deadline'] < now:", "break", "boundary double fire (original defect D15)")
v("C12", ECU, "                        while event['deadline'] <= now:", "                        while not event['deadline'] > now:", "keep", "<= respelled")
v("C12", ECU, "            'deadline': (time.time() + delta_time),", "            'deadline': time.time(),", "break", "first call immediately")
v("C12", ECU, "        self._timer_events.append( d )\n        self._job_thread_wakeup()", "        self._timer_events.append( d )", "break", "add_timer without wake")
v("C12", ECU, "                            event['deadline'] += event['delta_time']", "                            event['deadline'] = now + event['delta_time']", "break", "drift: period measured from now")
v("C12", ECU, "                if event not in self._timer_events:\n                    # removed in the meantime, e.g. by a callback called earlier in this pass\n                    continue\n", "", "break", "removed timer still called in the same pass")

# ---------------------------------------------------------------- C13 / C14
v("C13", CA, "        if self.state != ControllerApplication.State.NORMAL:\n            raise RuntimeError(\"Could not send message unless address claiming has finished\")\n\n        return self._ecu.send_pgn",
  "        if self.state == ControllerApplication.State.NONE:\n            raise RuntimeError(\"Could not send message unless address claiming has finished\")\n\n        return self._ecu.send_pgn", "break", "guard too weak")
v("C13", CA, "self._device_address_state = ControllerApplication.State.CANNOT_CLAIM", "pass", "break", "state stays NORMAL after losing")
v("C13", CA, "priority, self._device_address, data, time_limit, frame_format)", "priority, self._device_address_announced, data, time_limit, frame_format)", "break", "sends from the announced address")
v("C13", CA, "            source_address = j1939.ParameterGroupNumber.Address.NULL\n        else:", "            source_address = self._device_address\n        else:", "break", "claim request not from 254")
v("C13", DM, "        self._ca.send_pgn(0, (self._pgn >> 8) & 0xFF, dest_address & 0xFF, 6, data)", "        self._ca._ecu.send_pgn(0, (self._pgn >> 8) & 0xFF, dest_address & 0xFF, 6, self._ca._device_address, data)", "break", "service bypasses the CA guard")
v("C14", CA, "((self._device_address != dest_address) and (dest_address != j1939.ParameterGroupNumber.Address.GLOBAL)):", "((self._device_address != dest_address) and (dest_address == j1939.ParameterGroupNumber.Address.GLOBAL)):", "break", "destination test inverted")
v("C14", CA, "data = [(pgn & 0xFF), ((pgn >> 8) & 0xFF), ((pgn >> 16) & 0xFF)]", "data = [(pgn & 0xFF), ((pgn >> 8) & 0xFF), ((pgn >> 16) & 0x01)]", "break", "request PGN truncated")
v("C14", CA, "subscriber(src_address, dest_address, pgn)", "subscriber(dest_address, src_address, pgn)", "break", "callback arguments swapped")
v("C14", CA, "pgn = data[0] | (data[1] << 8) | (data[2] << 16)", "pgn = data[0] + (data[1] << 8) + (data[2] << 16)", "keep", "| as +")

# ---------------------------------------------------------------- C15
v("C15", "name.py", "retval += (self.function_instance << 35)", "retval += (self.function_instance << 36)", "break", "field position")
v("C15", "name.py", "self.ecu_instance = (value >> 32) & ((2 ** 3) - 1)", "self.ecu_instance = (value >> 32) & ((2 ** 2) - 1)", "break", "mask too narrow")
v("C15", "name.py", "(self.function_instance > ((2 ** 5) - 1))", "(self.function_instance > ((2 ** 6) - 1))", "break", "range check too wide")
v("C15", "name.py", "((self.value >> 48) & 0xFF),", "((self.value >> 47) & 0xFF),", "break", "byte view shifted")
v("C15", "parameter_group_number.py", "self.pdu_format>=240", "self.pdu_format>240", "break", "PDU2 boundary")
v("C15", "parameter_group_number.py", "self.data_page = (mid.parameter_group_number >> 16) & 0x01", "self.data_page = (mid.parameter_group_number >> 17) & 0x01", "break", "data page from the EDP bit")
v("C15", "message_id.py", "self.priority = (can_id >> 26) & 0x7", "self.priority = (can_id >> 26) & 0x3", "break", "priority mask")
v("C15", "name.py", "retval += (self.manufacturer_code << 21)", "retval |= (self.manufacturer_code << 21)", "keep", "+= as |=")
v("C15", "name.py", "        self.reserved_bit = 0\n", "", "break", "reserved bit not forced to 0")

# ---------------------------------------------------------------- C16
v("C16", DM, "        self._ca.remove_timer(self._send)", "        self._ca.remove_timer(callback)", "break", "wrong deregistration key (original defect D2)")
v("C16", DM, "data[7] = ((spn >> 11) & 0xE0) | (fmi & 0x1F)", "data[7] = ((spn >> 22) & 0xE0) | (fmi & 0x1F)", "break", "SPN high bits lost (original defect D3)")
v("C16", DM, "data[7] = ((spn >> 11) & 0xE0) | (fmi & 0x1F)", "data[7] = (((spn >> 16) & 0x7) << 5) + (fmi & 0x1F)", "keep", "respelled")
v("C16", DM, "self._spn = ((dtc & 0xFFFF) | ((dtc >> 5) & 0x70000))", "self._spn = ((dtc & 0xFFFF) | ((dtc >> 5) & 0x30000))", "break", "SPN bit 18 dropped on decode")
v("C16", DM, "self._oc  = ((dtc >> 24) & 0x7f)", "self._oc  = ((dtc >> 24) & 0xff)", "break", "conversion bit read into the count")
v("C16", DM, "            data[1] |= (flash << (idx*2))", "            data[1] |= (flash << (idx*2+1))", "break", "flash bits shifted")
v("C16", DM, "_DATA_LUT = {OFF: [0,3], ON: [1,3], ON_SLOW_FLASH: [1,0], ON_FAST_FLASH: [1,1], NA: [3,3]}", "_DATA_LUT = {OFF: [0,3], ON: [1,3], ON_SLOW_FLASH: [1,1], ON_FAST_FLASH: [1,0], NA: [3,3]}", "break", "slow/fast flash codes swapped")
v("C16", DM, "((self._data[i*4+4] & 0xff) << 16)", "((self._data[i*4+4] & 0xff) << 8)", "break", "DM1 parser byte position")
v("C16", DM, "        # returning true keeps the timer event active\n        return True", "        # returning true keeps the timer event active\n        return len(self._dtc_dic_list) > 0", "break", "DM1 stops when the list is empty")

# ---------------------------------------------------------------- C17 / C18 / C19
v("C17", Q, "raw_bytes[i * self.object_byte_size : (i + 1) * self.object_byte_size]", "raw_bytes[i * self.object_byte_size : i * self.object_byte_size + 1]", "break", "chunk one byte long")
v("C17", Q, "raw_bytes[i * self.object_byte_size : (i + 1) * self.object_byte_size]", "raw_bytes[self.object_byte_size * i : self.object_byte_size * i + self.object_byte_size]", "keep", "respelled")
v("C17", Q, "data.append(0xFF if byte_count > 7 else byte_count)", "data.append(0xFF if byte_count > 8 else byte_count)", "break", "client DM16 threshold")
v("C17", S, "            if (len(self.data)) <= 7:", "            if (len(self.data)) <= 8:", "break", "server threshold (original defect D5)")
v("C17", S, "            if (len(self.data)) <= 7:", "            if (len(self.data)) < 8:", "keep", "<= 7 as < 8")
v("C17", S, "self.command = ((data[1] - 1) & 0x0F) >> 1\n                self.pointer_type", "self.command = ((data[1] - 1) & 0x07) >> 1\n                self.pointer_type", "break", "command bit 2 lost")
v("C17", Q, "data.append(key_or_user_level >> 8)", "data.append(key_or_user_level >> 4)", "break", "key high byte")
v("C17", S, "                data[length - 2] = self.seed & 0xFF\n                data[length - 1] = self.seed >> 8", "                data[length - 1] = self.seed & 0xFF\n                data[length - 2] = self.seed >> 8", "break", "seed big-endian")
v("C17,C19", S, "            self.sa = None\n            self.address = None\n", "            self.sa = None\n", "break", "stale pointer (original defect D6)")
v("C18", M, "                            if self.server.verify_key(\n                                self.server.seed, self.server.key\n                            ):", "                            if True:", "break", "key never verified")
v("C18", S, "return True if self._key_from_seed(seed) == key else False", "return True if self._key_from_seed(seed) & 0xFF == key & 0xFF else False", "break", "only the low key byte compared")
v("C18", Q, "            if edcp == 0x06 or edcp == 0x07:", "            if edcp == 0x07:", "break", "EDCP 6 not reported")
v("C18", Q, "        self._ca.unsubscribe(self._parse_dm16)\n        self.state = QueryState.IDLE\n\n    def _read(", "        self.state = QueryState.IDLE\n\n    def _read(", "break", "DM16 parser left subscribed")
v("C18", M, "                                self.server.reset_query()\n                                self.state = DMState.IDLE\n                                self.server.error = 0x0\n", "                                self.state = DMState.IDLE\n                                self.server.error = 0x0\n", "break", "wrong key leaves the server mid-transaction (original defect D7)")
v("C18", M, "            finally:\n                # also when the query raises (error response, timeout)\n                self.state = DMState.IDLE\n            return data", "            finally:\n                pass\n            self.state = DMState.IDLE\n            return data", "break", "facade stuck in WAIT_QUERY (original defect D7)")
v("C19", S, "            (self.sa is not None and sa != self.sa)\n            or (", "            (self.sa is not None and sa != self.sa and self.state != ResponseState.WAIT_FOR_KEY)\n            or (", "break", "intruder joins during the key wait")
v("C19", S, "                data[0],\n                sa,\n                j1939.ParameterGroupNumber.PGN.DM15,", "                data[0],\n                self.sa if self.sa is not None else sa,\n                j1939.ParameterGroupNumber.PGN.DM15,", "break", "busy answer sent to the running requester")
v("C19", M, "                case DMState.WAIT_QUERY:\n                    self.server.set_busy(True)", "                case DMState.WAIT_QUERY:\n                    self.server.set_busy(False)", "break", "not busy while querying")

# ---------------------------------------------------------------- added after the first seeded round
v("C12", ECU, "            time_to_sleep = next_wakeup - time.time()", "            time_to_sleep = next_wakeup - now", "break", "sleep computed from the stale clock reading (seeded C12A)")
v("C12", ECU, "            time_to_sleep = next_wakeup - time.time()", "            current = time.time()\n            time_to_sleep = next_wakeup - current", "keep", "fresh reading through a local")
v("C17", M, "                    object_byte_size,\n                    signed,\n                    return_raw_bytes,\n                    max_timeout,", "                    object_byte_size,\n                    return_raw_bytes,\n                    signed,\n                    max_timeout,", "break", "facade swaps two boolean arguments (seeded C17A)")
v("C17", M, "                    object_byte_size,\n                    signed,\n                    return_raw_bytes,\n                    max_timeout,", "                    object_byte_size,\n                    return_raw_bytes=return_raw_bytes,\n                    signed=signed,\n                    max_timeout=max_timeout,", "keep", "keywords in another order")
v("C17", S, "        if self.command == j1939.Command.WRITE.value:\n            # data of a write request; for a multi-packet read this callback only\n            # sees the end of message acknowledge, which carries no memory data\n            length = min(data[0], len(data) - 1)\n            self.data_queue.put(data[1 : length + 1])",
  "        length = min(data[0], len(data) - 1)\n        self.data_queue.put(data[1 : length + 1])", "break", "EOM-ack payload queued (original defect D16)")
v("C17", S, "        if self.command == j1939.Command.WRITE.value:\n            # data of a write request;", "        if self.state == ResponseState.WAIT_FOR_DM16:\n            # data of a write request;", "keep", "guard by state instead of command")
v("C01,C10", J21, "            buffer_hash = self._buffer_hash(src_address, dest_address)\n            if buffer_hash in self._snd_buffer:", "            buffer_hash = self._buffer_hash(src_address, pdu_specific)\n            if buffer_hash in self._snd_buffer:", "break", "PDU2 broadcast booked on (src, group extension) (seeded C10B)")
v("C01,C09", J21, "'next_packet': min(self._max_cmdt_packets, max_num_packages),", "'next_packet': min(self._max_cmdt_packets, num_packages),", "break", "border ignores the RTS window (seeded C01B)")
v("C01,C02", ECU, "return self.j1939_dll.send_pgn(data_page, pdu_format, pdu_specific, priority, src_address, data, time_limit, frame_format)", "return self.j1939_dll.send_pgn(data_page, pdu_format, pdu_specific, src_address, priority, data, time_limit, frame_format)", "break", "priority and source address swapped in the forwarder")
v("C01,C03", J21, "                            data = buf['data'][offset:]\n                            if len(data)>7:\n                                data = data[:7]\n                            else:\n                                while len(data)<7:\n                                    data.append(255)\n                            data.insert(0, package+1)\n",
  "                            chunk = list(buf['data'][offset:offset + 7])\n                            chunk = chunk + [255] * (7 - len(chunk))\n                            data = [package + 1] + chunk\n", "keep", "slice + concatenation padding idiom instead of truncate/pad loop")
v("C01,C03", J21, "                            data = buf['data'][offset:]\n                            if len(data)>7:\n                                data = data[:7]\n                            else:\n                                while len(data)<7:\n                                    data.append(255)\n                            data.insert(0, package+1)\n",
  "                            chunk = list(buf['data'][offset:offset + 7])\n                            chunk = chunk + [255] * (8 - len(chunk))\n                            data = [package + 1] + chunk\n", "break", "same idiom padding to 8 data bytes")
v("C01", J21, "        self._rcv_buffer[buffer_hash]['deadline'] = time.time() + self.Timeout.T1\n        self.__job_thread_wakeup()", "        self.__job_thread_wakeup()", "break", "DT does not refresh the receive deadline (long BAM cut off)")
v("C11", J22, "'data_length': data_length, 'data': data.copy()}", "'data_length': data_length, 'data': data}", "break", "buffered group aliases the caller's list")
v("C11", J22, "'data_length': data_length, 'data': data.copy()}", "'data_length': data_length, 'data': list(data)}", "keep", "copy respelled")
v("C01,C05", J21, "            self.__notify_subscribers(mid.priority, pgn.value, mid.source_address, ParameterGroupNumber.Address.GLOBAL, timestamp, data)\n            return\n\n        # peer to peer",
  "            self.__notify_subscribers(mid.priority, pgn.value & 0x1FF00, mid.source_address, ParameterGroupNumber.Address.GLOBAL, timestamp, data)\n            return\n\n        # peer to peer", "break", "PDU2 delivered without its group extension")
v("C01", J21, "            mid = MessageId(priority=priority, parameter_group_number=pgn.value, source_address=src_address)\n            self.__send_message(mid.can_id, True, data)\n        else:",
  "            mid = MessageId(priority=priority, parameter_group_number=pgn.value & 0xFFFF, source_address=src_address)\n            self.__send_message(mid.can_id, True, data)\n        else:", "break", "data page dropped from single frames")

# ---------------------------------------------------------------- added after the second seeded round
v("C14", CA, "        if pgn==j1939.ParameterGroupNumber.PGN.ADDRESSCLAIM:", "        if (pgn & 0x1FF00)==j1939.ParameterGroupNumber.PGN.ADDRESSCLAIM:", "break", "claim test ignores the low byte / EDP bit (seeded C14A)")
v("C14", CA, "        if pgn==j1939.ParameterGroupNumber.PGN.ADDRESSCLAIM:", "        if 0xEE00 == pgn:", "keep", "mirrored, literal")
v("C05,C14", CA, "        return (self.device_address == dest_address)", "        return (self._device_address_preferred == dest_address)", "break", "acceptance compares the preferred address (seeded C14B)")
v("C05,C14", CA, "        return (self.device_address == dest_address)", "        return dest_address == self._device_address", "keep", "held address field instead of the property (equal under NORMAL)")
v("C11,C06", J22, "            if buf['deadline'] > now:\n                if next_wakeup > buf['deadline']:\n                    next_wakeup = buf['deadline']\n            else:\n                # deadline reached\n                frame_format, session_num",
  "            if buf['deadline'] > now:\n                next_wakeup = buf['deadline']\n            else:\n                # deadline reached\n                frame_format, session_num", "break", "running minimum lost in the multi-PG scan (seeded C11B)")
v("C11,C06", J22, "            if buf['deadline'] > now:\n                if next_wakeup > buf['deadline']:\n                    next_wakeup = buf['deadline']\n            else:\n                # deadline reached\n                frame_format, session_num",
  "            if buf['deadline'] > now:\n                next_wakeup = min(next_wakeup, buf['deadline'])\n            else:\n                # deadline reached\n                frame_format, session_num", "keep", "min() instead of the conditional store")
v("C13", CA, "                    self._device_address_state = ControllerApplication.State.WAIT_VETO\n                    self._send_address_claimed(self._device_address_announced)", "                    self._send_address_claimed(self._device_address_announced)\n                    self._device_address_state = ControllerApplication.State.WAIT_VETO", "break", "state leaves NORMAL only after the re-claim is sent (original defect D18)")
v("C13", CA, "                    self._device_address_state = ControllerApplication.State.CANNOT_CLAIM\n                    self._device_address = None\n                    self._send_address_claimed(j1939.ParameterGroupNumber.Address.NULL) # send CANNOT CLAIM",
  "                    self._send_address_claimed(j1939.ParameterGroupNumber.Address.NULL) # send CANNOT CLAIM\n                    self._device_address_state = ControllerApplication.State.CANNOT_CLAIM\n                    self._device_address = None", "break", "cannot-claim sent before the state changes (seeded C13A)")
v("C04,C15", "name.py", "self.manufacturer_code = (value >> 21) & ((2 ** 11) - 1)", "self.manufacturer_code = (value >> 21) & ((2 ** 10) - 1)", "break", "manufacturer code bit 10 dropped from received NAMEs (seeded C04B)")
v("C05,C11,C15", "parameter_group_number.py", "self.pdu_format>=0 and self.pdu_format<=239", "self.pdu_format>=0 and self.pdu_format<239", "break", "PF 239 neither PDU1 nor PDU2 (seeded C05B/C15B)")
v("C05,C15", "parameter_group_number.py", "self.pdu_format>=0 and self.pdu_format<=239", "self.pdu_format < 240", "keep", "respelled")
v("C16", DM, "        if dtc != None:\n            self._dtc = dtc", "        if dtc:\n            self._dtc = dtc", "break", "code 0 takes the encode branch (seeded C16A)")
v("C16", DM, "        if dtc != None:\n            self._dtc = dtc", "        if dtc is not None:\n            self._dtc = dtc", "keep", "is not None")
v("C16", DM, "        self._data = DtcLamp().get_data(self._lamp_status)", "        self._data[:] = DtcLamp().get_data(self._lamp_status)", "break", "payload rebuilt in place (seeded C16B)")
v("C18", M, "                            if self.server.verify_key(\n                                self.server.seed, self.server.key\n                            ):", "                            if self.server.verify_key(\n                                self.server.key, self.server.seed\n                            ):", "break", "seed and key swapped in the verification (seeded C18A)")
v("C17,C18,C19", S, "        self._busy = False\n        self.address = None\n        self.length = 8", "        self._busy = False\n        self.length = 8", "break", "reset_query keeps the pointer (seeded C18B)")
v("C19", S, "            (self.sa is not None and sa != self.sa)\n            or (", "            (self.sa and sa != self.sa)\n            or (", "break", "requester 0x00 is 'no requester' (seeded C19A)")
v("C19", M, "                case DMState.REQUEST_STARTED:", "                case DMState.REQUEST_STARTED | DMState.WAIT_RESPONSE:", "break", "facade handles DM14 again while waiting for respond() (seeded C19B)")
v("C08,C07", J22, "            buf = self._rcv_buffer.get(bufid)\n            if buf is None:\n                # removed by the receive path since the snapshot was taken\n                continue", "            if bufid not in self._rcv_buffer:\n                continue\n            buf = self._rcv_buffer[bufid]", "break", "check-then-act (seeded C08A)")
v("C08", J22, "                            # state is ready for the reply - now send\n                            self.__send_tp_dt(buf['src_address'], buf['dest_address'], buf['session'], package+1, buf['data'][package])\n",
  "                            # state is ready for the reply - now send\n                            self.__send_tp_dt(buf['src_address'], buf['dest_address'], buf['session'], package+1, buf['data'][package])\n                            buf['deadline'] = buf['deadline']\n", "break", "FD session written after the DT send (original defect D17)")
v("C03,C11", J22, "        for _ in range(4):  self._LUT_FD_DLC.append(24)\n        for _ in range(8):  self._LUT_FD_DLC.append(32)", "        for _ in range(8):  self._LUT_FD_DLC.append(24)\n        for _ in range(4):  self._LUT_FD_DLC.append(32)", "break", "LUT rows swapped: lengths 25..28 map to 24 (seeded C03B)")
v("C11", J22, "        MULTI_PG = 60", "        MULTI_PG = 64", "keep", "unused constant changed alone")

# ---------------------------------------------------------------- added after the third seeded round
REQ21 = "            for ca in self._cas:\n                if ca.message_acceptable(dest_address):\n                    ca._process_request(mid, dest_address, data, timestamp)\n        elif pgn_value == ParameterGroupNumber.PGN.TP_CM:"
v("C05,C14", J21, REQ21, REQ21.replace("timestamp)\n", "timestamp)\n                    break\n"), "break", "request dispatch stops at the first accepting CA (seeded C05C)")
v("C05,C14", J21, REQ21, REQ21.replace("            for ca in self._cas:\n                if ca.message_acceptable(dest_address):\n                    ca._process_request",
                                          "            for ca in list(self._cas):\n                if not ca.message_acceptable(dest_address):\n                    continue\n                else:\n                    ca._process_request"), "keep", "guard inverted with continue, list copy")
FIL = "                for ca in self._cas:\n                    if ca.message_acceptable(dest_address):\n                        reject = False\n                        break\n                if reject == True:"
v("C05,C14", J21, FIL, FIL.replace("                        break\n", "                    break\n"), "break", "filter loop consults only the first CA (seeded C14C)")
v("C05,C11", J22, FIL, FIL.replace("                        break\n", "                    break\n"), "break", "FD filter loop consults only the first CA (seeded C11D)")
v("C05,C14", J21, FIL, FIL.replace("                        break\n", ""), "keep", "filter loop without the early exit")
v("C04", J21, "            for ca in self._cas:\n                ca._process_addressclaim(mid, data, timestamp)", "            for ca in self._cas:\n                ca._process_addressclaim(mid, data, timestamp)\n                break", "break", "only the first CA sees address claims")
v("C03,C06,C09", J21, "                        # recalc next wakeup\n                        if next_wakeup > buf['deadline']:\n                            next_wakeup = buf['deadline']\n\n                    elif buf['state'] == self.SendBufferState.SENDING_BM:",
  "                    elif buf['state'] == self.SendBufferState.SENDING_BM:", "break", "J1939-21 burst loop: new deadline never folded into the wake-up")
v("C03,C09", J22, "                        # recalc next wakeup\n                        if next_wakeup > buf['deadline']:\n                            next_wakeup = buf['deadline']\n\n                    elif buf['state'] == self.SendBufferState.WAITING_EOM_ACK:",
  "                        # recalc next wakeup\n                        next_wakeup = min(next_wakeup, buf['deadline'])\n\n                    elif buf['state'] == self.SendBufferState.WAITING_EOM_ACK:", "keep", "min() after the FD burst loop")
v("C01,C03", J21, "                pgn.pdu_specific = 0  # this is 0 for peer-to-peer transfer", "                pgn = ParameterGroupNumber(0, pdu_format, 0)", "break", "data page lost on the RTS/CTS path (seeded C01D)")
v("C01,C03", J21, "                pgn.pdu_specific = 0  # this is 0 for peer-to-peer transfer", "                pgn = ParameterGroupNumber(data_page, pdu_format, 0)", "keep", "new PGN object with PS 0")
v("C01,C03", J21, "                pgn.pdu_specific = 0  # this is 0 for peer-to-peer transfer", "                pass", "break", "destination address left in the announced PGN of a PDU1 group")
GUARD255 = "        if src_address == ParameterGroupNumber.Address.GLOBAL:\n            # 255 is not a valid source address"
v("C07,C10", J22, GUARD255, GUARD255.replace("Address.GLOBAL", "Address.NULL"), "break", "FD: TP.CM from 255 reaches the own BAM session again (original defect D19)")
v("C07,C10", J21, GUARD255, GUARD255.replace("src_address == ParameterGroupNumber.Address.GLOBAL", "False"), "break", "J1939-21: guard disabled (original defect D19)")
v("C07,C10", J21, GUARD255, GUARD255.replace("src_address == ParameterGroupNumber.Address.GLOBAL", "src_address >= 255"), "keep", "guard respelled")
v("C07", J22, "            # trim data\n            data = data[(4+payload_length):]", "            # trim data\n            data = data[4:]", "keep", "different (wrong for other properties, but progressing) trim")
v("C07", J22, "            # trim data\n            data = data[(4+payload_length):]", "            # trim data\n            rest = data[(4+payload_length):]", "break", "multi-PG parser never advances")
v("C08,C10", J22, "                        del self._snd_buffer[bufid]\n                        self.__put_bam_session(buf['session'])", "                        self.__put_bam_session(buf['session'])\n                        del self._snd_buffer[bufid]", "break", "BAM number released before the session is deleted")
v("C10,C06", J21, "                            # after the last packet: wait for the next CTS / EndOfMsgACK\n                            buf['state'] = self.SendBufferState.WAITING_CTS\n", "                            # after the last packet: wait for the next CTS / EndOfMsgACK\n", "break", "empty burst only re-arms (seeded C10D)")
v("C12", ECU, "        self._timer_events.append( d )\n        self._job_thread_wakeup()", "        self._job_thread_wakeup()\n        self._timer_events.append( d )", "break", "wake before publish (seeded C12C)")
v("C16", DM, "            self._msg_subscriber_added = True", "            Dm1._msg_subscriber_added = True", "break", "per-object flag stored on the class (seeded C16D)")
v("C16", DM, "            self._msg_subscriber_added = True", "            self._msg_subscriber_added = not False", "keep", "respelled constant")
v("C17", S, "        if byte_count > 7:\n            self._ca.subscribe(self._parse_dm16)", "        if self.object_count > 7:\n            self._ca.subscribe(self._parse_dm16)", "break", "EOM hook keyed on the object count (seeded C17C)")
v("C17", S, "        if byte_count > 7:\n            self._ca.subscribe(self._parse_dm16)", "        if not byte_count <= 7:\n            self._ca.subscribe(self._parse_dm16)", "keep", "threshold respelled")
v("C17,C06", J21, "            self._snd_buffer[buffer_hash]['state'] = self.SendBufferState.TRANSMISSION_FINISHED\n            self._snd_buffer[buffer_hash]['deadline'] = time.time()\n            self.__job_thread_wakeup()\n        elif control_byte == self.ConnectionMode.BAM:",
  "            self._snd_buffer[buffer_hash]['state'] = self.SendBufferState.TRANSMISSION_FINISHED\n            self._snd_buffer[buffer_hash]['deadline'] = time.time() + self.Timeout.Tr\n            self.__job_thread_wakeup()\n        elif control_byte == self.ConnectionMode.BAM:", "break", "finished session lingers (seeded C17D)")
v("C18", Q, "            if seed == 0xFFFF and length == self.object_count:", "            if seed == 0xFFFF and self.state is QueryState.WAIT_FOR_SEED:", "break", "seed 0xFFFF taken for proceed (seeded C18C)")
v("C18", Q, "            if seed == 0xFFFF and length == self.object_count:", "            if length == self.object_count and 0xFFFF == seed:", "keep", "conjuncts swapped")
v("C19", M, "                    if self.server.state.value == DMState.IDLE.value:\n                        self.state = DMState.REQUEST_STARTED", "                    self.state = DMState.REQUEST_STARTED\n                    if self.server.state.value == DMState.IDLE.value:", "break", "facade leaves IDLE although the server is busy (seeded C19D)")
v("C04", CA, "                # the state is set before the claim goes out: a contender's answer may be\n                # processed before the sending call has returned\n                self._send_address_claimed(self._device_address_announced)",
  "", "break", "first claim never sent")
v("C04,C15", CA, "            if self._name.value > contenders_name.value:", "            if self._name.bytes > contenders_name.bytes:", "break", "little-endian list order (seeded C04C)")
v("C02,C03", J22, "            num_segments = int(message_size / self.DataLength.TP ) + ((message_size % self.DataLength.TP ) != 0)", "            num_segments = -(-message_size // self.DataLength.TP)", "keep", "ceil via negated floor division")
v("C06,C02", J22, "                logger.info('bam receive buffer already in use 0x%x', buffer_hash )\n                del self._rcv_buffer[buffer_hash]\n                return", "                logger.info('bam receive buffer already in use 0x%x', buffer_hash )\n                return", "break", "old BAM session survives a new announcement (seeded C06D)")
v("C04", CA, "                self._device_address_announced = self._device_address_preferred\n                if self._device_address_announced > 127",
  "                self._device_address_announced = self._device_address_preferred\n                self._send_address_claimed(self._device_address_announced)\n                if self._device_address_announced > 127", "break", "first claim sent while still in NONE (original defect D20)")
v("C18", M, "                            self.state = DMState.WAIT_RESPONSE\n                            if self._proceed_function is not None:",
  "                            self.state = DMState.WAIT_RESPONSE\n                            self._ca.unsubscribe(self._listen_for_dm14)\n                            if self._proceed_function is not None:", "break", "facade deaf after a refusal at the proceed callback (original defect D21)")

# ---------------------------------------------------------------- added after the fourth seeded round
v("C15,C05", "parameter_group_number.py", "self.pdu_format>=240 and self.pdu_format<=255", "self.value>=0xF000", "break", "PDU2 test on the whole value: wrong on data page 1 (seeded C15E)")
v("C15", "parameter_group_number.py", "self.pdu_format>=240 and self.pdu_format<=255", "self.pdu_format > 239", "keep", "respelled")
v("C15,C04", "name.py", "self.ecu_instance = (value >> 32) & ((2 ** 3) - 1)", "self.ecu_instance = int(value / (2 ** 32)) & ((2 ** 3) - 1)", "break", "float division on a 64-bit value (seeded C15F)")
v("C15", "name.py", "self.ecu_instance = (value >> 32) & ((2 ** 3) - 1)", "self.ecu_instance = (value // (2 ** 32)) & 7", "keep", "floor division is exact")
v("C13,C14", CA, "            self._device_address = self._device_address_announced\n            self._device_address_state = ControllerApplication.State.NORMAL\n        elif self._device_address_state == ControllerApplication.State.NORMAL:",
  "            self._device_address_state = ControllerApplication.State.NORMAL\n            self._device_address = self._device_address_announced\n        elif self._device_address_state == ControllerApplication.State.NORMAL:", "break", "NORMAL before the held address (seeded C14F)")
v("C09", ECU, "max_cmdt_packets, minimum_tp_rts_cts_dt_interval, minimum_tp_bam_dt_interval, self._is_message_acceptable)\n        elif", "max_cmdt_packets, minimum_tp_bam_dt_interval, minimum_tp_rts_cts_dt_interval, self._is_message_acceptable)\n        elif", "break", "pacing intervals swapped in the J1939-21 constructor call (seeded C09F)")
v("C11,C13", CA, "self._device_address, data, time_limit, frame_format)", "self._device_address, data, time_limit)", "break", "frame format accepted but not forwarded (seeded C11F)")
v("C11,C13", CA, "self._device_address, data, time_limit, frame_format)", "self._device_address, data, frame_format=frame_format, time_limit=time_limit)", "keep", "forwarded by keyword")
v("C05,C12", ECU, "            if dic['cb'] == callback:\n                self._subscribers.remove(dic)", "            if dic['cb'] == callback:\n                self._subscribers.remove(dic)\n                break", "break", "unsubscribe stops after the first binding (seeded C05F)")
v("C12", ECU, "        for event in list(self._timer_events):\n            if event['callback'] == callback:\n                self._timer_events.remove( event )", "        self._timer_events = [event for event in list(self._timer_events) if event['callback'] != callback]", "break", "registry rebuilt from a snapshot (seeded C12F)")
v("C01,C07,C12", ECU, "self._job_thread_wakeup_queue = queue.Queue()", "self._job_thread_wakeup_queue = queue.Queue(maxsize=64)", "break", "bounded wake-up queue with a blocking put (seeded C01F/C07F)")
v("C01,C07,C12", ECU, "self._job_thread_wakeup_queue = queue.Queue()", "self._job_thread_wakeup_queue = queue.Queue(maxsize=0)", "keep", "maxsize 0 is unbounded")
v("C01,C07", ECU, "self._job_thread_wakeup_queue = queue.Queue()", "self._job_thread_wakeup_queue = queue.SimpleQueue()", "keep", "SimpleQueue is unbounded")
v("C01", J21, "            if buffer_hash in self._rcv_buffer:\n                # according SAE J1939-21 we have to send an ABORT if an active", "            if (buffer_hash in self._rcv_buffer) or (self._buffer_hash(dest_address, src_address) in self._snd_buffer):\n                # according SAE J1939-21 we have to send an ABORT if an active", "break", "RTS refused while an own send session to the peer exists (seeded C01E)")
v("C08,C07", J21, "        for bufid in list(self._rcv_buffer):", "        supervised = [bufid for bufid, buf in self._rcv_buffer.items() if buf['deadline'] != 0]\n        for bufid in supervised:", "break", "snapshot built step by step over a live view (seeded C08F)")
v("C08", J21, "        for bufid in list(self._rcv_buffer):", "        for bufid in list(self._rcv_buffer.keys()):", "keep", "list() of a view is atomic")
v("C17", Q, "            bytes.extend(val.to_bytes(self.object_byte_size, byteorder=\"little\"))", "            bytes.extend(val.to_bytes(self.object_byte_size, byteorder=\"little\", signed=self.signed))", "break", "converter reads a field only reads set (seeded C17E)")
v("C19", S, "            case ResponseState.SEND_ERROR:\n", "            case ResponseState.SEND_ERROR:\n                self._ca.unsubscribe(self.parse_dm14)\n", "break", "busy answer removes the running transaction's handler (seeded C19F)")
v("C04", CA, "            or (self._device_address_state == ControllerApplication.State.NORMAL and src_address == self._device_address)", "            or (src_address == self._device_address)", "break", "state guard of the NORMAL arm dropped (seeded C04E)")

# ---------------------------------------------------------------- added after the fifth seeded round
v("C01", J21, "            max_num_packages = data[4] # Maximum number of segments that can be sent in response to one CTS.\n            buffer_hash = self._buffer_hash(src_address, dest_address)",
  "            max_num_packages = data[4] # Maximum number of segments that can be sent in response to one CTS.\n            if (message_size < 9) or (num_packages < 2) or (num_packages >= 0xFF):\n                return\n            buffer_hash = self._buffer_hash(src_address, dest_address)", "break", "legal 255-packet RTS dropped silently (seeded C01H)")
v("C01", J21, "            max_num_packages = data[4] # Maximum number of segments that can be sent in response to one CTS.\n            buffer_hash = self._buffer_hash(src_address, dest_address)",
  "            max_num_packages = data[4] # Maximum number of segments that can be sent in response to one CTS.\n            if (message_size < 9) or (num_packages < 2) or (message_size > 1785):\n                return\n            buffer_hash = self._buffer_hash(src_address, dest_address)", "keep", "only illegal announcements dropped")
v("C14", CA, "        src_address = mid.source_address\n\n        if (self.state != ControllerApplication.State.NORMAL) or", "        src_address = mid.source_address\n        if src_address >= j1939.ParameterGroupNumber.Address.NULL:\n            return\n\n        if (self.state != ControllerApplication.State.NORMAL) or", "break", "requests from the null address ignored (seeded C14H)")
v("C14", CA, "        src_address = mid.source_address\n\n        if (self.state != ControllerApplication.State.NORMAL) or", "        src_address = mid.source_address\n        if src_address == j1939.ParameterGroupNumber.Address.GLOBAL:\n            return\n\n        if (self.state != ControllerApplication.State.NORMAL) or", "keep", "255 is not a requester")
v("C04", CA, "                    self._device_address_announced += 1\n                    logger.info(\"Try the next address '%d'\", self._device_address_announced)", "                    nxt = self._device_address_announced + 1\n                    self._device_address_announced = nxt\n                    logger.info(\"Try the next address '%d'\", nxt)", "keep", "next address through a local, stored before the send")
v("C12", ECU, "                    if next_wakeup > event['deadline']:\n                        next_wakeup = event['deadline']\n                else:", "                    if next_wakeup > event['deadline']:\n                        next_wakeup = event['deadline']\n                    break\n                else:", "break", "scan left at the first timer that is not due, list unordered")
v("C10", J22, "        self.__bam_session_list = [True] * 4", "        self.__bam_session_list = [True for _ in range(4)]", "keep", "pool still created per object")
v("C08", J22, "        data = [0] * 12\n        data[0]  = ( (TpControlType & 0xF)", "        data = list(bytes(12))\n        data[0]  = ( (TpControlType & 0xF)", "keep", "frame list still created per call")
v("C08,C12", ECU, "            now = time.time()\n\n            next_wakeup = self.j1939_dll.async_job_thread(now)", "            while not self._job_thread_wakeup_queue.empty():\n                self._job_thread_wakeup_queue.get_nowait()\n            now = time.time()\n\n            next_wakeup = self.j1939_dll.async_job_thread(now)", "keep", "tokens dropped BEFORE the pass starts are served by the pass")
v("C08,C12", ECU, "            next_wakeup = self.j1939_dll.async_job_thread(now)\n", "            next_wakeup = self.j1939_dll.async_job_thread(now)\n            while not self._job_thread_wakeup_queue.empty():\n                self._job_thread_wakeup_queue.get_nowait()\n", "break", "wake-up tokens dropped after the session pass (seeded C08G)")
v("C12", ECU, "            for event in list(self._timer_events):\n                if event not in self._timer_events:", "            for event in list(self._timer_events):\n                if self._job_thread_end.is_set():\n                    break\n                if event not in self._timer_events:", "keep", "scan left only on shutdown")
v("C17", "Dm14Query.py", "            self.state = QueryState.WAIT_FOR_OPER_COMPLETE\n            self._send_dm16()", "            self._send_dm16()\n            self.state = QueryState.WAIT_FOR_OPER_COMPLETE", "break", "client state stored after the DM16 (part of original defect D23)")
v("C17", "Dm14Server.py", "            self.data_queue.put(data[1 : length + 1])\n        self._ca.unsubscribe(self._parse_dm16)", "            self.data_queue.put(data[1 : length + 1])\n        elif (data[1] | (data[2] << 8)) != len(self.data) + 1:\n            return\n        self._ca.unsubscribe(self._parse_dm16)", "keep", "two-byte size check never drops a legal acknowledge")
v("C17", "Dm14Server.py", "            self.data_queue.put(data[1 : length + 1])\n        self._ca.unsubscribe(self._parse_dm16)", "            self.data_queue.put(data[1 : length + 1])\n        elif data[1] != len(self.data) + 1:\n            return\n        self._ca.unsubscribe(self._parse_dm16)", "break", "one-byte size check drops the 255-byte read (seeded C17H)")
v("C02,C03", J22, "        if len(data) <= 4:\n            logger.info('tp-dt with incorrect dlc received, id', mid )", "        if len(data) < 5:\n            logger.info('tp-dt with incorrect dlc received, id', mid )", "keep", "same boundary")
v("C02,C03", J22, "        if len(data) <= 4:\n            logger.info('tp-dt with incorrect dlc received, id', mid )", "        if len(data) <= 8:\n            logger.info('tp-dt with incorrect dlc received, id', mid )", "break", "short last segments dropped (seeded C03H)")
v("C18", "Dm14Server.py", "                0x7,\n", "                self.edcp,\n", "break", "refusal carries the last respond()'s EDCP extension (seeded C18G)")
v("C18", "Dm14Server.py", "                0x7,\n", "                0x06,\n", "keep", "the client also raises for 6")
v("C17", "Dm14Query.py", "        values = []\n        for i in range(len(raw_bytes) // self.object_byte_size):", "        if self.object_byte_size == 1 and not self.signed:\n            return list(raw_bytes)\n        values = []\n        for i in range(len(raw_bytes) // self.object_byte_size):", "keep", "shortcut for unsigned bytes only")
v("C17", "Dm14Query.py", "        values = []\n        for i in range(len(raw_bytes) // self.object_byte_size):", "        if self.object_byte_size == 1:\n            return list(raw_bytes)\n        values = []\n        for i in range(len(raw_bytes) // self.object_byte_size):", "break", "shortcut ignores signedness (seeded C17G)")
v("C19,C18", "Dm14Server.py", "                self.pgn = pgn\n                self.sa = sa\n                self.status", "                self.pgn = pgn\n                self.status", "break", "requester address never stored in the IDLE arm")
v("C04", CA, "        time_to_sleep = 0.500\n", "        pass\n", "break", "claim timer callback reads an unassigned local once the claim is done (deletion sweep)")
v("C16", DM, "            priority = 7\n", "            pass\n", "break", "DM1 sender reads an unassigned local for messages longer than 8 bytes (deletion sweep)")

# ---------------------------------------------------------------- from the statement-deletion sweep (tools/del_sweep.py): steps left out
v("C01,C10", J21, "            self._snd_buffer[buffer_hash]['state'] = self.SendBufferState.SENDING_IN_CTS\n            self._snd_buffer[buffer_hash]['deadline'] = time.time()\n", "            self._snd_buffer[buffer_hash]['state'] = self.SendBufferState.SENDING_IN_CTS\n", "break", "CTS arm leaves the T3 deadline in place: the granted packets are sent 1.25 s late")
v("C01,C17", J21, "            self.__notify_subscribers(mid.priority,pgn,mid.source_address,dest_address,timestamp,data)\n\n            self._snd_buffer[buffer_hash]['state'] = self.SendBufferState.TRANSMISSION_FINISHED", "            self._snd_buffer[buffer_hash]['state'] = self.SendBufferState.TRANSMISSION_FINISHED", "break", "end-of-message acknowledge not reported to the originator's listeners")
v("C02", J22, "                            buf['next_packet_to_send'] += 1\n\n                            should_break = False", "                            should_break = False", "break", "FD burst loop does not advance the segment index")
v("C02", J22, "                            if last_segment:\n                                self.__send_tp_eom_status(buf['src_address'], buf['dest_address'], buf['session'], buf['message_size'], buf['num_segments'], buf['pgn'])\n", "", "break", "no end-of-message status after the last FD segment")
v("C02,C06", J22, "            self._rcv_buffer[buffer_hash]['data'] = self._rcv_buffer[buffer_hash]['data'][:self._rcv_buffer[buffer_hash]['message_size']]\n            # finished reassembly\n            if dest_address != ParameterGroupNumber.Address.GLOBAL:\n                # set deadlin", "            # finished reassembly\n            if dest_address != ParameterGroupNumber.Address.GLOBAL:\n                # set deadlin", "break", "FD reassembly delivered with the padding of the last segment")
v("C06", J21, "                    if next_wakeup > buf['deadline']:\n                        next_wakeup = buf['deadline']\n                else:\n                    # deadline reached\n                    logger.info(\"Deadline reached for rcv_buffer", "                    if next_wakeup > buf['deadline']:\n                        pass\n                else:\n                    # deadline reached\n                    logger.info(\"Deadline reached for rcv_buffer", "break", "pending receive deadline not taken over as next wake-up")
v("C11", J22, "        if frame_format == FrameFormat.FBFF:\n            self.__send_message(src_address, False, data, fd_format=True)\n        else:", "        if frame_format == FrameFormat.FBFF:\n            pass\n        else:", "break", "11-bit multi-PG frame assembled but not sent")
v("C11", J22, "            self._process_multi_pg(mid, dest_address, data, timestamp)\n", "            pass\n", "break", "received multi-PG frames not decoded")
v("C16", DM, "            self._parse_dm1_receive_data()\n", "", "break", "received DM1 not parsed")
v("C16", DM, "        self._dtc_dic_list = []\n        for i in range(number_dtc):", "        for i in range(number_dtc):", "break", "codes of all received DM1 pile up")
v("C16", DM, "        self._ca.remove_timer(self._send)\n", "        pass\n", "break", "stop_send removes nothing")
v("C17", S, "                self.state = ResponseState.WAIT_OPERATION_COMPLETE\n", "", "break", "operation-complete DM15 sent from the wrong state")
v("C17", S, "                self.proceed = True\n                self.state = ResponseState.SEND_OPERATION_COMPLETE\n                self._ca.subscribe(self.parse_dm14)\n", "                self.proceed = True\n                self.state = ResponseState.SEND_OPERATION_COMPLETE\n", "break", "closing-DM14 handler not registered after a short read")
v("C17", Q, "                    self.state = QueryState.IDLE\n                    self.data_queue.put(self.mem_data)\n", "                    self.state = QueryState.IDLE\n", "break", "result never handed to the waiting caller")
v("C18", S, "            self.state = ResponseState.SEND_ERROR\n        mem_data = None", "            pass\n        mem_data = None", "break", "a refusal is answered from the proceed state")
v("C18", S, "        self.state = ResponseState.IDLE\n        self.sa = None\n        self.seed = None", "        self.sa = None\n        self.seed = None", "break", "reset_query does not return to IDLE")
v("C18", M, "                            else:\n                                self.server.error = 0x1003\n                                self.server.set_busy(True)\n                                self.server.parse_dm14(\n                                    priority, pgn, sa, timestamp, data\n                                )\n", "                            else:\n                                self.server.error = 0x1003\n                                self.server.set_busy(True)\n", "break", "wrong key is not answered with an error DM15")
v("C14", CA, "        self._subscribers_request.append(callback)\n", "        pass\n", "break", "subscribe_request records nothing")
v("C05,C14", J21, "        self._cas.append(ca)\n", "        pass\n", "break", "add_ca does not register the CA")
v("C07", J22, "                            last_segment = (package+1) == buf['num_segments']\n", "", "break", "name read but never bound (NameError in the job thread)")
v("C17,C18", M, "                        self.state = DMState.REQUEST_STARTED\n                        self.server.parse_dm14(priority, pgn, sa, timestamp, data)\n", "                        self.server.parse_dm14(priority, pgn, sa, timestamp, data)\n                        self.state = DMState.REQUEST_STARTED\n", "break", "facade marks the request as started after the server has sent the seed (ordering sweep)")
v("C17", S, "        self.state = ResponseState.SEND_OPERATION_COMPLETE\n        self._send_dm15(\n            self.length,\n            self.direct,\n            self.status,\n            self.state,\n            self.object_count,\n            self.sa,\n        )\n", "        self._send_dm15(\n            self.length,\n            self.direct,\n            self.status,\n            self.state,\n            self.object_count,\n            self.sa,\n        )\n        self.state = ResponseState.SEND_OPERATION_COMPLETE\n", "break", "operation-complete DM15 built before the state says so (ordering sweep)")

# ---------------------------------------------------------------- from the boundary sweep (tools/bound_sweep.py)
v("C02,C03", J22, "        if len(data) < 12:", "        if len(data) <= 12:", "break", "every 12-byte FD.TP.CM dropped as too short")
v("C02", J22, "                    and (len(self._rcv_buffer[buffer_hash]['data']) >= self._rcv_buffer[buffer_hash]['message_size']):", "                    and (len(self._rcv_buffer[buffer_hash]['data']) > self._rcv_buffer[buffer_hash]['message_size']):", "break", "delivery demands more bytes than announced")
v("C02", J22, "                        while buf['next_packet_to_send'] < buf['num_segments']:", "                        while buf['next_packet_to_send'] <= buf['num_segments']:", "break", "FD burst loop admits index == count")
v("C01", J21, "                        while buf['next_packet_to_send'] < buf['num_packages']:", "                        while buf['next_packet_to_send'] <= buf['num_packages']:", "break", "burst loop admits index == count")
v("C16", DM, "        if length < 6:", "        if length <= 6:", "break", "DM1 with one code rejected")
v("C16", DM, "        if length < 6:", "        if length <= 5:", "keep", "same boundary")
v("C06,C12", ECU, "                    if next_wakeup > event['deadline']:\n                        next_wakeup = event['deadline']\n                else:", "                    if next_wakeup >= event['deadline']:\n                        next_wakeup = event['deadline']\n                else:", "keep", "minimum with equality")
v("C09", ECU, "        if max_cmdt_packets > 0xFF:", "        if max_cmdt_packets >= 0xFF:", "break", "constructor rejects the legal setting 255 (boundary sweep)")
v("C09", ECU, "        if max_cmdt_packets > 0xFF:", "        if not max_cmdt_packets <= 255:", "keep", "respelled")
