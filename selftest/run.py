#!/usr/bin/env python3
"""Runs the calibration corpus (selftest/corpus.py) against the checks.

  run.py [Cxx ...]        all variants of the given properties (default: all), 16 workers
Each variant is applied to a scratch copy of <root>/j1939 in a fresh temp dir (outside /repo and /verif), the check is
run on it with --root, and the copy is removed.  Exit 1 if any variant behaves other than expected."""
import concurrent.futures as cf
import os
import shutil
import subprocess
import sys
import tempfile

HERE = os.path.dirname(os.path.abspath(__file__))
VERIF = os.path.dirname(HERE)
sys.path.insert(0, VERIF)
from selftest.corpus import V  # noqa: E402


def run_variant(args):
    var, prop, root = args
    src = os.path.join(root, "j1939", var["file"])
    try:
        text = open(src, encoding="utf-8").read()
    except OSError:
        return (var["id"], prop, "skipped", "file missing")
    if text.count(var["old"]) != 1:
        return (var["id"], prop, "skipped", "anchor occurs %d times" % text.count(var["old"]))
    d = tempfile.mkdtemp(prefix="j1939sa_")
    try:
        shutil.copytree(os.path.join(root, "j1939"), os.path.join(d, "j1939"))
        with open(os.path.join(d, "j1939", var["file"]), "w", encoding="utf-8") as fh:
            fh.write(text.replace(var["old"], var["new"]))
        try:
            compile(text.replace(var["old"], var["new"]), var["file"], "exec")
        except SyntaxError as e:
            return (var["id"], prop, "broken-variant", "does not compile: %s" % e)
        r = subprocess.run([sys.executable, os.path.join(VERIF, "check.py"), prop, "--root", d, "--tier", "quick"],
                           capture_output=True, text=True, timeout=300)
        want = 1 if var["kind"] == "break" else 0
        if r.returncode == want:
            return (var["id"], prop, "ok", "")
        tail = [l for l in r.stdout.splitlines() if not l.startswith("  R-") and not l.startswith("  O-")][-3:]
        return (var["id"], prop, "MISMATCH", "kind=%s exit=%d: %s" % (var["kind"], r.returncode, " | ".join(tail)[:400]))
    finally:
        shutil.rmtree(d, ignore_errors=True)


def run_patch(args):
    """a stored patch (seeded breaking change / behaviour-preserving refactoring) on a scratch copy of <root>/j1939"""
    kind, pid_dir, prop, root = args
    name = os.path.basename(pid_dir)
    d = tempfile.mkdtemp(prefix="j1939sa_")
    try:
        shutil.copytree(os.path.join(root, "j1939"), os.path.join(d, "j1939"))
        r = subprocess.run(["git", "apply", os.path.join(pid_dir, "patch.diff")], cwd=d, capture_output=True, text=True)
        if r.returncode:
            return (kind + ":" + name, prop, "skipped", "patch does not apply to this tree")
        r = subprocess.run([sys.executable, os.path.join(VERIF, "check.py"), prop, "--root", d, "--tier", "quick"],
                           capture_output=True, text=True, timeout=300)
        if kind == "seeded":
            ok = r.returncode == 1
        else:
            ok = r.returncode != 1        # a refactoring must never be reported; undecided (2) is tolerated
        if ok:
            return (kind + ":" + name, prop, "ok", "undecided" if r.returncode == 2 else "")
        tail = [l for l in r.stdout.splitlines() if not l.startswith("  R-") and not l.startswith("  O-")][-2:]
        return (kind + ":" + name, prop, "MISMATCH", "exit=%d: %s" % (r.returncode, " | ".join(tail)[:300]))
    finally:
        shutil.rmtree(d, ignore_errors=True)


def run_patches(props=None, root="/repo", workers=16):
    """seeded changes: own property must report; refactorings: no property may report"""
    import glob
    import json
    jobs = []
    for f in sorted(glob.glob(os.path.join(VERIF, "seeded", "*", "meta.json"))):
        m = json.load(open(f))
        if props is None or m["property"] in props:
            jobs.append(("seeded", os.path.dirname(f), m["property"], root))
    for f in sorted(glob.glob(os.path.join(VERIF, "refactors", "*", "result.json"))):
        for p in (props if props is not None else ["C%02d" % i for i in range(1, 20)]):
            jobs.append(("refactor", os.path.dirname(f), p, root))
    with cf.ThreadPoolExecutor(max_workers=workers) as ex:
        return list(ex.map(run_patch, jobs))


def run(props=None, root="/repo", workers=16):
    jobs = [(v, p, root) for v in V for p in v["props"] if props is None or p in props]
    with cf.ThreadPoolExecutor(max_workers=workers) as ex:
        return list(ex.map(run_variant, jobs))


def main():
    props = set(a for a in sys.argv[1:] if not a.startswith("-")) or None
    res = run(props)
    if "--patches" in sys.argv:
        res += run_patches(props)
    bad = [r for r in res if r[2] in ("MISMATCH", "broken-variant")]
    for r in res:
        if r[2] != "ok":
            print("%-7s %-4s %-14s %s" % r)
    nb = sum(1 for v in V if v["kind"] == "break")
    print("corpus: %d variants (%d breaking, %d preserving); %d runs: %d ok, %d skipped, %d mismatches" % (
        len(V), nb, len(V) - nb, len(res), sum(1 for r in res if r[2] == "ok"), sum(1 for r in res if r[2] == "skipped"), len(bad)))
    return 1 if bad else 0


if __name__ == "__main__":
    sys.exit(main())
