"""Independent oracle tables transcribed from SAE J1939-21 / -22 / -73 / -81 and ISO 11898-1.
Part of the trusted base.  Nothing here is derived from the repository."""

PGN = {
    "MULTI_PG": 0x2500, "FD_TP_CM": 0x4D00, "FD_TP_DT": 0x4E00,
    "ACK": 0xE800, "REQUEST": 0xEA00, "TP_DT": 0xEB00, "TP_CM": 0xEC00, "ADDRESSCLAIM": 0xEE00,
    "DM01": 0xFECA, "DM11": 0xFED3, "DM14": 0xD900, "DM15": 0xD800, "DM16": 0xD700, "DM22": 0xC300,
}
ADDR_NULL, ADDR_GLOBAL = 254, 255

# J1939-21 5.10.3 connection management control bytes
TP_CONTROL = {"RTS": 16, "CTS": 17, "EOM_ACK": 19, "BAM": 32, "ABORT": 255}
# J1939-22 FD.TP.CM control types (low nibble of byte 1; session number in the high nibble)
FD_TP_CONTROL = {"RTS": 0, "CTS": 1, "EOM_STATUS": 2, "EOM_ACK": 3, "BAM": 4, "ABORT": 15}
ABORT_REASON = {"BUSY": 1, "RESOURCES": 2, "TIMEOUT": 3}

# seconds
TIMEOUT_21 = {"Tr": 0.200, "Th": 0.500, "T1": 0.750, "T2": 1.250, "T3": 1.250, "T4": 1.050}
TIMEOUT_22 = dict(TIMEOUT_21, T5=3.000)
BAM_MIN_INTERVAL_21 = 0.050
BAM_MIN_INTERVAL_22 = 0.010
CLAIM_VETO = 0.250

TP_DATA_PER_PACKET = 7       # classic TP.DT: 1 sequence byte + 7 data bytes
FD_TP_DATA_PER_SEGMENT = 60  # FD.TP.DT: 4 header bytes + up to 60 data bytes
CAN_FD_LENGTHS = [0, 1, 2, 3, 4, 5, 6, 7, 8, 12, 16, 20, 24, 32, 48, 64]

# --- frame layouts: list per byte; each byte = list of (bit_lo, nbits, source, source_bit_lo) or ('const', v)
# sources are the builder's logical fields.
def _le(field, nbytes):
    return [[(0, 8, field, 8 * i)] for i in range(nbytes)]

FF = [("const", 0xFF)]

TP21 = {
    "RTS": [[("const", 16)]] + _le("size", 2) + [[(0, 8, "packets", 0)], [(0, 8, "window", 0)]] + _le("pgn", 3),
    "CTS": [[("const", 17)], [(0, 8, "grant", 0)], [(0, 8, "next", 0)], FF, FF] + _le("pgn", 3),
    "EOM_ACK": [[("const", 19)]] + _le("size", 2) + [[(0, 8, "packets", 0)], FF] + _le("pgn", 3),
    "BAM": [[("const", 32)]] + _le("size", 2) + [[(0, 8, "packets", 0)], FF] + _le("pgn", 3),
    "ABORT": [[("const", 255)], [(0, 8, "reason", 0)], FF, FF, FF] + _le("pgn", 3),
}
# identifier: (priority, PF, PS source, SA source)
TP21_ID = {
    "RTS": ("prio", 0xEC, "dest", "src"), "CTS": (7, 0xEC, "dest", "src"), "EOM_ACK": (7, 0xEC, "dest", "src"),
    "BAM": ("prio", 0xEC, 255, "src"), "ABORT": (7, 0xEC, "dest", "src"), "DT": (7, 0xEB, "dest", "src"),
}

def _fdcm(ctl, f1, f2, b7, b8):
    """byte0 = ctl | session<<4 ; bytes1-3 = f1 (24 bit LE) ; 4-6 = f2 ; 7 ; 8 ; 9-11 pgn"""
    def f24(x):
        if x is None:
            return [FF, FF, FF]
        return _le(x, 3)
    def b(x):
        if x is None:
            return FF
        if isinstance(x, int):
            return [("const", x)]
        return [(0, 8, x, 0)]
    return [[("constbits", 0, 4, ctl), (4, 4, "session", 0)]] + f24(f1) + f24(f2) + [b(b7), b(b8)] + _le("pgn", 3)

TP22 = {
    "RTS": _fdcm(0, "size", "segments", "window", 0),
    "CTS": _fdcm(1, None, "next", "grant", 0),
    "EOM_STATUS": _fdcm(2, "size", "segments", 0, 0),
    "EOM_ACK": _fdcm(3, "size", "segments", None, None),
    "BAM": _fdcm(4, "size", "segments", None, 0),
    "ABORT": _fdcm(15, None, None, None, "reason"),
}
TP22_ID = {k: (("prio" if k in ("RTS", "BAM") else 7), 0x4D, (255 if k == "BAM" else "dest"), "src") for k in TP22}
TP22_ID["DT"] = (7, 0x4E, "dest", "src")

# J1939-22 multi-PG C-PG header (4 bytes): TOS(3) TF(3) CPGN(18, big-endian across bytes 0..2) length(8)
MPG_HEADER = [
    [(5, 3, "tos", 0), (2, 3, "tf", 0), (0, 2, "cpgn", 16)],
    [(0, 8, "cpgn", 8)],
    [(0, 8, "cpgn", 0)],
    [(0, 8, "length", 0)],
]

# 29-bit identifier
CAN_ID = [(26, 3, "priority", 0), (8, 18, "pgn", 0), (0, 8, "sa", 0)]
PGN_VALUE = [(16, 1, "dp", 0), (8, 8, "pf", 0), (0, 8, "ps", 0)]

# J1939-81 NAME (bit_lo, nbits, field)
NAME = [
    (0, 21, "identity_number"), (21, 11, "manufacturer_code"), (32, 3, "ecu_instance"),
    (35, 5, "function_instance"), (40, 8, "function"), (48, 1, "reserved_bit"), (49, 7, "vehicle_system"),
    (56, 4, "vehicle_system_instance"), (60, 3, "industry_group"), (63, 1, "arbitrary_address_capable"),
]

# J1939-73 DTC (32 bit, little-endian on the wire): (bit_lo, nbits, field, field_bit_lo)
DTC = [(0, 16, "spn", 0), (16, 5, "fmi", 0), (21, 3, "spn", 16), (24, 7, "oc", 0), (31, 1, "cm", 0)]
# DM1 lamp byte: 2 bits each (bit_lo, key); byte 0 = status, byte 1 = flash
LAMPS = [(0, "pl"), (2, "awl"), (4, "rsl"), (6, "mil")]
# lamp status/flash encodings: name -> (status bits, flash bits)
LAMP_CODES = {"OFF": (0, 3), "ON": (1, 3), "ON_SLOW_FLASH": (1, 0), "ON_FAST_FLASH": (1, 1)}
# DM22: byte0 control, 1..4 0xFF, 5 = SPN 0..7, 6 = SPN 8..15, 7 = SPN 16..18 in bits 5..7 | FMI in bits 0..4
DM22 = [[(0, 8, "control", 0)], FF, FF, FF, FF, [(0, 8, "spn", 0)], [(0, 8, "spn", 8)],
        [(5, 3, "spn", 16), (0, 5, "fmi", 0)]]
DM22_CONTROL = {"PA_REQ": 1, "PA_ACK": 2, "PA_NACK": 3, "ACT_REQ": 17, "ACT_ACK": 18, "ACT_NACK": 19}

# J1939-73 DM14 / DM15 / DM16
DM14_COMMAND = {"ERASE": 0, "READ": 1, "WRITE": 2, "STATUS_REQUEST": 3, "OPERATION_COMPLETED": 4,
                "OPERATION_FAILED": 5, "BOOT_LOAD": 6, "EDCP_GENERATION": 7}
DM15_STATUS = {"PROCEED": 0, "BUSY": 1, "OPERATION_COMPLETE": 4, "OPERATION_FAILED": 5}
DM16_SINGLE_FRAME_MAX = 7   # 1 count byte + 7 data bytes fit a classic frame
