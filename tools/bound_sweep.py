#!/usr/bin/env python3
"""bound_sweep.py [--jobs N] [--out FILE]: developer aid (not a check) - boundary sweep.  Every ordering comparison in a function of the
package has its boundary moved by one (< <-> <=, > <-> >=) on a scratch copy, and all 19 quick analyses are run on the copy in one
process.  Output as del_sweep.py (the `line` / `col` of the operator's left operand, the comparison text)."""
import argparse, ast, json, os, shutil, subprocess, sys, tempfile
HERE = os.path.dirname(os.path.dirname(os.path.abspath(__file__)))
SWAP = {ast.Lt: "<=", ast.LtE: "<", ast.Gt: ">=", ast.GtE: ">"}
TXT = {ast.Lt: "<", ast.LtE: "<=", ast.Gt: ">", ast.GtE: ">="}


def sites(path):
    src = open(path).read()
    tree = ast.parse(src)
    out = []
    for fn in ast.walk(tree):
        if not isinstance(fn, ast.FunctionDef):
            continue
        for n in ast.walk(fn):
            if isinstance(n, ast.Compare) and len(n.ops) == 1 and type(n.ops[0]) in SWAP:
                out.append((n.lineno, n.col_offset, n.end_lineno, n.end_col_offset, type(n.ops[0]).__name__, fn.name, ast.unparse(n)[:70]))
    return sorted(set(out))


def mutate(p, lo, col, hi, ecol, opname):
    src = open(p).read()
    tree = ast.parse(src)
    for n in ast.walk(tree):
        if isinstance(n, ast.Compare) and (n.lineno, n.col_offset, n.end_lineno, n.end_col_offset) == (lo, col, hi, ecol):
            n.ops[0] = {"Lt": ast.LtE, "LtE": ast.Lt, "Gt": ast.GtE, "GtE": ast.Gt}[opname]()
            seg = ast.get_source_segment(src, n)
            new = ast.unparse(n)
            lines = src.split("\n")
            if lo == hi:
                lines[lo - 1] = lines[lo - 1][:col] + new + lines[lo - 1][ecol:]
            else:
                lines[lo - 1:hi] = [lines[lo - 1][:col] + new + lines[hi - 1][ecol:]]
            open(p, "w").write("\n".join(lines))
            return True
    return False


def run_one(args):
    fn, lo, col, hi, ecol, opname, fname, txt = args
    d = tempfile.mkdtemp(prefix="j1939bnd_")
    try:
        shutil.copytree("/repo/j1939", os.path.join(d, "j1939"))
        if not mutate(os.path.join(d, "j1939", fn), lo, col, hi, ecol, opname):
            return {"file": fn, "line": lo, "error": "site not found"}
        r = subprocess.run([sys.executable, os.path.join(HERE, "tools", "del_sweep.py"), "--analyse", d], capture_output=True, text=True, timeout=900)
        last = [l for l in r.stdout.splitlines() if l.startswith("RESULT ")]
        res = json.loads(last[-1][7:]) if last else {"error": (r.stderr or r.stdout)[-300:]}
        return {"file": fn, "line": lo, "col": col, "end": [hi, ecol], "op": opname, "func": fname, "stmt": txt, **res}
    finally:
        shutil.rmtree(d, ignore_errors=True)


def main():
    ap = argparse.ArgumentParser()
    ap.add_argument("--jobs", type=int, default=14)
    ap.add_argument("--out", default="/tmp/bound_sweep.jsonl")
    a = ap.parse_args()
    todo = []
    for fn in sorted(f for f in os.listdir("/repo/j1939") if f.endswith(".py") and f not in ("__init__.py", "version.py")):
        for s in sites(os.path.join("/repo/j1939", fn)):
            todo.append((fn,) + s)
    print("%d mutants" % len(todo), flush=True)
    import concurrent.futures as cf
    with open(a.out, "w") as fh, cf.ThreadPoolExecutor(max_workers=a.jobs) as ex:
        for res in ex.map(run_one, todo):
            fh.write(json.dumps(res) + "\n")
            fh.flush()
    print("done")


if __name__ == "__main__":
    main()
