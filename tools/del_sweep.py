#!/usr/bin/env python3
"""del_sweep.py [--jobs N] [--files a.py,b.py] [--out FILE]
Developer aid (not a check): statement-deletion sweep.  Every simple statement (assignment, augmented assignment, call statement,
delete) inside a function of /repo/j1939/*.py is replaced by `pass` on a scratch copy, and all 19 quick analyses are run on the copy in
one process.  Prints one line per mutant: file:line, statement, the properties that reported it (exit 1), those undecided (exit 2).
Mutants that nobody reports are the candidates for a missing clause; whether they pass the test suite / change behaviour at all is
triaged afterwards (most deletions of logging, comments-as-code or redundant stores are equivalent)."""
import argparse, ast, contextlib, importlib, io, json, os, shutil, subprocess, sys, tempfile
HERE = os.path.dirname(os.path.dirname(os.path.abspath(__file__)))
sys.path.insert(0, HERE)
ALL = ["C%02d" % i for i in range(1, 20)]


def sites(path):
    src = open(path).read()
    tree = ast.parse(src)
    out = []
    for fn in ast.walk(tree):
        if not isinstance(fn, (ast.FunctionDef,)):
            continue
        for st in ast.walk(fn):
            if isinstance(st, (ast.Assign, ast.AugAssign, ast.Delete)) or (isinstance(st, ast.Expr) and isinstance(st.value, ast.Call)):
                txt = ast.unparse(st)
                if txt.startswith("logger.") or txt.startswith("print("):
                    continue
                out.append((st.lineno, st.end_lineno, st.col_offset, txt[:90], fn.name))
    return sorted(set(out))


def run_one(args):
    fn, lo, hi, col, txt, fname = args
    d = tempfile.mkdtemp(prefix="j1939del_")
    try:
        shutil.copytree("/repo/j1939", os.path.join(d, "j1939"))
        p = os.path.join(d, "j1939", fn)
        lines = open(p).read().split("\n")
        lines[lo - 1:hi] = [" " * col + "pass"] + [""] * (hi - lo)
        open(p, "w").write("\n".join(lines))
        r = subprocess.run([sys.executable, os.path.join(HERE, "tools", "del_sweep.py"), "--analyse", d], capture_output=True, text=True, timeout=900)
        last = [l for l in r.stdout.splitlines() if l.startswith("RESULT ")]
        res = json.loads(last[-1][7:]) if last else {"error": (r.stderr or r.stdout)[-300:]}
        return (fn, lo, fname, txt, res)
    finally:
        shutil.rmtree(d, ignore_errors=True)


def analyse(root):
    import check as CK
    from sa.report import Ctx
    CK._isolate_rules()
    det, unk = [], []
    shared = {}
    for pid in ALL:
        ctx = Ctx(pid, root, "quick", 0, CK.LEVELS.get(pid, "other"))
        if shared:
            ctx._prog, ctx._cg = shared["prog"], shared["cg"]
        mod = importlib.import_module("props.%s" % pid)
        buf = io.StringIO()
        with contextlib.redirect_stdout(buf), contextlib.redirect_stderr(io.StringIO()):
            try:
                expl = mod.run(ctx)
                code = ctx.finish(expl or "")
            except Exception as e:
                code = 2
        if not shared:
            try:
                shared["prog"], shared["cg"] = ctx.prog, ctx.cg
            except Exception:
                pass
        if code == 1:
            det.append(pid)
        elif code == 2:
            unk.append(pid)
    print("RESULT " + json.dumps({"det": det, "unk": unk}))


def main():
    if len(sys.argv) > 2 and sys.argv[1] == "--analyse":
        return analyse(sys.argv[2])
    ap = argparse.ArgumentParser()
    ap.add_argument("--jobs", type=int, default=14)
    ap.add_argument("--files", default="")
    ap.add_argument("--out", default="/tmp/del_sweep.jsonl")
    a = ap.parse_args()
    files = a.files.split(",") if a.files else sorted(f for f in os.listdir("/repo/j1939") if f.endswith(".py") and f not in ("__init__.py", "version.py"))
    todo = []
    for fn in files:
        for lo, hi, col, txt, fname in sites(os.path.join("/repo/j1939", fn)):
            todo.append((fn, lo, hi, col, txt, fname))
    print("%d mutants" % len(todo), flush=True)
    import concurrent.futures as cf
    with open(a.out, "w") as fh, cf.ThreadPoolExecutor(max_workers=a.jobs) as ex:
        for fn, lo, fname, txt, res in ex.map(run_one, todo):
            fh.write(json.dumps({"file": fn, "line": lo, "func": fname, "stmt": txt, **res}) + "\n")
            fh.flush()
    print("done")


if __name__ == "__main__":
    main()
