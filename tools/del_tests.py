#!/usr/bin/env python3
"""del_tests.py <silent.json> <out.jsonl> [jobs]: developer aid - run the repository's test suite on each statement-deletion mutant that no
check reported (output of del_sweep.py), on a scratch copy of /repo; records pass / fail."""
import json, os, shutil, subprocess, sys, tempfile
import concurrent.futures as cf
rows = json.load(open(sys.argv[1]))
out = sys.argv[2]
jobs = int(sys.argv[3]) if len(sys.argv) > 3 else 8


def sites(path):
    import ast
    src = open(path).read()
    tree = ast.parse(src)
    res = {}
    for st in ast.walk(tree):
        if isinstance(st, (ast.Assign, ast.AugAssign, ast.Delete)) or (isinstance(st, ast.Expr) and isinstance(st.value, ast.Call)):
            res.setdefault(st.lineno, (st.lineno, st.end_lineno, st.col_offset))
    return res


def one(r):
    d = tempfile.mkdtemp(prefix="j1939dt_")
    try:
        for sub in ("j1939", "test", "test_helpers"):
            if os.path.exists(os.path.join("/repo", sub)):
                shutil.copytree(os.path.join("/repo", sub), os.path.join(d, sub))
        for f in ("setup.py", "setup.cfg", "README.rst"):
            if os.path.exists(os.path.join("/repo", f)):
                shutil.copy(os.path.join("/repo", f), d)
        p = os.path.join(d, "j1939", r["file"])
        lo, hi, col = sites(p)[r["line"]]
        lines = open(p).read().split("\n")
        lines[lo - 1:hi] = [" " * col + "pass"] + [""] * (hi - lo)
        open(p, "w").write("\n".join(lines))
        try:
            pr = subprocess.run(["/venv/bin/python", "-m", "pytest", "-q", "-x", "-p", "no:cacheprovider", "--timeout=120"], cwd=d,
                                capture_output=True, text=True, timeout=600)
            tail = pr.stdout.strip().splitlines()[-1] if pr.stdout.strip() else ""
            ok = pr.returncode == 0
        except subprocess.TimeoutExpired:
            ok, tail = False, "timeout"
        return dict(r, tests_pass=ok, tests=tail[:80])
    finally:
        shutil.rmtree(d, ignore_errors=True)


with open(out, "w") as fh, cf.ThreadPoolExecutor(max_workers=jobs) as ex:
    for res in ex.map(one, rows):
        fh.write(json.dumps(res) + "\n")
        fh.flush()
print("done")
