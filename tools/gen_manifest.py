#!/usr/bin/env python3
"""Regenerates /verif/MANIFEST.json from the table below (keeps it valid and current)."""
import json, os
HERE = os.path.dirname(os.path.dirname(os.path.abspath(__file__)))
NOTE = ("Static analysis of /repo/j1939/*.py as parsed on every run (ast; path enumeration with reaching definitions; "
        "resolved call graph; known-bits domain). Decides the named structural clauses, each a necessary condition of the "
        "property; the behaviour as a whole (all inputs/schedules/histories) is NOT decided. Trusted base: the engine in "
        "/verif/sa, the rule modules, the SAE tables in /verif/spec/sae.py, CPython list/dict semantics; user callbacks are external.")
CHECKS = {
 "C01": ("R-SEG-CEIL/CONST, R-SEQ-BASE, R-KEY-ROLE, R-HASH-INJ, R-DELIVER-GUARD, R-REFRESH, R-ORDER-SEND, R-REFUSE, R-DEST-CLASS, R-DISPATCH, R-CTS-BORDER, R-GRANT-MIN, R-WINDOW-AFFINE, R-SINGLE-FRAME, R-DELIVER-ARGS, R-FORWARD-NAMES, R-ANNOUNCED-PGN, R-BAM-FRESH, R-RTS-ACCEPT (incl. no silent drop of a legal announcement), R-PAIR-ORDER, R-SESSION-FRESH, R-REPLY-ARMS (what the CTS / end-of-message-acknowledge / abort arms must do), R-BURST-BOUND on j1939_21.py / electronic_control_unit.py",
         "path-sensitive dataflow + quotient/remainder and affine domains + known-bits over the AST", "3 C01"),
 "C02": ("FD twins of C01's rules plus in-order append, numpy chunking idiom, pool pairing/ownership/ordering, window bookkeeping, announced PGN, fresh BAM session, own data buffer per receive session, state-before-send, DT minimum-length test over all legal frame lengths, sender steps (segment index advanced, end-of-message status sent), reassembly cut to the announced size and delivered when exactly complete, TP.CM length test, reply arms on j1939_22.py",
         "path-sensitive dataflow + acquire/release pairing + who-may-call over the resolved call graph", "3 C02"),
 "C06": ("delivery guard, SAE timeout constants, finite deadlines, expiry shape, re-arm-or-delete with progress, wake rule, wake-up coverage of every new deadline, finished sessions due at once, fresh BAM session, refusal condition, RTS accepted unless its own key is occupied, own data buffer per receive session",
         "dominance / must-pass over enumerated paths + affine deadline forms + constant tables", "3 C06"),
 "C07": ("re-arm-or-delete on every expiry path (loops taken 0/1 times), state exhaustiveness, index bounds, job-thread subscripts, snapshots, containment, raise confinement, progress of every while-loop, no effect on own broadcast sessions for frames from source address 255, no local read before assignment in any data-link-layer / ECU function",
         "path enumeration of the job-thread scans + thread-role reachability + interval bounds", "3 C07"),
 "C08": ("raise-on-interleave discipline on the shared session tables, snapshots, who deletes which table, state-before-send on both layers, number released only after the entry is deleted, refusal while the old entry exists, no object-held scratch container in methods shared by both threads, wake-up tokens consumed only by the blocking wait",
         "thread-role / ownership analysis of table operations (race-detector style, no schedule exploration)", "3 C08"),
 "C09": ("grant = min closure, responder window bookkeeping, DT typestate, hold path, window arithmetic incl. window-end test in every sending iteration, BAM/CMDT pacing re-arm, wake-up coverage",
         "affine forms + min-closure dataflow + typestate over enumerated paths", "3 C09"),
 "C10": ("FD pool acquire/release pairing and who-may-release, effect-free refusal, eventual deletion with progress, wake on abort, release-after-delete ordering, frames from 255 cannot finish a broadcast session, in-place modified bookkeeping is created per stack object, abort / acknowledge arms finish the send session at once",
         "acquire/release pairing + who-may-call over the resolved call graph", "3 C10"),
 "C03": ("byte/bit image of all TP.CM/TP.DT/FD builders and parsers against independent SAE tables, padding, FD length LUT, sequence base, announced packet count and PGN, wake-up coverage of paced packets, own data buffer per receive session, FD DT minimum length",
         "known-bits / bit-provenance abstract interpretation of the frame builders and parsers vs transcribed SAE tables", "3 C03"),
 "C04": ("J1939-81 decision table of the claim handler, NAME comparison operands and direction, claim broadcast to every CA (no early loop exit), veto range/timer shape, state-before-send for the first claim and on losing, every claim names the held or announced address, announced == held on entering NORMAL, no local read before assignment (claim timer callback)",
         "decision-table extraction by path enumeration + propositional truth tables over canonical guard atoms", "3 C04"),
 "C05": ("listener gate formula, destination filter dominates every PDU1 dispatch and never hits PDU2, filter/dispatch loops consult every CA, rejection only after asking the CAs now, per-listener delivery formula, acceptance index follows the listener registry, add_ca / remove_ca maintain the CA list",
         "guard dominance and formula equivalence by truth table over canonical atoms", "3 C05"),
 "C11": ("fit bound <= 64, header-size agreement, C-PG header layout and decoder, key injectivity, padding skip-compatibility, min-deadline, wake, flush, FD destination filter consults every CA, assembled frames are sent on every path and received ones dispatched to the decoder",
         "affine bound reasoning + known-bits layout + path rules", "3 C11"),
 "C12": ("no shrink-while-iterating (interprocedural), remove-all construct, first deadline, whole-period re-arm and boundary contradiction, wake (publish before wake), liveness re-check, no early exit from the timer scan over an unordered list, wake-up tokens consumed only by the blocking wait, wake-up tests acted on, no local read before assignment, CA registration entry points forward to the ECU",
         "loop/mutation analysis over the resolved call graph + affine timer arithmetic + contradiction rule on comparison boundaries", "3 C12"),
 "C13": ("who-may-send (call graph), state-guard dominance at every send entry point, source-address provenance, claim-only sender, state/address coupling, source address through the FD buffer key and the single-frame identifier, claim decision table, announced == held on entering NORMAL",
         "who-may-call + guard dominance + argument provenance (reaching definitions)", "3 C13"),
 "C14": ("request layout and decoder identity, dispatch guard, handler guard formula, dispatch loop serves every accepting CA, rejection only after asking the CAs now, converse of the handler guard (requesters 0..254), fan-out once / claim answer, subscribe_request records the callback, add_ca registers the CA",
         "known-bits layout + guard truth tables + argument provenance", "3 C14"),
 "C15": ("about 95 proof obligations: identifier compose/parse inverses and positions, PGN fields/value/classification, NAME widths, J1939-81 positions, value/bytes views, arbitration comparison, getters store nothing or their memo is reset by every writer",
         "proof by exact abstract evaluation in a known-bits / bit-provenance domain (each obligation covers the whole input domain)", "3 C15"),
 "C16": ("DTC/DM1/DM22 layouts vs J1939-73, lamp table and its inverse decision tree, register/deregister key agreement, DM1 cycle, per-object receive-hook registration, receive / send / deregistration steps and the parser's length test over all legal lengths (R-DM1-STEPS), no local read before assignment",
         "known-bits layout vs spec tables + constant-propagated decision tree + registry key dataflow", "3 C16"),
 "C17": ("DM14/DM15 sibling composition decode o encode = identity, DM16 prefix/extraction, single-frame threshold agreement, chunk slicing, told arguments, idle reset, end-of-message hook iff multi-packet, acknowledged transport session released at once, reply-handler state stored before the frame that is answered, every legal end-of-message acknowledge completes the read, byte shortcut only for unsigned 1-byte objects, 17 transaction steps in server / client / facade (R-DM14-STEPS), no local read before assignment",
         "known-bits composition of sibling encoders/decoders + affine slice forms + threshold partition agreement", "3 C17"),
 "C18": ("key check dominates application callbacks and serving, error translation, bounded wait raises, restore on all exits incl. exceptional, sibling reset, key sent for every seed value, seed drawn only with the seed message, seed and state stored before the frame that is answered, refusal carries an error indicator the client reports, refusals run through the server's busy path and everything is reset (R-DM14-STEPS)",
         "guard dominance + acquire/release pairing with exception edges (interprocedural must-effects) + sibling cross-check", "3 C18"),
 "C19": ("admission guard first and formula, busy branch effect set and addressee, facade busy wrap, facade advances only when the server is idle, identity cleared exactly with the return to IDLE, requester / pointer / state stored before the seed message goes out, leaving IDLE binds requester and pointer to the frame",
         "guard formula equivalence + interprocedural field-write sets specialised to constant arguments", "3 C19"),
}
NA = {}
def main():
    props = [json.loads(l) for l in open(os.path.join(HERE, "properties.jsonl"))]
    checks = []
    na = []
    for p in props:
        pid = p["id"]
        if pid in CHECKS and os.path.exists(os.path.join(HERE, "props", pid + ".py")):
            text, tech, ref = CHECKS[pid]
            level = "proof" if pid == "C15" else "other"
            checks.append({
                "property_id": pid,
                "quick_cmd": "./check %s --tier quick" % pid,
                "thorough_cmd": "./check %s --tier thorough" % pid,
                "evidence_file": "/verif/evidence/%s.json" % pid,
                "replay_cmd_template": "./check %s --replay {path}" % pid,
                "engine": "sa",
                "level_claimed": {"category": level, "text": "static decision of structural necessary conditions: " + text,
                                  "design_ref": "DESIGN.md §" + ref},
                "level_note": NOTE,
                "technique": "static analysis: " + tech,
            })
        else:
            na.append({"property_id": pid, "reason": NA.get(pid, "check not built yet in this phase (static rules designed in DESIGN.md §3, not yet armed); no claim is made")})
    m = {
        "version": 1,
        "setup_cmd": "cd /verif && ./check --selfcheck",
        "hooks": {"guard": "J1939_VERIF", "enable": "none needed: nothing is executed, no hook commits exist",
                  "baseline_off_cmd": "cd /repo && /venv/bin/python -m pytest -ra -q -p no:cacheprovider --timeout=900 --continue-on-collection-errors",
                  "source_commits": [], "add_only": True},
        "engines": [{"name": "sa", "path": "/verif/sa", "serves_properties": [c["property_id"] for c in checks],
                     "kind_free_text": "repository-specific static analyser (stdlib ast): program model, canonical symbolic expressions with reaching definitions, structured path enumeration, resolved call graph with thread roles, guard truth tables, known-bits/provenance domain, affine and quotient/remainder domains"}],
        "checks": checks,
        "not_applicable": na,
        "notes": "All checks are static: they parse /repo/j1939 on every run and never import or execute it. exit 0 holds / exit 1 VIOLATION / exit 2 ANALYSIS-ERROR (undecided, never an accusation). known_findings.json is read-only at run time.",
    }
    json.dump(m, open(os.path.join(HERE, "MANIFEST.json"), "w"), indent=1)
    print("MANIFEST: %d checks, %d not applicable" % (len(checks), len(na)))
if __name__ == "__main__":
    main()
