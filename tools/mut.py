#!/usr/bin/env python3
"""mut.py <Cxx[,Cyy]> <file under j1939/> <old> <new> [--count N]
Apply one textual replacement to a scratch copy of /repo/j1939 and run the check(s) on it."""
import os, shutil, subprocess, sys, tempfile
props, fn, old, new = sys.argv[1].split(","), sys.argv[2], sys.argv[3], sys.argv[4]
d = tempfile.mkdtemp(prefix="j1939mut_")
try:
    shutil.copytree("/repo/j1939", os.path.join(d, "j1939"))
    p = os.path.join(d, "j1939", fn)
    s = open(p).read()
    if s.count(old) != 1:
        print("pattern occurs %d times" % s.count(old)); sys.exit(3)
    open(p, "w").write(s.replace(old, new))
    here = os.path.dirname(os.path.dirname(os.path.abspath(__file__)))
    for pr in props:
        r = subprocess.run([sys.executable, os.path.join(here, "check.py"), pr, "--root", d], capture_output=True, text=True)
        out = [l for l in r.stdout.splitlines() if not l.startswith("  R-")]
        print("\n".join(out[-8:]))
        if r.stderr.strip(): print(r.stderr[-1500:])
        print("exit", r.returncode)
finally:
    shutil.rmtree(d, ignore_errors=True)
