#!/bin/sh
# on_seed.sh <seeded-id|refactors/id> <Cxx> : run one property's quick check on a scratch copy with a stored patch applied
id=$1; p=$2
case $id in refactors/*) pf=/verif/$id/patch.diff;; *) pf=/verif/seeded/$id/patch.diff;; esac
d=$(mktemp -d /tmp/j1939os_XXXXXX)
cp -r /repo/j1939 $d/
(cd $d && git apply $pf) || { rm -rf $d; exit 3; }
/verif/check $p --root $d | grep -v "^  R-\|^  O-"
rc=$?
rm -rf $d
