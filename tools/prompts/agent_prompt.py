import sys
pid=sys.argv[1]
prop=open('/tmp/prop_%s.txt'%pid).read()
print(f"""You are helping to evaluate a verification tool by injecting realistic, subtle defects into a Python library (a mutation-testing / fault-injection exercise on a scratch copy; nothing here is deployed anywhere).

The library is python-can-j1939 (pure-Python SAE J1939 stack). Your private scratch copy is the git worktree at /tmp/wt_{pid} (work ONLY there; never touch /repo, and do not read or use anything under /verif - your work must be independent of it).

Here is a semantic property the library is supposed to satisfy:

{prop}

YOUR TASK: produce TWO different, independent source changes (call them A and B) to files under /tmp/wt_{pid}/j1939/ such that each change, on its own:
  1. BREAKS the property above (for some input / schedule / history / fault sequence in its quantifier),
  2. still imports fine and PASSES the complete existing test suite:  cd /tmp/wt_{pid} && /venv/bin/python -m pytest -q -p no:cacheprovider --timeout=120   (116 tests, ~30 s; run it from that directory so that the worktree's j1939 package is the one imported - check with  /venv/bin/python -c "import j1939; print(j1939.__file__)"  from that directory),
  3. needs something SPECIFIC to manifest - a particular interleaving, a fault or lost frame at a particular point, a multi-step sequence of operations, an unusual input (boundary length, particular address, particular field value), or two cooperating sites that each look fine alone. NOT something ordinary use would expose at once, and not a crash on every call. Think of the kind of bug a careful reviewer could miss: an off-by-one at a boundary, a swapped role, a missing release on one path, a guard that is slightly too weak, a state update moved after a send, a constant that is right in the tested configuration only, etc.
  Make A and B different in kind and located in different functions if possible. Keep each change small (typically 1-10 lines).

For each change also write a DEMONSTRATION: a small self-contained Python program (no pytest needed) that exercises the real library code and exits with status 1 (printing what went wrong) when the change is applied and exits 0 when it is not applied. The demo must put the worktree first on sys.path (sys.path.insert(0, '/tmp/wt_{pid}') before importing j1939) - or better take the root from sys.argv[1] with that default - must finish in under 60 seconds, and must not need a CAN bus: construct j1939.ElectronicControlUnit(send_message=...) objects with a fake send function and feed frames with ecu.notify(can_id, data, timestamp) (several ECUs can be wired to each other through their send_message callbacks; look at test_helpers/feeder.py and the tests for how the suite does it). Always call ecu.stop() at the end so the process exits.

DELIVERABLES (all inside /tmp/wt_{pid}/):
  - patchA.diff and patchB.diff : each produced with `git -C /tmp/wt_{pid} diff -- j1939 > patchX.diff` with ONLY that change applied (the two patches must each apply on their own to a clean checkout with `git apply`),
  - demoA.py and demoB.py,
  - notes.md : for each change, 5-10 lines: what was changed, why it breaks the property, what exactly is needed for it to manifest, and the commands you ran (test suite result with the change; demo exit status with and without the change).
When you are done the working tree must be CLEAN again (git -C /tmp/wt_{pid} checkout -- j1939), with only the five deliverable files left untracked.

Verify everything yourself before finishing: for each of A and B: apply the patch, run the full test suite (must be 116 passed), run the demo (must exit 1), revert, run the demo again (must exit 0). If a change makes any existing test fail, pick a different change. Report at the end a short summary of A and B (file, function, one line each) and the verification results.""")
