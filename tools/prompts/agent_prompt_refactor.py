import sys
pid=sys.argv[1]
prop=open('/tmp/prop_%s.txt'%pid).read()
print(f"""You are helping to evaluate a static verification tool for false alarms. The subject is the Python library python-can-j1939 (pure-Python SAE J1939 stack). Your private scratch copy is the git worktree at /tmp/rf_{pid} (work ONLY there; never touch /repo, and do not read or use anything under /verif - your work must be independent of it).

Here is a semantic property the library satisfies today:

{prop}

YOUR TASK: produce TWO different BEHAVIOUR-PRESERVING refactorings (call them A and B) of the code under /tmp/rf_{pid}/j1939/ that IMPLEMENTS this property (the functions that make it hold). After each refactoring the library must behave exactly as before for every input, schedule and history - in particular the property above must still hold - but the source should look noticeably different, the way a maintainer might rewrite it during clean-up. Use a mix of the following, and make A and B different in kind and preferably in different functions:
  - introduce or remove local variables / aliases (e.g. `buf = self._table[key]`), rename locals and parameters of private methods,
  - restructure control flow without changing it: early returns vs nested ifs, `if/elif` chains vs `match`, inverted conditions with swapped branches, `a >= b` vs `not a < b`, De Morgan, merged or split conditions, `while` vs `for`,
  - replace literals by the existing named constants or the reverse, `|` vs `+` on disjoint bit fields, `x // n` vs `int(x / n)`, re-associated arithmetic, respelled ceil-division, list comprehension vs append loop, `list(x)` vs `x[:]` vs `x.copy()`,
  - reorder independent statements, hoist common sub-expressions, inline a trivial helper or extract a small private helper method,
  - `dict.get/pop` with defaults vs `in` tests + subscripts where equivalent, try/except KeyError vs get.
Each refactoring should touch 10-60 lines. Do NOT change behaviour: no changed constants, no changed orders of externally visible effects (frames sent, callbacks called, state visible to other threads between effects), no changed exceptions, no "improvements" or bug fixes. If you are not sure an edit is behaviour-preserving, do not make it.

CHECK each refactoring: apply it alone and run the complete test suite:  cd /tmp/rf_{pid} && /venv/bin/python -m pytest -q -p no:cacheprovider --timeout=120   (must be 116 passed; run it from that directory so that the worktree's package is imported). In addition write a small self-contained script equivA.py / equivB.py that exercises the refactored functions through the real library (construct j1939.ElectronicControlUnit(send_message=fake) objects, feed frames with ecu.notify(...), wire two ECUs to each other where useful; put the root from sys.argv[1], default /tmp/rf_{pid}, first on sys.path; always call ecu.stop()) over a handful of inputs that cover the rewritten branches, prints a deterministic transcript of the observable effects (frames sent, callbacks, return values - no timestamps), and run it on the clean tree and on the refactored tree: the two transcripts must be identical (diff them).

DELIVERABLES (all inside /tmp/rf_{pid}/): patchA.diff and patchB.diff (each made with `git -C /tmp/rf_{pid} diff -- j1939 > patchX.diff` with ONLY that refactoring applied; each must apply on its own to a clean checkout with `git apply`), equivA.py, equivB.py, notes.md (per refactoring: which functions, which kinds of rewrite, why behaviour is unchanged, test-suite result, transcript comparison result). When you are done the working tree must be CLEAN again (git -C /tmp/rf_{pid} checkout -- j1939) with only the five deliverable files untracked. Finish with a short summary of A and B.""")
