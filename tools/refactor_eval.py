#!/usr/bin/env python3
"""refactor_eval.py <worktree> <Cxx> <A|B>
False-alarm round: a sub-agent's BEHAVIOUR-PRESERVING refactoring (patchX.diff in its scratch worktree) is applied
there, the full test suite must still pass, and every property's quick check is run on a scratch copy of the refactored
package (--root; /repo is not touched).  exit 1 from any check is a false alarm; exit 2 means undecided.
Records /verif/refactors/<Cxx><A|B>/{patch.diff, result.json}."""
import concurrent.futures as cf
import json
import os
import shutil
import subprocess
import sys
import tempfile

VERIF = os.path.dirname(os.path.dirname(os.path.abspath(__file__)))
ALL = ["C%02d" % i for i in range(1, 20)]


def sh(cmd, cwd=None, timeout=900):
    r = subprocess.run(cmd, shell=True, cwd=cwd, capture_output=True, text=True, timeout=timeout)
    return r.returncode, r.stdout + r.stderr


def main():
    wt, pid, which = sys.argv[1], sys.argv[2], sys.argv[3]
    notests = "--notests" in sys.argv
    patch = os.path.join(wt, "patch%s.diff" % which)
    sh("git checkout -- j1939", cwd=wt)
    rc, out = sh("git apply %s" % patch, cwd=wt)
    if rc:
        print("patch does not apply:", out)
        return 2
    d = tempfile.mkdtemp(prefix="j1939rf_")
    try:
        shutil.copytree(os.path.join(wt, "j1939"), os.path.join(d, "j1939"))
        passed = None
        if not notests:
            rc, out = sh("/venv/bin/python -m pytest -q -p no:cacheprovider --timeout=120 2>&1 | tail -3", cwd=wt)
            passed = "116 passed" in out
        sh("git checkout -- j1939", cwd=wt)

        def one(p):
            rc, out = sh("./check %s --tier quick --root %s" % (p, d), cwd=VERIF)
            lines = [l for l in out.splitlines() if "[R-" in l or "[O-" in l or l.startswith("ANALYSIS-ERROR")]
            return p, rc, lines[:4]
        with cf.ThreadPoolExecutor(max_workers=8) as ex:
            res = list(ex.map(one, ALL))
    finally:
        shutil.rmtree(d, ignore_errors=True)
    alarms = {p: l for p, rc, l in res if rc == 1}
    undecided = {p: l for p, rc, l in res if rc == 2}
    rid = sys.argv[sys.argv.index("--id") + 1] if "--id" in sys.argv else "%s%s" % (pid, which)
    out = {"id": rid, "property": pid, "tests_pass": passed, "false_alarms": alarms, "undecided": undecided,
           "silent": [p for p, rc, _ in res if rc == 0]}
    dd = os.path.join(VERIF, "refactors", out["id"])
    os.makedirs(dd, exist_ok=True)
    shutil.copy(patch, os.path.join(dd, "patch.diff"))
    notes = os.path.join(wt, "notes.md")
    if os.path.exists(notes):
        out["agent_notes"] = open(notes).read()[:5000]
    json.dump(out, open(os.path.join(dd, "result.json"), "w"), indent=1)
    print("%s (%s%s) tests_pass=%s  silent=%d  FALSE-ALARMS=%s  undecided=%s" % (rid, pid, which, passed, len(out["silent"]), sorted(alarms), sorted(undecided)))
    for p, l in list(alarms.items()) + list(undecided.items()):
        for x in l[:2]:
            print("   %s: %s" % (p, x[:260]))
    return 1 if alarms else 0


if __name__ == "__main__":
    sys.exit(main())
