#!/usr/bin/env python3
"""rf_all.py [id-substring]: every stored refactoring x every property on a scratch copy; prints false alarms (exit 1) and undecided (exit 2) with the first report line."""
import concurrent.futures as cf, glob, os, shutil, subprocess, sys, tempfile
VERIF = os.path.dirname(os.path.dirname(os.path.abspath(__file__)))
ALL = ["C%02d" % i for i in range(1, 20)]
sel = sys.argv[1] if len(sys.argv) > 1 else ""
dirs = [d for d in sorted(glob.glob(os.path.join(VERIF, "refactors", "*"))) if sel in os.path.basename(d) and os.path.exists(os.path.join(d, "patch.diff"))]


def one(d):
    name = os.path.basename(d)
    t = tempfile.mkdtemp(prefix="j1939ra_")
    out = []
    try:
        shutil.copytree("/repo/j1939", os.path.join(t, "j1939"))
        r = subprocess.run(["git", "apply", os.path.join(d, "patch.diff")], cwd=t, capture_output=True, text=True)
        if r.returncode:
            return [(name, "-", "patch does not apply", "")]
        for p in ALL:
            r = subprocess.run([os.path.join(VERIF, "check"), p, "--root", t], capture_output=True, text=True)
            if r.returncode:
                lines = [l for l in r.stdout.splitlines() if "[R-" in l or "[O-" in l or l.startswith("ANALYSIS-ERROR")]
                out.append((name, p, "ALARM" if r.returncode == 1 else "undecided", lines[0][:330] if lines else ""))
    finally:
        shutil.rmtree(t, ignore_errors=True)
    return out


with cf.ThreadPoolExecutor(max_workers=14) as ex:
    res = [x for l in ex.map(one, dirs) for x in l]
for x in res:
    print("%-6s %-4s %-10s %s" % x)
print("%d refactorings; %d false alarms, %d undecided, %d not applicable" % (len(dirs), sum(1 for x in res if x[2] == "ALARM"),
      sum(1 for x in res if x[2] == "undecided"), sum(1 for x in res if x[2].startswith("patch"))))
sys.exit(1 if any(x[2] == "ALARM" for x in res) else 0)
