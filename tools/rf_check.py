#!/usr/bin/env python3
"""rf_check.py <refactor id> [Cxx ...]  - re-run checks on a stored behaviour-preserving refactoring (/verif/refactors/<id>/patch.diff)
applied to a scratch copy of /repo/j1939."""
import os, shutil, subprocess, sys, tempfile
VERIF = os.path.dirname(os.path.dirname(os.path.abspath(__file__)))
rid = sys.argv[1]
props = sys.argv[2:] or ["C%02d" % i for i in range(1, 20)]
d = tempfile.mkdtemp(prefix="j1939rf_")
try:
    shutil.copytree("/repo/j1939", os.path.join(d, "j1939"))
    r = subprocess.run(["git", "apply", os.path.join(VERIF, "refactors", rid, "patch.diff")], cwd=d, capture_output=True, text=True)
    if r.returncode:
        print("patch does not apply:", r.stderr); sys.exit(2)
    bad = 0
    for p in props:
        r = subprocess.run([os.path.join(VERIF, "check"), p, "--root", d], capture_output=True, text=True)
        lines = [l for l in r.stdout.splitlines() if "[R-" in l or "[O-" in l or l.startswith("ANALYSIS-ERROR")]
        if r.returncode:
            bad += r.returncode == 1
            print("%s exit %d" % (p, r.returncode))
            for l in lines[:6]:
                print("    " + l[:330])
    print("%s: %d false alarm(s)" % (rid, bad))
    sys.exit(1 if bad else 0)
finally:
    shutil.rmtree(d, ignore_errors=True)
