#!/usr/bin/env python3
"""Rewrites the auto-generated rule inventory of DESIGN.md (section 11) from /verif/evidence/*.json (run the 19 quick checks first)."""
import glob, json, os
HERE = os.path.dirname(os.path.dirname(os.path.abspath(__file__)))
rows = []
for f in sorted(glob.glob(os.path.join(HERE, "evidence", "C??.json"))):
    e = json.load(open(f))
    pid = os.path.basename(f)[:-5]
    rules = e["coverage"].get("rules", {})
    for r, d in sorted(rules.items()):
        rows.append("| %s | %s | %s | %d | %d |" % (pid, r, d.get("description", "").replace("|", "/"), d.get("instances_holding", 0), d.get("floor", 0)))
table = "| property | rule | what it decides | instances on the current tree | floor |\n|---|---|---|---|---|\n" + "\n".join(rows)
p = os.path.join(HERE, "DESIGN.md")
s = open(p).read()
a, b = "<!-- RULE-TABLE-BEGIN -->", "<!-- RULE-TABLE-END -->"
if a in s:
    s = s[:s.index(a) + len(a)] + "\n" + table + "\n" + s[s.index(b):]
    open(p, "w").write(s)
print("%d rule x property rows" % len(rows))
