#!/usr/bin/env python3
"""seed_check.py [id ...] - every stored seeded change (/verif/seeded/<id>/patch.diff) applied to a scratch copy of /repo/j1939
must still be reported (exit 1) by its own property's quick check. Fast regression guard for rule changes."""
import concurrent.futures as cf, glob, json, os, shutil, subprocess, sys, tempfile
VERIF = os.path.dirname(os.path.dirname(os.path.abspath(__file__)))
ids = sys.argv[1:] or sorted(os.path.basename(os.path.dirname(p)) for p in glob.glob(os.path.join(VERIF, "seeded", "*", "patch.diff")))
def one(i):
    meta = json.load(open(os.path.join(VERIF, "seeded", i, "meta.json")))
    d = tempfile.mkdtemp(prefix="j1939sd_")
    try:
        shutil.copytree("/repo/j1939", os.path.join(d, "j1939"))
        r = subprocess.run(["git", "apply", os.path.join(VERIF, "seeded", i, "patch.diff")], cwd=d, capture_output=True, text=True)
        if r.returncode:
            return i, "patch does not apply to the current tree"
        r = subprocess.run([os.path.join(VERIF, "check"), meta["property"], "--root", d], capture_output=True, text=True)
        rules = sorted({l.split("[")[1].split("]")[0] for l in r.stdout.splitlines() if "[R-" in l or "[O-" in l})
        return i, ("detected %s" % rules) if r.returncode == 1 else ("NOT DETECTED (exit %d)" % r.returncode)
    finally:
        shutil.rmtree(d, ignore_errors=True)
with cf.ThreadPoolExecutor(max_workers=8) as ex:
    res = list(ex.map(one, ids))
bad = 0
for i, s in res:
    if not s.startswith("detected"):
        bad += 1
        print(i, s)
print("%d seeded changes, %d not detected / not applicable" % (len(res), bad))
sys.exit(1 if bad else 0)
