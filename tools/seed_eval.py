#!/usr/bin/env python3
"""seed_eval.py <worktree> <Cxx> <A|B> [--props C01,C02] [--id C01C]
Confirms a sub-agent's seeded change and records it under /verif/seeded/<Cxx><A|B>/ :
  1. in the scratch worktree: apply patch, full test suite (must be 116 passed), demo (must exit 1), revert, demo (must exit 0)
  2. on /repo: git apply, run the quick checks (all 19 unless --props), git checkout -- .   (never committed there)
Writes patch.diff, demo.py, meta.json."""
import json
import os
import shutil
import subprocess
import sys

VERIF = os.path.dirname(os.path.dirname(os.path.abspath(__file__)))
ALL = ["C%02d" % i for i in range(1, 20)]


def sh(cmd, cwd=None, timeout=900):
    r = subprocess.run(cmd, shell=True, cwd=cwd, capture_output=True, text=True, timeout=timeout)
    return r.returncode, r.stdout + r.stderr


def main():
    wt, pid, which = sys.argv[1], sys.argv[2], sys.argv[3]
    props = ALL
    if "--props" in sys.argv:
        props = sys.argv[sys.argv.index("--props") + 1].split(",")
    patch = os.path.join(wt, "patch%s.diff" % which)
    demo = os.path.join(wt, "demo%s.py" % which)
    sid = "%s%s" % (pid, which)
    if "--id" in sys.argv:
        sid = sys.argv[sys.argv.index("--id") + 1]
    meta = {"id": sid, "property": pid, "source": "independent sub-agent given only the property text and a scratch worktree"}
    sh("git checkout -- j1939", cwd=wt)
    rc, out = sh("git apply --check %s" % patch, cwd=wt)
    if rc:
        print("patch does not apply in worktree:", out)
        return 2
    sh("git apply %s" % patch, cwd=wt)
    rc, out = sh("/venv/bin/python -m pytest -q -p no:cacheprovider --timeout=120 2>&1 | tail -3", cwd=wt)
    passed = "116 passed" in out
    rc_with, out_with = sh("/venv/bin/python %s %s" % (demo, wt), cwd=wt, timeout=180)
    sh("git checkout -- j1939", cwd=wt)
    rc_without, out_without = sh("/venv/bin/python %s %s" % (demo, wt), cwd=wt, timeout=180)
    meta["confirmed"] = {"tests_with_change": out.strip().splitlines()[-1] if out.strip() else "", "tests_pass": passed,
                         "demo_exit_with_change": rc_with, "demo_exit_without_change": rc_without,
                         "demo_output_with_change": out_with.strip()[-600:]}
    ok = passed and rc_with == 1 and rc_without == 0
    print("confirm: tests_pass=%s demo_with=%d demo_without=%d -> %s" % (passed, rc_with, rc_without, "OK" if ok else "NOT CONFIRMED"))
    # checks on /repo
    rc, out = sh("git -C /repo status --porcelain")
    if out.strip():
        print("/repo is not clean; refusing")
        return 2
    rc, out = sh("git -C /repo apply %s" % patch)
    if rc:
        print("patch does not apply to /repo:", out)
        return 2
    fired = {}
    import concurrent.futures as cf, tempfile
    def summarize(rc, out):
        lines = [l for l in out.splitlines() if "[R-" in l or "[O-" in l]
        return {"exit": rc, "rules": sorted({l.split("[")[1].split("]")[0] for l in lines})[:6], "first": lines[0][:300] if lines else ""}
    d = tempfile.mkdtemp(prefix="j1939se_")
    try:
        # the property's own check runs against /repo itself with the patch applied (as the brief prescribes) ...
        rc, out = sh("./check %s --tier quick" % pid, cwd=VERIF)
        fired[pid] = summarize(rc, out)
        shutil.copytree("/repo/j1939", os.path.join(d, "j1939"))
    finally:
        sh("git -C /repo checkout -- .")
    sh("./check %s --tier quick" % pid, cwd=VERIF)   # restore the clean tree's evidence file
    try:
        # ... the other properties' checks run on a scratch copy of the patched package, in parallel
        def one(p):
            rc, out = sh("./check %s --tier quick --root %s" % (p, d), cwd=VERIF)
            return p, summarize(rc, out)
        with cf.ThreadPoolExecutor(max_workers=8) as ex:
            for p, v in ex.map(one, [p for p in props if p != pid]):
                fired[p] = v
    finally:
        shutil.rmtree(d, ignore_errors=True)
    det = {p: v for p, v in fired.items() if v["exit"] == 1}
    unk = {p: v for p, v in fired.items() if v["exit"] == 2}
    meta["checks"] = {"ran": props, "detected_by": {p: v["rules"] for p, v in det.items()}, "undecided": sorted(unk),
                      "own_property_detects": pid in det, "first_report": det.get(pid, {}).get("first", "")}
    print("detected by:", {p: v["rules"] for p, v in det.items()}, "undecided:", sorted(unk))
    notes = os.path.join(wt, "notes.md")
    if os.path.exists(notes):
        meta["agent_notes"] = open(notes).read()[:6000]
    d = os.path.join(VERIF, "seeded", meta["id"])
    os.makedirs(d, exist_ok=True)
    shutil.copy(patch, os.path.join(d, "patch.diff"))
    shutil.copy(demo, os.path.join(d, "demo.py"))
    meta["what_ran"] = ["cd <worktree> && git apply patch.diff && /venv/bin/python -m pytest -q -p no:cacheprovider --timeout=120",
                        "/venv/bin/python demo.py <worktree>  (with and without the change)",
                        "git -C /repo apply patch.diff && ./check <each property> --tier quick && git -C /repo checkout -- ."]
    json.dump(meta, open(os.path.join(d, "meta.json"), "w"), indent=1)
    return 0 if ok else 1


if __name__ == "__main__":
    sys.exit(main())
