#!/usr/bin/env python3
"""seed_reconfirm.py [ids...]: re-run the stored demos of seeded changes against the CURRENT /repo HEAD (in a scratch
worktree under /tmp, removed afterwards): demo must exit 0 without the patch and 1 with it.  Prints one line per id."""
import glob, json, os, subprocess, sys, tempfile, shutil
VERIF = os.path.dirname(os.path.dirname(os.path.abspath(__file__)))


def sh(cmd, cwd=None, timeout=300):
    r = subprocess.run(cmd, shell=True, cwd=cwd, capture_output=True, text=True, timeout=timeout)
    return r.returncode, r.stdout + r.stderr


def one(sid):
    d = os.path.join(VERIF, "seeded", sid)
    wt = tempfile.mkdtemp(prefix="j1939rc_")
    try:
        shutil.copytree("/repo/j1939", os.path.join(wt, "j1939"))
        for extra in ("test", "examples"):
            pass
        rc0, out0 = sh("/venv/bin/python %s/demo.py %s" % (d, wt), cwd=wt)
        rc, out = sh("git apply %s/patch.diff" % d, cwd=wt)
        if rc:
            return sid, "patch does not apply", rc0, None
        rc1, out1 = sh("/venv/bin/python %s/demo.py %s" % (d, wt), cwd=wt)
        return sid, "ok" if (rc0 == 0 and rc1 == 1) else "NOT-CONFIRMED", rc0, rc1
    finally:
        shutil.rmtree(wt, ignore_errors=True)


def main():
    ids = sys.argv[1:] or sorted(os.path.basename(os.path.dirname(f)) for f in glob.glob(os.path.join(VERIF, "seeded", "*", "meta.json")))
    import concurrent.futures as cf
    with cf.ThreadPoolExecutor(max_workers=8) as ex:
        for sid, st, rc0, rc1 in ex.map(one, ids):
            print("%-6s %-20s demo without=%s with=%s" % (sid, st, rc0, rc1))


if __name__ == "__main__":
    main()
