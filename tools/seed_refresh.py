#!/usr/bin/env python3
"""seed_refresh.py [id ...] - re-run ALL 19 quick checks on every stored seeded change (scratch copy of the current /repo/j1939 with
the patch applied) and record the result in meta.json under `checks` (the result at the time the change was first evaluated is kept
once under `checks_at_first_evaluation`).  The table in DESIGN.md section 9 is generated from `checks`."""
import concurrent.futures as cf, glob, json, os, shutil, subprocess, sys, tempfile
VERIF = os.path.dirname(os.path.dirname(os.path.abspath(__file__)))
ALL = ["C%02d" % i for i in range(1, 20)]
ids = sys.argv[1:] or sorted(os.path.basename(os.path.dirname(p)) for p in glob.glob(os.path.join(VERIF, "seeded", "*", "patch.diff")))


def one(i):
    mf = os.path.join(VERIF, "seeded", i, "meta.json")
    meta = json.load(open(mf))
    d = tempfile.mkdtemp(prefix="j1939sr_")
    try:
        shutil.copytree("/repo/j1939", os.path.join(d, "j1939"))
        r = subprocess.run(["git", "apply", os.path.join(VERIF, "seeded", i, "patch.diff")], cwd=d, capture_output=True, text=True)
        if r.returncode:
            return i, "patch does not apply"
        det, unk, first = {}, [], ""
        for p in ALL:
            r = subprocess.run([os.path.join(VERIF, "check"), p, "--root", d], capture_output=True, text=True)
            lines = [l for l in r.stdout.splitlines() if "[R-" in l or "[O-" in l]
            if r.returncode == 1:
                det[p] = sorted({l.split("[")[1].split("]")[0] for l in lines})[:6]
                if p == meta["property"] and lines:
                    first = lines[0][:300]
            elif r.returncode == 2:
                unk.append(p)
        if "checks_at_first_evaluation" not in meta:
            meta["checks_at_first_evaluation"] = meta.get("checks")
        meta["checks"] = {"ran": ALL, "detected_by": det, "undecided": unk, "own_property_detects": meta["property"] in det, "first_report": first}
        json.dump(meta, open(mf, "w"), indent=1)
        return i, "own=%s others=%s" % (det.get(meta["property"]), sorted(k for k in det if k != meta["property"]))
    finally:
        shutil.rmtree(d, ignore_errors=True)


with cf.ThreadPoolExecutor(max_workers=14) as ex:
    for i, s in ex.map(one, ids):
        print(i, s)
