#!/usr/bin/env python3
"""Rewrites the auto-generated table of DESIGN.md section 9 from /verif/seeded/*/meta.json."""
import glob, json, os, re
HERE = os.path.dirname(os.path.dirname(os.path.abspath(__file__)))
rows = []
for f in sorted(glob.glob(os.path.join(HERE, "seeded", "*", "meta.json"))):
    m = json.load(open(f))
    patch = open(os.path.join(os.path.dirname(f), "patch.diff")).read()
    files = sorted(set(re.findall(r"^\+\+\+ b/(\S+)", patch, re.M)))
    hunk = re.findall(r"^@@.*@@ (.*)$", patch, re.M)
    where = "%s %s" % (", ".join(x.replace("j1939/", "") for x in files), ("(" + hunk[0].strip()[:50] + ")") if hunk and hunk[0].strip() else "")
    det = m["checks"]["detected_by"]
    own = m["property"] in det
    others = {k: v for k, v in det.items() if k != m["property"]}
    c = m["confirmed"]
    first = (m.get("checks_at_first_evaluation") or m["checks"]).get("detected_by", {})
    rows.append("| %s | %s | %s | %s | %s | %s | %s |" % (
        m["id"], "no" if m.get("missed_at_first_evaluation") else "yes", where.strip(), m.get("summary", "").replace("|", "/"),
        "tests %s, demo %d/%d" % ("pass" if c["tests_pass"] else "FAIL", c["demo_exit_with_change"], c["demo_exit_without_change"]),
        ("**" + ", ".join(det[m["property"]]) + "**") if own else "not detected",
        "; ".join("%s: %s" % (k, ", ".join(v)) for k, v in sorted(others.items())) or "-"))
table = "| id | reported by its own property when first evaluated | where | what was changed | confirmed (tests, demo exit with/without) | own property's check reports (now) | other checks that also report (now) |\n|---|---|---|---|---|---|---|\n" + "\n".join(rows)
p = os.path.join(HERE, "DESIGN.md")
s = open(p).read()
a, b = "<!-- SEEDED-TABLE-BEGIN -->", "<!-- SEEDED-TABLE-END -->"
if a in s:
    s = s[:s.index(a) + len(a)] + "\n" + table + "\n" + s[s.index(b):]
    open(p, "w").write(s)
print("%d seeded changes; own property detects %d" % (len(rows), sum(1 for r in rows if "not detected" not in r)))
