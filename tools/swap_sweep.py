#!/usr/bin/env python3
"""swap_sweep.py [--jobs N] [--out FILE]: developer aid (not a check) - ordering sweep.  Every pair of adjacent simple statements of one block
in which one is a call statement (a send, a callback, a wake-up, a (un)subscribe ...) and the other a store into object state (self.x = ...,
self.t[k][f] = ..., buf[f] = ...) is swapped on a scratch copy, and all 19 quick analyses are run on the copy in one process.  Pairs in
which the second statement reads a local the first one assigns are skipped.  Output as del_sweep.py."""
import argparse, ast, json, os, shutil, subprocess, sys, tempfile
HERE = os.path.dirname(os.path.dirname(os.path.abspath(__file__)))


def is_call_stmt(st):
    return isinstance(st, ast.Expr) and isinstance(st.value, ast.Call) and not ast.unparse(st).startswith(("logger.", "print("))


def is_state_store(st):
    if not isinstance(st, (ast.Assign, ast.AugAssign)):
        return False
    ts = st.targets if isinstance(st, ast.Assign) else [st.target]
    for t in ts:
        b = t
        while isinstance(b, ast.Subscript):
            b = b.value
        if isinstance(b, ast.Attribute) and isinstance(t, (ast.Attribute, ast.Subscript)):
            return True
        if isinstance(t, ast.Subscript) and isinstance(b, ast.Name):
            return True
    return False


def names(st, ctx):
    return {n.id for n in ast.walk(st) if isinstance(n, ast.Name) and isinstance(n.ctx, ctx)}


def sites(path):
    tree = ast.parse(open(path).read())
    out = []
    for fn in ast.walk(tree):
        if not isinstance(fn, ast.FunctionDef):
            continue
        for blk in ast.walk(fn):
            for fld in ("body", "orelse", "finalbody"):
                b = getattr(blk, fld, None)
                if not (isinstance(b, list) and b and isinstance(b[0], ast.stmt)):
                    continue
                for a, c in zip(b, b[1:]):
                    if not ((is_call_stmt(a) and is_state_store(c)) or (is_state_store(a) and is_call_stmt(c))):
                        continue
                    if names(a, ast.Store) & names(c, ast.Load) or names(c, ast.Store) & names(a, ast.Load):
                        continue
                    out.append((a.lineno, a.end_lineno, c.lineno, c.end_lineno, fn.name, ast.unparse(a)[:60] + "  <->  " + ast.unparse(c)[:60]))
    return sorted(set(out))


def mutate(p, a_lo, a_hi, c_lo, c_hi):
    lines = open(p).read().split("\n")
    A, gap, C = lines[a_lo - 1:a_hi], lines[a_hi:c_lo - 1], lines[c_lo - 1:c_hi]
    lines[a_lo - 1:c_hi] = C + gap + A
    open(p, "w").write("\n".join(lines))


def run_one(args):
    fn, a_lo, a_hi, c_lo, c_hi, fname, txt = args
    d = tempfile.mkdtemp(prefix="j1939swp_")
    try:
        shutil.copytree("/repo/j1939", os.path.join(d, "j1939"))
        mutate(os.path.join(d, "j1939", fn), a_lo, a_hi, c_lo, c_hi)
        r = subprocess.run([sys.executable, os.path.join(HERE, "tools", "del_sweep.py"), "--analyse", d], capture_output=True, text=True, timeout=900)
        last = [l for l in r.stdout.splitlines() if l.startswith("RESULT ")]
        res = json.loads(last[-1][7:]) if last else {"error": (r.stderr or r.stdout)[-300:]}
        return {"file": fn, "a": [a_lo, a_hi], "c": [c_lo, c_hi], "func": fname, "stmt": txt, **res}
    finally:
        shutil.rmtree(d, ignore_errors=True)


def main():
    ap = argparse.ArgumentParser()
    ap.add_argument("--jobs", type=int, default=14)
    ap.add_argument("--out", default="/tmp/swap_sweep.jsonl")
    a = ap.parse_args()
    todo = []
    for fn in sorted(f for f in os.listdir("/repo/j1939") if f.endswith(".py") and f not in ("__init__.py", "version.py")):
        for s in sites(os.path.join("/repo/j1939", fn)):
            todo.append((fn,) + s)
    print("%d mutants" % len(todo), flush=True)
    import concurrent.futures as cf
    with open(a.out, "w") as fh, cf.ThreadPoolExecutor(max_workers=a.jobs) as ex:
        for res in ex.map(run_one, todo):
            fh.write(json.dumps(res) + "\n")
            fh.flush()
    print("done")


if __name__ == "__main__":
    main()
