import j1939, threading, queue, time
class Bus:
    """loopback: each stack's send_message enqueues to every other stack's rx thread"""
    def __init__(self): self.nodes=[]; self.log=[]
    def add(self, **kw):
        n = Node(self, **kw); self.nodes.append(n); return n
class Node:
    def __init__(self, bus, **kw):
        self.bus=bus; self.q=queue.Queue()
        self.ecu=j1939.ElectronicControlUnit(send_message=self.tx, **kw)
        self.t=threading.Thread(target=self.rx, daemon=True); self.t.start()
        self.errors=[]
    def tx(self, can_id, ext, data, fd_format=False):
        self.bus.log.append((time.time(), id(self)%1000, hex(can_id), list(data)))
        for n in self.bus.nodes:
            if n is not self: n.q.put((can_id, list(data)))
    def rx(self):
        while True:
            can_id,data=self.q.get()
            try: self.ecu.notify(can_id, data, time.time())
            except Exception as e: self.errors.append(repr(e))
    def ca(self, addr, ident):
        c=j1939.ControllerApplication(j1939.Name(identity_number=ident), addr, bypass_address_claim=True)
        self.ecu.add_ca(controller_application=c); return c
