import j1939, types, time as real
import j1939.electronic_control_unit as m
clock=[100.0]
fake=types.SimpleNamespace(time=lambda: clock[0])
ecu = j1939.ElectronicControlUnit(send_message=lambda *a, **k: None)
ecu.stop()                       # stop the real thread; drive the loop by hand with a controlled clock
m.time=fake
calls=[]
def cb(c):
    calls.append(clock[0])
    if len(calls)==1: clock[0]+=1e-6      # 1 microsecond of processing time
    if len(calls)>=3: ecu._job_thread_end.set()
    return True
ecu._job_thread_end.clear()
ecu.add_timer(1.0, cb)           # deadline = 101.0
clock[0]=101.0                   # the thread wakes exactly at the deadline
import queue
ecu._job_thread_wakeup_queue.get = lambda *a, **k: (_ for _ in ()).throw(queue.Empty()) if not clock.__setitem__(0, clock[0]+ (k.get('timeout') or a[1])) else None
ecu._async_job_thread()
m.time=real
print("periodic 1.0 s timer called at t =", calls)
