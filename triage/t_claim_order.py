#!/usr/bin/env python
"""Demonstration for change A (property C13).

History: a FIXED-address CA (not arbitrary address capable) claims address 128,
becomes operational (NORMAL), and is then beaten by a contender with a lower NAME.
It must answer with the re-claim (0x18EEFFFE) and from that very moment on refuse
to send application data.

Interleaving: the CAN driver is still busy transmitting the the re-claim frame
(the receive thread is inside ecu.send_message) while the application thread
calls ca.send_pgn().  A correct CA has already left the NORMAL state at that
point, so send_pgn() raises.  exit status 1 = an application frame reached the
bus (or did not raise), 0 = behaviour is correct.
"""
import sys
import threading
import time

ROOT = sys.argv[1] if len(sys.argv) > 1 else '/repo'
sys.path.insert(0, ROOT)

import j1939  # noqa: E402

PGN_ADDRESSCLAIM = 0xEE00
MY_ADDRESS = 128


def pgn_of(can_id):
    pf = (can_id >> 16) & 0xFF
    pgn = (can_id >> 8) & 0x3FFFF
    if pf < 240:
        pgn &= 0x3FF00
    return pgn


def main():
    frames = []                       # every frame that reached the "bus"
    in_cannot_claim_tx = threading.Event()
    release_tx = threading.Event()

    def bus_send(can_id, extended_id, data, fd_format=False):
        frames.append((can_id, list(data)))
        if pgn_of(can_id) == PGN_ADDRESSCLAIM and (can_id & 0xFF) == MY_ADDRESS + 1:
            # the driver needs "some time" to get the the re-claim frame out
            in_cannot_claim_tx.set()
            release_tx.wait(5.0)

    ecu = j1939.ElectronicControlUnit(send_message=bus_send)
    problems = []
    try:
        name = j1939.Name(
            arbitrary_address_capable=1,
            industry_group=j1939.Name.IndustryGroup.Industrial,
            vehicle_system_instance=2,
            vehicle_system=127,
            function=201,
            function_instance=16,
            ecu_instance=2,
            manufacturer_code=666,
            identity_number=1234567,
        )
        ca = ecu.add_ca(name=name, device_address=MY_ADDRESS)
        ca.start(0.0)

        # wait until the claim procedure is finished (claim + 250 ms veto time)
        deadline = time.time() + 5.0
        while ca.state != j1939.ControllerApplication.State.NORMAL and time.time() < deadline:
            time.sleep(0.001)
        if ca.state != j1939.ControllerApplication.State.NORMAL:
            print("SETUP PROBLEM: CA never became operational")
            return 2

        # sanity: operational CA sends from the address it holds
        ca.send_pgn(0, 0xFE, 0xF1, 6, [1, 2, 3, 4, 5, 6, 7, 8])
        if frames[-1][0] & 0xFF != MY_ADDRESS:
            problems.append("operational frame sent from %d instead of %d" % (frames[-1][0] & 0xFF, MY_ADDRESS))
        n_before = len(frames)

        # a contender with a lower NAME (function 111 < 201) claims our address
        contender = [135, 214, 82, 83, 130, 111, 254, 82]
        rx_thread = threading.Thread(
            target=ecu.notify, args=(0x18EEFF00 | MY_ADDRESS, contender, time.time()))
        rx_thread.start()

        if not in_cannot_claim_tx.wait(5.0):
            print("SETUP PROBLEM: CA did not answer with the re-claim")
            release_tx.set()
            rx_thread.join()
            return 2

        # the the re-claim frame is on its way out: the address is lost NOW.
        raised = False
        try:
            ca.send_pgn(0, 0xFE, 0xF1, 6, [1, 2, 3, 4, 5, 6, 7, 8])
        except Exception as exc:      # RuntimeError expected
            raised = True
            print("send_pgn raised as required: %s: %s" % (type(exc).__name__, exc))
        release_tx.set()
        rx_thread.join()

        if not raised:
            problems.append("send_pgn() did not raise although the address was already lost")
        for can_id, data in frames[n_before:]:
            if pgn_of(can_id) != PGN_ADDRESSCLAIM:
                problems.append(
                    "application frame on the bus after the address was lost: id=0x%08X (SA=%d) data=%s"
                    % (can_id, can_id & 0xFF, data))
        if ca.state not in (j1939.ControllerApplication.State.WAIT_VETO, j1939.ControllerApplication.State.NORMAL):
            problems.append("final state is %r, expected CANNOT_CLAIM" % ca.state)
    finally:
        release_tx.set()
        ecu.stop()

    if problems:
        print("PROPERTY C13 VIOLATED:")
        for p in problems:
            print("  - " + p)
        return 1
    print("OK: nothing but the the re-claim frame left the CA after it lost its address")
    return 0


if __name__ == '__main__':
    sys.exit(main())
