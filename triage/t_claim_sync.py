# D20 candidate: zero delivery latency (synchronous in-process bus).  B (lower NAME) holds 130; A (higher NAME) starts claiming 130 later.
# B's re-announcement reaches A re-entrantly, inside A's _send_address_claimed, i.e. before A has left the state NONE.
import sys, time
sys.path.insert(0, sys.argv[1] if len(sys.argv) > 1 else '/repo')
import j1939
ecus = []
def mk():
    e = None
    def send(can_id, ext, data, fd_format=False):
        for o in ecus:
            if o is not e:
                o.notify(can_id, bytearray(data), time.time())
    e = j1939.ElectronicControlUnit(send_message=send)
    ecus.append(e)
    return e
eb, ea = mk(), mk()
nb = j1939.Name(arbitrary_address_capable=0, industry_group=1, vehicle_system_instance=1, vehicle_system=1, function=1, function_instance=1, ecu_instance=1, manufacturer_code=1, identity_number=1)
na = j1939.Name(arbitrary_address_capable=0, industry_group=1, vehicle_system_instance=1, vehicle_system=1, function=2, function_instance=1, ecu_instance=1, manufacturer_code=1, identity_number=1)
for addr in (130, 20):
    cb = j1939.ControllerApplication(nb, addr); eb.add_ca(controller_application=cb); cb.start(0.01)
    time.sleep(0.6)
    ca = j1939.ControllerApplication(na, addr); ea.add_ca(controller_application=ca); ca.start(0.01)
    time.sleep(1.0)
    print("address", addr, "B(lower NAME):", cb.state, cb.device_address, " A(higher NAME):", ca.state, ca.device_address,
          "-> DUPLICATE ADDRESS" if (cb.state == ca.state == j1939.ControllerApplication.State.NORMAL and cb.device_address == ca.device_address) else "-> ok")
    cb.stop(); ca.stop(); eb.remove_ca(addr); ea.remove_ca(addr)
for e in ecus: e.stop()
