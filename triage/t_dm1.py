from bus import *
b=Bus(); a=b.add(); c=b.add()
ca=a.ca(0x10,1); cc=c.ca(0x20,2)
got=[]
d1=j1939.Dm1(cc); d1.subscribe(lambda sa,l,d,ts: got.append((sa,l,d)))
s=j1939.Dm1(ca)
cb=lambda: ({'pl':1,'awl':2,'rsl':3,'mil':0},[{'spn':0x7FFFF,'fmi':31,'oc':127},{'spn':1,'fmi':2,'oc':3}])
s.start_send(cb, 0.2)
time.sleep(1.0); n=len(got); print("got",n, got[-1] if got else None)
s.stop_send(cb); time.sleep(1.0); print("after stop_send additional:", len(got)-n)
