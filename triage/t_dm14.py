from bus import *
import sys
def setup(seed=False):
    b=Bus(); a=b.add(); c=b.add()
    cli=j1939.MemoryAccess(a.ca(0xF9,1)); srv=j1939.MemoryAccess(c.ca(0xD4,2))
    if seed:
        cli.set_seed_key_algorithm(lambda s: s^0xFFFF); srv.set_seed_key_algorithm(lambda s: s^0xFFFF)
    return b,a,c,cli,srv
def serve(srv, payload, proceed=True):
    ev=threading.Event(); srv.set_notify(ev.set); srv.set_proceed(lambda *a: True)
    def run():
        ev.wait(3); ev.clear()
        try: r=srv.respond(proceed, payload, 0xFFFF if proceed else 0x100, 0xFF if proceed else 0x07); print("  server respond ->", r)
        except Exception as e: print("  server exc", repr(e))
    t=threading.Thread(target=run,daemon=True); t.start(); return t
for n in (1,3,7,8,9,20):
    b,a,c,cli,srv=setup()
    payload=list(range(1,n+1)); t=serve(srv,payload)
    try: r=cli.read(0xD4,1,0x1000,n,return_raw_bytes=True,max_timeout=2)
    except Exception as e: r=repr(e)
    t.join(4); print("read n=%d raw ->"%n, r==payload, r if r!=payload else "", "errs", a.errors, c.errors)
