from t_dm14 import setup, serve
from bus import *
print("=== writes")
for vals,size in (([0x11],1),([1,2,3],1),([0x1122,0x3344],2),([1,2,3,4,5,6,7],1),([1,2,3,4,5,6,7,8],1),(list(range(20)),1),([2**64-1],8)):
    b,a,c,cli,srv=setup()
    ev=threading.Event(); srv.set_notify(ev.set); srv.set_proceed(lambda *a: True); out=[]
    def run():
        ev.wait(3)
        try: out.append(srv.respond(True, [], 0xFFFF, 0xFF))
        except Exception as e: out.append(repr(e))
    t=threading.Thread(target=run,daemon=True); t.start()
    try: r=cli.write(0xD4,1,0x1000,vals,object_byte_size=size,max_timeout=2)
    except Exception as e: r=repr(e)
    t.join(4)
    exp=[]; [exp.extend(v.to_bytes(size,'little')) for v in vals]
    print("write",len(exp),"bytes ok=", out and out[0]==exp, out if not(out and out[0]==exp) else "", "cli ret",r,"errs",a.errors,c.errors, "states", cli.state, cli.query.state, srv.state, srv.server.state)
