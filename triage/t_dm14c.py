from t_dm14 import setup, serve
from bus import *
import sys
print("=== failure then retry")
for seed in (False, True):
  for mode in ("refuse_respond","timeout","wrongkey"):
    if mode=="wrongkey" and not seed: continue
    b,a,c,cli,srv=setup(seed)
    if mode=="wrongkey": cli.query.set_seed_key_algorithm(lambda s: (s^0xFFFF)^1)
    if mode!="timeout": t=serve(srv,[1,2,3],proceed=(mode!="refuse_respond"))
    try: r=cli.read(0xD4,1,0x1000,3,return_raw_bytes=True,max_timeout=1)
    except Exception as e: r="EXC "+repr(e)
    print(seed,mode,"first ->",r)
    time.sleep(0.5)
    if mode=="wrongkey": cli.query.set_seed_key_algorithm(lambda s: s^0xFFFF)
    print("   states before retry", cli.state, cli.query.state, srv.state, srv.server.state, "subs cli", len(a.ecu._subscribers), "srv", len(c.ecu._subscribers))
    t=serve(srv,[4,5,6])
    try: r=cli.read(0xD4,1,0x1000,3,return_raw_bytes=True,max_timeout=2)
    except Exception as e: r="EXC "+repr(e)
    t.join(4)
    print("   retry ->", r, "errs", a.errors, c.errors)
