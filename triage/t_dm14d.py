import sys, io
_o=sys.stdout; sys.stdout=io.StringIO()
from t_dm14 import setup, serve
sys.stdout=_o
from bus import *
b,a,c,cli,srv=setup()
args=[]
def serve2(payload):
    ev=threading.Event(); srv.set_notify(ev.set); srv.set_proceed(lambda *x: args.append(x) or True)
    def run():
        ev.wait(3); r=srv.respond(True,payload,0xFFFF,0xFF)
    t=threading.Thread(target=run,daemon=True); t.start(); return t
t=serve2([1,2,3]); r1=cli.read(0xD4,1,0x1000,3,return_raw_bytes=True,max_timeout=2); t.join(3); time.sleep(0.3)
t=serve2([4,5,6])
try: r2=cli.read(0xD4,1,0x2000,3,return_raw_bytes=True,max_timeout=2)
except Exception as e: r2="EXC "+repr(e)
t.join(3)
print("first",r1,"second(other address)",r2)
print("proceed args (cmd,addr,...):",[(x[0],hex(x[1])) for x in args])
