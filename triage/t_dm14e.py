# D16: multi-packet read followed by a write on the same server object: does respond() return the written bytes?
import io, contextlib
with contextlib.redirect_stdout(io.StringIO()):
    from t_dm14 import setup, serve
from bus import *
b,a,c,cli,srv=setup()
payload=list(range(1,21)); t=serve(srv,payload)
r=cli.read(0xD4,1,0x1000,20,return_raw_bytes=True,max_timeout=2); t.join(4)
print("multi-packet read ok:", r==payload, "server data_queue size afterwards:", srv.server.data_queue.qsize())
time.sleep(0.3)
ev=threading.Event(); srv.set_notify(ev.set); srv.set_proceed(lambda *a: True); out=[]
def run():
    ev.wait(3)
    out.append(srv.respond(True, [], 0xFFFF, 0xFF))
t=threading.Thread(target=run,daemon=True); t.start()
try: cli.write(0xD4,1,0x2000,[9,8,7],object_byte_size=1,max_timeout=2)
except Exception as e: print("write exc", repr(e))
t.join(4)
print("write of [9,8,7]: application was handed", out)
for n in b.nodes: n.ecu.stop()
