# two behaviours reported by the round-2 C17 refactoring agent:
# (1) a write of the value 0 leaves the server stuck?  (2) refusal by the proceed function without seed/key: is the facade usable afterwards?
import io, contextlib
with contextlib.redirect_stdout(io.StringIO()):
    from t_dm14 import setup, serve
from bus import *
def write(cli, srv, values, size=1):
    ev=threading.Event(); srv.set_notify(ev.set); srv.set_proceed(lambda *a: True); out=[]
    def run():
        if ev.wait(3):
            out.append(srv.respond(True, [], 0xFFFF, 0xFF))
    t=threading.Thread(target=run,daemon=True); t.start()
    try: cli.write(0xD4,1,0x2000,values,object_byte_size=size,max_timeout=2); r="ok"
    except Exception as e: r=repr(e)
    t.join(4)
    return r, out
print("(1) writes")
b,a,c,cli,srv=setup()
for vals in ([5],[0],[7],[0,0],[1,0,2]):
    r,out=write(cli,srv,vals)
    print("  write", vals, "->", r, "application got", out, "server state", srv.server.state, "facade state", srv.state)
    time.sleep(0.3)
for n in b.nodes: n.ecu.stop()
print("(2) refusal at the proceed callback, no seed/key, then a normal read")
b,a,c,cli,srv=setup()
srv.set_proceed(lambda *x: False); srv.set_notify(lambda: None)
try: print("  refused read ->", cli.read(0xD4,1,0x1000,3,return_raw_bytes=True,max_timeout=2))
except Exception as e: print("  refused read raised", repr(e))
time.sleep(0.3)
print("  server state", srv.server.state, "facade state", srv.state)
payload=[1,2,3]; srv.set_proceed(lambda *x: True); t=serve(srv,payload)
try: r=cli.read(0xD4,1,0x1000,3,return_raw_bytes=True,max_timeout=2)
except Exception as e: r=repr(e)
t.join(4); print("  next read ->", r)
for n in b.nodes: n.ecu.stop()
