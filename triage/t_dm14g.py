# does a write whose values are all zero complete like any other write?
import io, contextlib
with contextlib.redirect_stdout(io.StringIO()):
    from t_dm14 import setup, serve
from bus import *
def write(cli, srv, values, size=1):
    ev=threading.Event(); srv.set_notify(ev.set); srv.set_proceed(lambda *a: True); out=[]
    def run():
        if ev.wait(3):
            out.append(srv.respond(True, [], 0xFFFF, 0xFF))
    t=threading.Thread(target=run,daemon=True); t.start()
    try: cli.write(0xD4,1,0x2000,values,object_byte_size=size,max_timeout=2); r="ok"
    except Exception as e: r=repr(e)
    t.join(4)
    return r, out
for vals,size in (([5],1),([0],1),([0,0],1),([0]*7,1),([0]*8,1),([0],4),([0,0],4),([1,0],4),([0]*3,2)):
    b,a,c,cli,srv=setup()
    r,out=write(cli,srv,vals,size)
    time.sleep(0.6)
    print("write", vals, "size", size, "->", r, "app got", out, "| server", srv.server.state.name, "facade", srv.state.name)
    # follow-up read must work
    payload=[1,2,3]; t=serve(srv,payload)
    try: r2=cli.read(0xD4,1,0x1000,3,return_raw_bytes=True,max_timeout=2)
    except Exception as e: r2=repr(e)
    t.join(4); print("     follow-up read ->", r2)
    for n in b.nodes: n.ecu.stop()
