# write transaction where the server's driver send call for the proceed DM15 is slow (blocks 50 ms): the requester's DM16 is processed by
# the server's receive thread before _wait_for_data resumes and picks its branch from self.state
import io, contextlib, sys
with contextlib.redirect_stdout(io.StringIO()):
    from t_dm14 import setup, serve
from bus import *
slow = len(sys.argv) > 1 and sys.argv[1] == "slow"
b,a,c,cli,srv=setup()
orig = c.tx
def tx(can_id, ext, data, fd_format=False):
    orig(can_id, ext, data, fd_format)
    if slow and ((can_id >> 16) & 0xFF) == 0xD8 and (data[1] >> 1) & 7 == 0:   # DM15 proceed
        time.sleep(0.05)
c.ecu.send_message = tx
c.ecu.j1939_dll._J1939_21__send_message = tx
ev=threading.Event(); srv.set_notify(ev.set); srv.set_proceed(lambda *a: True); out=[]
def run():
    if ev.wait(3):
        out.append(srv.respond(True, [], 0xFFFF, 0xFF))
t=threading.Thread(target=run,daemon=True); t.start()
try: cli.write(0xD4,1,0x2000,[1,2,3],object_byte_size=1,max_timeout=2); r="ok"
except Exception as e: r=repr(e)
t.join(4)
time.sleep(0.5)
print("write ->", r, "app got", out, "| server state", srv.server.state.name, "sa", srv.server.sa, "facade", srv.state.name)
payload=[1,2,3]; t=serve(srv,payload)
try: r2=cli.read(0xD4,1,0x1000,3,return_raw_bytes=True,max_timeout=2)
except Exception as e: r2=repr(e)
t.join(4); print("follow-up read ->", r2)
bad = srv.server.state.name != "IDLE" and r2 != payload
for n in b.nodes: n.ecu.stop()
sys.exit(1 if (r2 != payload or out != [[1, 2, 3]]) else 0)
