# client side of the same race: the first DM14 is handed to a slow driver (send call blocks 50 ms); the server's proceed DM15 is processed
# by the client's receive thread before _read/_write has stored WAIT_FOR_SEED
import io, contextlib, sys
with contextlib.redirect_stdout(io.StringIO()):
    from t_dm14 import setup, serve
from bus import *
slow = len(sys.argv) > 1 and sys.argv[1] == "slow"
b,a,c,cli,srv=setup()
orig = a.tx
def tx(can_id, ext, data, fd_format=False):
    orig(can_id, ext, data, fd_format)
    if slow and ((can_id >> 16) & 0xFF) == 0xD9:   # DM14
        time.sleep(0.05)
a.ecu.send_message = tx
a.ecu.j1939_dll._J1939_21__send_message = tx
payload=[1,2,3]
with contextlib.redirect_stdout(io.StringIO()):
    t=serve(srv,payload)
try: r=cli.read(0xD4,1,0x1000,3,return_raw_bytes=True,max_timeout=2)
except Exception as e: r=repr(e)
t.join(4)
print("read ->", r, "| client rx errors", a.errors)
ok = (r == payload)
b2,a2,c2,cli2,srv2=setup()
orig2 = a2.tx
def tx2(can_id, ext, data, fd_format=False):
    orig2(can_id, ext, data, fd_format)
    if slow and ((can_id >> 16) & 0xFF) == 0xD9 and (data[1] >> 1) & 7 == 2:   # first DM14 of the write
        time.sleep(0.05)
a2.ecu.send_message = tx2
a2.ecu.j1939_dll._J1939_21__send_message = tx2
ev=threading.Event(); srv2.set_notify(ev.set); srv2.set_proceed(lambda *x: True); out=[]
def run():
    if ev.wait(3):
        out.append(srv2.respond(True, [], 0xFFFF, 0xFF))
t=threading.Thread(target=run,daemon=True); t.start()
try: cli2.write(0xD4,1,0x2000,[1,2,3],object_byte_size=1,max_timeout=2); r="ok"
except Exception as e: r=repr(e)
t.join(4)
print("write ->", r, "app got", out, "| client rx errors", a2.errors)
ok = ok and r == "ok" and out == [[1,2,3]]
for n in b.nodes + b2.nodes: n.ecu.stop()
sys.exit(0 if ok else 1)
