"""D1a/D3/D4: duplicate registrations survive removal; DM22 SPN high bits; _bytes_to_values."""
import j1939
ecu = j1939.ElectronicControlUnit(send_message=lambda *a, **k: None)
def cb(c): return True
ecu.add_timer(10, cb); ecu.add_timer(10, cb); ecu.remove_timer(cb)
print("timers left after remove_timer:", len(ecu._timer_events))
def s(*a): pass
ecu.subscribe(s); ecu.subscribe(s); ecu.unsubscribe(s)
print("subscribers left after unsubscribe:", len(ecu._subscribers))
ecu.stop()
class CA:
    def send_pgn(self, *a): print("DM22 payload for spn=0x7FFFF fmi=0x1F:", [hex(x) for x in a[4]])
j1939.Dm22(CA()).request_clear_act_dtc(1, 0x7FFFF, 0x1F)
q = j1939.Dm14Query(None); q.object_byte_size = 1; q.signed = False
print("_bytes_to_values([1,2,3]) ->", q._bytes_to_values([1, 2, 3]))
