from bus import *
class DropBus(Bus): pass
b=Bus(); a=b.add(data_link_layer='j1939-22', max_cmdt_packets=3); c=b.add(data_link_layer='j1939-22', max_cmdt_packets=3)
ca=a.ca(0x10,1); cc=c.ca(0x20,2); got=[]
cc.subscribe(lambda p,pgn,sa,ts,d: got.append((hex(pgn),sa,len(d))))
# drop 2nd FD.TP.DT frame
orig=a.tx; state={'n':0}
def tx(can_id, ext, data, fd_format=False):
    if ((can_id>>16)&0xFF)==0x4E:
        state['n']+=1
        if state['n']==2: return
    orig(can_id,ext,data,fd_format)
a.ecu.j1939_dll._J1939_22__send_message=tx
payload=[i%251 for i in range(170)]
ca.send_pgn(0,0xFE,0xF6,6,payload)   # BAM, 3 segments
time.sleep(1.5); print("BAM with DT2 lost, delivered:", got)
got.clear(); state['n']=0
ca.send_pgn(0,0xD0,0x20,6,payload)   # RTS/CTS, 3 segments, DT2 lost
time.sleep(2.0); print("RTS/CTS with DT2 lost, delivered:", got, "errs", a.errors, c.errors)
# session leak after peer abort
a.ecu.j1939_dll._J1939_22__send_message=orig
n=0
for i in range(10):
    ok=a.ecu.send_pgn(0,0xD0,0x77,6,0x10,payload)  # nobody at 0x77 ; we inject ABORT from 0x77
    if not ok: break
    # abort from 0x77 to 0x10 session i
    sess=[k>>16 for k in a.ecu.j1939_dll._snd_buffer][-1]
    a.ecu.notify((7<<26)|(0x4D10<<8)|0x77, [(sess<<4)|15,255,255,255,255,255,255,255,1,0,0xD0,0], 0.0)
    time.sleep(0.15); n+=1
print("transfers accepted before pool exhausted by peer aborts:", n, "snd sessions open:", len(a.ecu.j1939_dll._snd_buffer))
