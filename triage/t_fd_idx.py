"""D9 (C07 face): inbound BAM with session 5 times out -> IndexError ends the job thread."""
import j1939, time
ecu = j1939.ElectronicControlUnit(data_link_layer='j1939-22', send_message=lambda *a, **k: None)
ca = j1939.ControllerApplication(j1939.Name(identity_number=1), 0x10, bypass_address_claim=True)
ecu.add_ca(controller_application=ca)
can_id = (7 << 26) | (0x4DFF << 8) | 0x20
ecu.notify(can_id, [(5 << 4) | 4, 100, 0, 0, 2, 0, 0, 0xFF, 0, 0x00, 0xFE, 0x00], 0.0)
time.sleep(1.2)
print("job thread alive after BAM session 5 timed out:", ecu._job_thread.is_alive())
