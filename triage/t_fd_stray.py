"""D9 (C10 face): a stray inbound EOM-status releases an in-flight outbound session number."""
import j1939
sent = []
ecu = j1939.ElectronicControlUnit(data_link_layer='j1939-22', send_message=lambda *a, **k: sent.append(a))
ca = j1939.ControllerApplication(j1939.Name(identity_number=1), 0x10, bypass_address_claim=True)
ecu.add_ca(controller_application=ca)
for i in range(8):
    assert ecu.send_pgn(0, 0xD0, 0x20, 6, 0x10, list(range(100)))
print("9th send with pool exhausted ->", ecu.send_pgn(0, 0xD0, 0x20, 6, 0x10, list(range(100))))
ecu.notify((7 << 26) | (0x4D10 << 8) | 0x30, [(0 << 4) | 2, 100, 0, 0, 2, 0, 0, 0, 0, 0, 0xD0, 0], 0.0)
print("after stray EOM-status from 0x30: 9th send ->", ecu.send_pgn(0, 0xD0, 0x20, 6, 0x10, [7] * 100),
      "| send sessions in table:", len(ecu.j1939_dll._snd_buffer), "(8 => one in-flight session was overwritten)")
ecu.stop()
