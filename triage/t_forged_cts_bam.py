# D19 candidate: a forged granting CTS from the illegal source address 255, addressed to the ECU, hits the key of the ECU's own BAM session
# (key = session/src/dest with dest = 255).  What happens to the broadcast and to the BAM session-number pool?
import sys, time, threading
sys.path.insert(0, sys.argv[1] if len(sys.argv) > 1 else '/repo')
import j1939
OWN = 0x90
for layer in ('j1939-22', 'j1939-21'):
    sent = []
    def send_message(can_id, extended_id, data, fd_format=False):
        sent.append((time.time(), can_id, list(data)))
    ecu = j1939.ElectronicControlUnit(data_link_layer=layer, send_message=send_message, minimum_tp_bam_dt_interval=0.05)
    ecu.subscribe(lambda *a: None, device_address=OWN)
    dll = ecu.j1939_dll
    fd = layer == 'j1939-22'
    rounds = 10 if fd else 2
    ok = 0
    for k in range(rounds):
        n0 = len(sent)
        payload = [i & 0xFF for i in range(200)]
        r = ecu.send_pgn(0, 0xFE, 0xB0, 6, OWN, payload)
        if not r:
            print(layer, "round", k, "send_pgn refused the broadcast:", r, "bam pool:", getattr(dll, '_J1939_22__bam_sessions', getattr(dll, '_bam_sessions', '?')))
            break
        time.sleep(0.02)
        key = list(dll._snd_buffer)[0]
        sess = dll._snd_buffer[key].get('session', 0)
        if fd:
            can_id = (7 << 26) | (0x4D << 16) | (OWN << 8) | 0xFF
            cts = [0x01 | (sess << 4), 0xFF, 0xFF, 0xFF, 1, 0, 0, 2, 0, 0xB0, 0xFE, 0x00]   # next segment 1, grant 2
        else:
            can_id = (7 << 26) | (0xEC << 16) | (OWN << 8) | 0xFF
            cts = [17, 2, 1, 0xFF, 0xFF, 0xB0, 0xFE, 0x00]
        try:
            ecu.notify(can_id, cts, time.time())
        except Exception as exc:
            print('notify raised', repr(exc))
        time.sleep(3.0)
        dts = [f for f in sent[n0:] if ((f[1] >> 16) & 0xFF) == (0x4E if fd else 0xEB)]
        aborts = [f for f in sent[n0:] if ((f[1] >> 16) & 0xFF) == (0x4D if fd else 0xEC) and ((f[2][0] & 0xF) == 15 if fd else f[2][0] == 255)]
        print(layer, "round", k, "DT frames", len(dts), "aborts", len(aborts), "sessions left", len(dll._snd_buffer))
        ok += 1
    if fd:
        for nm in dir(dll):
            if 'session' in nm and not callable(getattr(dll, nm)):
                print("   ", nm, getattr(dll, nm))
    ecu.stop()
