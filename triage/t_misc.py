import j1939, time, threading
# D1b: subscriber that unsubscribes itself during dispatch hides the next subscriber
ecu = j1939.ElectronicControlUnit(send_message=lambda *a, **k: None)
seen=[]
def a(*x): seen.append('a'); ecu.unsubscribe(a)
def b(*x): seen.append('b')
ecu.subscribe(a); ecu.subscribe(b)
ecu.notify((6<<26)|(0xFECA<<8)|0x30,[1]*8,0.0)
print("D1b first broadcast seen by:", seen)
# D1c: expiring one-shot hides the timer behind it
fired=[]
t0=time.time()
ecu.add_timer(0.2, lambda c: fired.append(('oneshot',round(time.time()-t0,2))) or False)
ecu.add_timer(0.2, lambda c: fired.append(('second',round(time.time()-t0,2))) or False)
time.sleep(1.0); print("D1c fired:", fired)
time.sleep(5.0); print("D1c fired after 6s:", fired)
# D14: peer abort while WAITING_CTS: pair stays blocked until stale deadline
sent=[]
ecu2 = j1939.ElectronicControlUnit(send_message=lambda *a, **k: sent.append(a))
ca=j1939.ControllerApplication(j1939.Name(identity_number=1),0x90,bypass_address_claim=True); ecu2.add_ca(controller_application=ca)
time.sleep(0.2)
ca.send_pgn(0,0xDF,0x9B,6,list(range(20)))
time.sleep(0.1)
ecu2.notify(0x1CEC909B,[255,1,255,255,255,0,0xDF,0],0.0)  # abort from peer
t0=time.time()
while not ca.send_pgn(0,0xDF,0x9B,6,list(range(20))) and time.time()-t0<3: time.sleep(0.01)
print("D14 pair usable again after peer abort:", round(time.time()-t0,2),"s")
ecu.stop(); ecu2.stop()
