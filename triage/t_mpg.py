import j1939, time
sent=[]
ecu = j1939.ElectronicControlUnit(data_link_layer='j1939-22', send_message=lambda *a, **k: sent.append((time.time(),a)))
time.sleep(0.3)  # let job thread go to sleep for 5s
t0=time.time()
ecu.send_pgn(0, 0xFE, 0xCA, 6, 0x10, [1,2,3], time_limit=0.05)
time.sleep(6)
print("multi-pg with 50ms limit emitted after", [round(t-t0,3) for t,_ in sent])
# PDU2 single classic frame received by FD stack with a global subscriber
got=[]
ecu.subscribe(lambda *a: got.append(a))
ecu.notify((6<<26)|(0xFECA<<8)|0x30, [1,2,3,4,5,6,7,8], 0.0)
print("FD stack delivered PDU2 single frame to unfiltered listener:", len(got))
ecu.stop()
ecu21 = j1939.ElectronicControlUnit(send_message=lambda *a, **k: None)
got=[]; ecu21.subscribe(lambda *a: got.append(a))
ecu21.notify((6<<26)|(0xFECA<<8)|0x30, [1,2,3,4,5,6,7,8], 0.0)
print("21 stack delivered:", len(got)); ecu21.stop()
