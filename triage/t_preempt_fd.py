#!/usr/bin/env python
"""Demonstration for change A (property C08).

Two ECUs (sender S = 0x90, receiver R = 0x9B) are wired through an in-process bus: every frame a
stack sends is queued and delivered to the other stack by one bus thread, i.e. reception runs on a
different thread than the ECU's background ("job") thread, as with a can.Notifier.

One J1939-22 RTS/CTS transfer (100 bytes = 2 segments, window 1) is run again and again.  In each
run the background thread of the RECEIVING ecu is pre-empted exactly once: it is held at one source
line (the n-th time it gets there) while the rest of the system - the sender, the bus and frame
reception on the receiver - keeps running; it is released after at most 10 frames (~5 ms of bus
time) have passed or as soon as the bus has gone quiet.  All (line, n) pairs executed by that
thread during the transfer are tried, one per run.

After every run the outcome must be the same: payload delivered intact exactly once, no session
left on either side, both background threads alive.

exit status 0: outcome identical for every pre-emption point; 1: some pre-emption changed it.

(Only the receiver's thread is pre-empted here on purpose: the change under demonstration is in the
receive-buffer pass.)
"""
import os
import queue
import sys
import threading
import time

ROOT = sys.argv[1] if len(sys.argv) > 1 else '/repo'
sys.path.insert(0, ROOT)
import j1939  # noqa: E402

# ---- configuration of this demonstration -------------------------------------------------------
DLL = 'j1939-22'
LENGTH = 250
WINDOW = 2
ROLES = 'SR'
# -------------------------------------------------------------------------------------------------

PKG_DIR = os.path.dirname(os.path.abspath(j1939.__file__)) + os.sep
SA, RA = 0x90, 0x9B
JOB_THREAD_NAME = 'j1939.ecu job_thread'


class Bus:
    """All frames sent by a node are delivered, in order, by one bus thread to the other nodes."""
    STOP = object()

    def __init__(self):
        self.q = queue.Queue()
        self.nodes = []
        self.delivered = 0
        self.errors = []
        self.thread = threading.Thread(target=self._run, name='bus')
        self.thread.daemon = True
        self.thread.start()

    def sender(self, idx):
        def send_message(can_id, extended_id, data, fd_format=False):
            self.q.put((idx, can_id, list(data)))
        return send_message

    def _run(self):
        while True:
            item = self.q.get()
            if item is Bus.STOP:
                return
            idx, can_id, data = item
            for j, ecu in enumerate(self.nodes):
                if j != idx:
                    try:
                        ecu.notify(can_id, list(data), time.time())
                    except Exception as e:
                        self.errors.append('exception in frame reception: %r' % (e,))
            self.delivered += 1

    def stop(self):
        self.q.put(Bus.STOP)
        self.thread.join()


class Preempt:
    """Trace function for the job threads: records the executed lines and holds one thread once."""

    def __init__(self, bus, target):
        self.bus = bus
        self.target = target    # None or (role, file, function, line, n)
        self.roles = {}         # thread ident -> 'S' / 'R'
        self.hits = {}          # (role, file, function, line) -> number of times executed
        self.fired = False

    def global_trace(self, frame, event, arg):
        if threading.current_thread().name != JOB_THREAD_NAME:
            return None
        if not frame.f_code.co_filename.startswith(PKG_DIR):
            return None
        return self.local_trace

    def local_trace(self, frame, event, arg):
        if event != 'line':
            return self.local_trace
        role = self.roles.get(threading.get_ident())
        if role is None:
            return self.local_trace
        key = (role, os.path.basename(frame.f_code.co_filename), frame.f_code.co_name, frame.f_lineno)
        n = self.hits.get(key, 0) + 1
        self.hits[key] = n
        if self.target is not None and not self.fired and key == self.target[:4] and n == self.target[4]:
            self.fired = True
            self.hold()
        return self.local_trace

    def hold(self, stall=0.025, cap=0.5, max_frames=10):
        # this thread is suspended (before executing the line) while everything else keeps running
        t0 = time.time()
        start = last = self.bus.delivered
        last_change = t0
        while True:
            time.sleep(0.0005)
            now = time.time()
            d = self.bus.delivered
            if d != last:
                last, last_change = d, now
            if d - start >= max_frames or now - last_change >= stall or now - t0 >= cap:
                return


def run_once(target=None):
    """One transfer S -> R with at most one pre-emption. Returns (problems, hits, fired)."""
    bus = Bus()
    pre = Preempt(bus, target)
    excs = []
    old_hook = threading.excepthook
    threading.excepthook = lambda a: excs.append(
        '%s(%s) raised in thread "%s"' % (a.exc_type.__name__, a.exc_value, a.thread.name))
    threading.settrace(pre.global_trace)    # inherited by the job threads started below
    try:
        s = j1939.ElectronicControlUnit(data_link_layer=DLL, max_cmdt_packets=WINDOW, send_message=bus.sender(0))
        r = j1939.ElectronicControlUnit(data_link_layer=DLL, max_cmdt_packets=WINDOW, send_message=bus.sender(1))
    finally:
        threading.settrace(None)
    pre.roles[s._job_thread.ident] = 'S'
    pre.roles[r._job_thread.ident] = 'R'
    bus.nodes = [s, r]
    payload = [(i * 7 + 3) & 0xFF for i in range(LENGTH)]
    got = []
    r.subscribe(lambda prio, pgn, sa, ts, data: got.append(list(data)) if len(data) > 8 else None, RA)
    s.subscribe(lambda *a: None, SA)
    problems = []
    try:
        if not s.send_pgn(0, 0xEF, RA, 6, SA, list(payload)):
            problems.append('send_pgn returned False')

        def idle():
            return not (s.j1939_dll._snd_buffer or s.j1939_dll._rcv_buffer
                        or r.j1939_dll._snd_buffer or r.j1939_dll._rcv_buffer)
        t_end = time.time() + 1.0     # a healthy transfer needs a few ms
        while time.time() < t_end:
            if got and idle() and bus.q.empty():
                break
            if not (s._job_thread.is_alive() and r._job_thread.is_alive()):
                break
            time.sleep(0.001)
        time.sleep(0.03)              # let everything settle (duplicates, late exceptions)
        if not got:
            problems.append('payload not delivered within 1 s')
        elif len(got) > 1:
            problems.append('payload delivered %d times' % len(got))
        elif got[0] != payload:
            problems.append('payload corrupted')
        if not idle():
            problems.append('session left open (S send sessions %s, R receive sessions %s)'
                            % (list(s.j1939_dll._snd_buffer), list(r.j1939_dll._rcv_buffer)))
        for name, e in (('S', s), ('R', r)):
            if not e._job_thread.is_alive():
                problems.append('background thread of %s is dead' % name)
        problems.extend(excs)
        problems.extend(bus.errors)
    finally:
        s.stop()
        r.stop()
        bus.stop()
        threading.excepthook = old_hook
    return problems, pre.hits, pre.fired


def main():
    t0 = time.time()
    problems, hits, _ = run_once(None)
    if problems:
        print('transfer without any pre-emption already fails: %s' % '; '.join(problems))
        return 1
    points = sorted(k for k in hits if k[0] in ROLES)
    runs = 0
    for p in points:
        n = 1
        while n <= 40:
            problems, _, fired = run_once(p + (n,))
            runs += 1
            if not fired:
                break           # the line is not reached an n-th time: next line
            if problems:
                print('PROPERTY C08 VIOLATED (%s RTS/CTS, %d bytes, window %d):' % (DLL, LENGTH, WINDOW))
                print('  background thread of %s held at %s:%d (%s), %d. time it got there,'
                      % (p[0], p[1], p[3], p[2], n))
                print('  while frame reception continued ->')
                for x in problems:
                    print('    - ' + x)
                return 1
            n += 1
    print('ok: %d pre-emption points (%d runs, %.1f s), outcome always the same' % (len(points), runs, time.time() - t0))
    return 0


if __name__ == '__main__':
    sys.exit(main())
