import j1939, time, threading
sent=[]
ecu = j1939.ElectronicControlUnit(send_message=lambda *a, **k: sent.append(a))
ca=j1939.ControllerApplication(j1939.Name(identity_number=1),0x02,bypass_address_claim=True); ecu.add_ca(controller_application=ca)
dll=ecu.j1939_dll
got=[]; ca.subscribe(lambda *a: got.append(a))
job=ecu._job_thread
class D(dict):
    """pre-emption point: job thread is suspended between list(self._rcv_buffer) and self._rcv_buffer[bufid]"""
    armed=False
    def __getitem__(self,k):
        if D.armed and threading.current_thread() is job:
            D.armed=False
            # while the job thread is held here, the rx thread handles the last DT of the transfer
            t=threading.Thread(target=lambda: ecu.notify(0x00EB0201,[3,1,2,3,4,5,6,255],0.0)); t.start(); t.join()
        return dict.__getitem__(self,k)
dll._rcv_buffer=D()
ecu.notify(0x00EC0201,[16,20,0,3,3,176,254,0],0.0)   # RTS 20 bytes, 3 packets
ecu.notify(0x00EB0201,[1,1,2,3,4,5,6,7],0.0)
D.armed=True
ecu.notify(0x00EB0201,[2,1,2,3,4,5,6,7],0.0)          # wakes job thread -> pass -> held -> DT3 completes transfer
time.sleep(0.5)
print("delivered:", len(got), "job thread alive:", job.is_alive())
