import j1939, time, threading, sys
sent=[]
ecu = j1939.ElectronicControlUnit(send_message=lambda *a, **k: sent.append(a))
ca=j1939.ControllerApplication(j1939.Name(identity_number=1),0x90,bypass_address_claim=True); ecu.add_ca(controller_application=ca)
dll=ecu.j1939_dll
ca.send_pgn(0,0xDF,0x9B,6,list(range(20)))
cts=lambda n,nx: ecu.notify(0x1CEC909B,[17,n,nx,255,255,0,0xDF,0],0.0)
cts(3,1); time.sleep(0.2)
print("frames so far", len(sent))
cts(1,3); time.sleep(0.2)   # peer asks again (retransmit request) instead of EOM_ACK
# measure spin: count passes of async_job_thread in 0.5 s
cnt=[0]; orig=dll.async_job_thread
def wrap(now): cnt[0]+=1; return orig(now)
dll.async_job_thread=wrap
time.sleep(0.5); print("job passes in 0.5s:", cnt[0])
time.sleep(3.0); print("session still present after 3.7s:", len(dll._snd_buffer), "send_pgn ->", ca.send_pgn(0,0xDF,0x9B,6,list(range(20))))
ecu.stop()
