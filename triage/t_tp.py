from bus import *
import random
for dll in ('j1939-21','j1939-22'):
  for wa,wc in ((1,1),(3,2),(255,255),(2,5)):
    b=Bus(); a=b.add(data_link_layer=dll,max_cmdt_packets=wa); c=b.add(data_link_layer=dll,max_cmdt_packets=wc)
    ca=a.ca(0x10,1); cc=c.ca(0x20,2); got=[]; gota=[]
    cc.subscribe(lambda p,pgn,sa,ts,d: got.append((pgn,sa,list(d))))
    ca.subscribe(lambda p,pgn,sa,ts,d: gota.append((pgn,sa,len(d))))
    bad=0; sizes=[9,13,14,15,21,61,119,120,121,180] if dll=='j1939-21' else [61,119,120,121,180,600]
    for n in sizes:
        payload=[random.randrange(256) for _ in range(n)]
        got.clear()
        assert ca.send_pgn(0,0xD0,0x20,6,payload)
        t0=time.time()
        while not got and time.time()-t0<3: time.sleep(0.01)
        time.sleep(0.05)
        if got!=[(0xD000,0x10,payload)]: bad+=1; print("  MISMATCH",dll,wa,wc,n,[(hex(g[0]),g[1],len(g[2])) for g in got])
        # BAM
        got.clear(); assert ca.send_pgn(0,0xFE,0xF6,6,payload)
        t0=time.time()
        while not got and time.time()-t0<8: time.sleep(0.01)
        time.sleep(0.12)
        if got!=[(0xFEF6,0x10,payload)]: bad+=1; print("  BAM MISMATCH",dll,n,[(hex(g[0]),g[1],len(g[2])) for g in got])
    print(dll,"windows",wa,wc,"bad",bad,"orig-side deliveries",len(gota),"errs",a.errors[:2],c.errors[:2])
